"""Common machinery of ./check: regeneration, Coq compilation, violation protocol, evidence."""
from __future__ import annotations

import fcntl
import hashlib
import json
import os
import re
import shutil
import subprocess
import sys
import time

VERIF = os.path.dirname(os.path.abspath(__file__))
REPO = os.environ.get("VERIF_REPO", "/repo")
PY = "/venv/bin/python"
COQ_THEORIES = os.path.join(VERIF, "coq", "theories")
COQ_PROPS = os.path.join(VERIF, "coq", "props")
BUILD = os.path.join(VERIF, "build")
COQFLAGS = ["-Q", COQ_THEORIES, "AV", "-Q", ".", "AVchk"]

STD_AXIOMS = {
    "ClassicalDedekindReals.sig_forall_dec": "stdlib Reals axiom",
    "ClassicalDedekindReals.sig_not_dec": "stdlib Reals axiom",
    "FunctionalExtensionality.functional_extensionality_dep": "stdlib axiom (via Reals)",
    "Classical_Prop.classic": "stdlib axiom (via Reals/Coquelicot)",
    "ProofIrrelevance.proof_irrelevance": "stdlib axiom",
    "Eqdep.Eq_rect_eq.eq_rect_eq": "stdlib axiom",
    "JMeq.JMeq_eq": "stdlib axiom",
    "ClassicalEpsilon.constructive_indefinite_description": "stdlib axiom (via Coquelicot)",
    "PropExtensionality.propositional_extensionality": "stdlib axiom",
    "IndefiniteDescription.constructive_indefinite_description": "stdlib axiom (via Coquelicot)",
}


def bridge_env(seed: int | None = 0) -> dict:
    env = dict(os.environ)
    env["PYTHONPATH"] = os.path.join(REPO, "src") + ":" + os.path.join(VERIF, "bridge")
    env["VERIF_REPO"] = REPO
    if seed is None:
        env.pop("PYTHONHASHSEED", None)
    else:
        env["PYTHONHASHSEED"] = str(seed)
    env["PYTHONDONTWRITEBYTECODE"] = "1"
    env.pop("AMPFORM_VERIF", None)
    return env


def run(cmd, cwd=None, timeout=600, env=None, stdin=None):
    t0 = time.time()
    try:
        p = subprocess.run(
            cmd, cwd=cwd, env=env, input=stdin, capture_output=True, text=True, timeout=timeout
        )
        out = p.stdout + p.stderr
        rc = p.returncode
    except subprocess.TimeoutExpired as e:
        out = (e.stdout or "") + (e.stderr or "") if isinstance(e.stdout, str) else "TIMEOUT"
        out += f"\nTIMEOUT after {timeout}s"
        rc = 124
    return rc, out, time.time() - t0


def clean(out: str) -> str:
    return "\n".join(l for l in out.splitlines() if not l.startswith("WARNING"))


def ensure_theories() -> tuple[bool, str]:
    """Compile coq/theories (no-op when setup_cmd already did)."""
    os.makedirs(BUILD, exist_ok=True)
    lock = open(os.path.join(BUILD, ".theories.lock"), "w")
    fcntl.flock(lock, fcntl.LOCK_EX)
    try:
        rc, out, _ = run(["make", "-s", "-C", os.path.join(VERIF, "coq"), "theories"], timeout=3000)
        return rc == 0, out
    finally:
        fcntl.flock(lock, fcntl.LOCK_UN)
        lock.close()


def repo_state() -> dict:
    rc, head, _ = run(["git", "-C", REPO, "rev-parse", "HEAD"])
    rc2, diff, _ = run(["git", "-C", REPO, "diff", "--stat"])
    h = hashlib.sha256()
    for root, _, files in sorted(os.walk(os.path.join(REPO, "src", "ampform"))):
        for f in sorted(files):
            if f.endswith(".py"):
                with open(os.path.join(root, f), "rb") as fh:
                    h.update(f.encode())
                    h.update(fh.read())
    return {"head": head.strip(), "dirty": bool(diff.strip()), "src_sha256": h.hexdigest()[:16]}


class Check:
    def __init__(self, pid: str, tier: str, seed: int):
        self.pid, self.tier, self.seed = pid, tier, seed
        self.t0 = time.time()
        # one build directory per property; a concurrent run of the same property gets a private one
        os.makedirs(BUILD, exist_ok=True)
        self._lock = open(os.path.join(BUILD, f".{pid}.lock"), "w")
        self._private_build = False
        try:
            fcntl.flock(self._lock, fcntl.LOCK_EX | fcntl.LOCK_NB)
            self.build = os.path.join(BUILD, pid)
        except OSError:
            self.build = os.path.join(BUILD, f"{pid}.{os.getpid()}")
            self._private_build = True
        shutil.rmtree(self.build, ignore_errors=True)
        os.makedirs(self.build)
        os.makedirs(os.path.join(VERIF, "evidence"), exist_ok=True)
        os.makedirs(os.path.join(VERIF, "replay"), exist_ok=True)
        self.obligations: list[str] = []
        self.discharged: list[str] = []
        self.axioms: set[str] = set()
        self.violations: list[dict] = []
        self.known: list[dict] = []
        self.cov: dict = {"evaluations": 0, "distinct_nontrivial": 0, "samples": [], "rule": ""}
        self.assumptions: list[str] = []
        self.checker_cmds: list[str] = []
        self.notes: list[str] = []
        self.level = "proof"
        with open(os.path.join(VERIF, "known_findings.json")) as f:
            self.findings = json.load(f)
        self.broken: list[dict] = []  # proof obligations / correspondences that stopped checking

    # ---------------- regeneration ----------------
    def bridge(self, script: str, args: list[str], timeout=900, seed=0, stdin=None):
        cmd = [PY, os.path.join(VERIF, "bridge", script), *args]
        rc, out, dt = run(cmd, cwd=self.build, timeout=timeout, env=bridge_env(seed), stdin=stdin)
        return rc, clean(out), dt

    def bridge_json(self, script: str, args: list[str], timeout=900, seed=0, payload=None):
        """Run a bridge script whose last stdout line is a JSON document."""
        stdin = json.dumps(payload) if payload is not None else None
        rc, out, dt = self.bridge(script, args, timeout=timeout, seed=seed, stdin=stdin)
        doc = None
        for line in reversed(out.splitlines()):
            line = line.strip()
            if line.startswith("{") or line.startswith("["):
                try:
                    doc = json.loads(line)
                    break
                except json.JSONDecodeError:
                    continue
        return rc, doc, out

    # ---------------- Coq ----------------
    def copy_props(self, names: list[str]):
        for n in names:
            shutil.copy(os.path.join(COQ_PROPS, n), os.path.join(self.build, n))

    def coqc(self, fname: str, timeout=900) -> tuple[bool, str]:
        cmd = ["coqc", *COQFLAGS, fname]
        self.checker_cmds.append("coqc -Q coq/theories AV -Q build/%s AVchk %s" % (self.pid, fname))
        rc, out, dt = run(["timeout", str(timeout), *cmd], cwd=self.build, timeout=timeout + 30)
        return rc == 0, out

    @staticmethod
    def theorem_names(path: str) -> list[str]:
        names = []
        with open(path) as f:
            for line in f:
                m = re.match(r"\s*(Theorem|Example)\s+([A-Za-z0-9_']+)", line)
                if m:
                    names.append(m.group(2))
        return names

    @staticmethod
    def failing_item(path: str, out: str) -> str:
        """Name of the Lemma/Theorem enclosing the first error position reported by coqc."""
        m = re.search(r'File "[^"]*", line (\d+)', out)
        if not m:
            return "?"
        ln = int(m.group(1))
        name = "?"
        with open(path) as f:
            for i, line in enumerate(f, 1):
                mm = re.match(r"\s*(Lemma|Theorem|Example|Definition|Fixpoint|Corollary)\s+([A-Za-z0-9_']+)", line)
                if mm:
                    name = mm.group(2)
                if i >= ln:
                    break
        return name

    def parse_assumptions(self, out: str):
        for ax in re.findall(r"^([A-Z][A-Za-z0-9_.]*\.[A-Za-z0-9_.']+)\s*$", out, re.M):
            self.axioms.add(ax)
        for ax in re.findall(r"^([A-Z][A-Za-z0-9_.]*\.[A-Za-z0-9_']+) :", out, re.M):
            self.axioms.add(ax)

    def compile_chain(self, gen_files: list[str], lemma_files: list[str], prop_file: str,
                      timeout=900, stages=None) -> bool:
        """Compile generated files, lemma files and the property file; record obligations.
        Returns True iff everything checked.  On failure records self.broken."""
        self.copy_props([*lemma_files, prop_file])
        thms = self.theorem_names(os.path.join(self.build, prop_file))
        self.obligations.extend(thms)
        if stages is not None:  # files of one stage only depend on earlier stages: compiled concurrently
            from concurrent.futures import ThreadPoolExecutor
            for stage in stages:
                with ThreadPoolExecutor(max_workers=len(stage)) as ex:
                    results = list(ex.map(lambda f: (f, *self.coqc(f, timeout=timeout)), stage))
                for f, ok, out in results:
                    if not ok:
                        item = self.failing_item(os.path.join(self.build, f), out)
                        self.broken.append({"file": f, "item": item, "coqc_output": out[-1500:]})
                if self.broken:
                    return False
        for f in ([prop_file] if stages is not None else [*gen_files, *lemma_files, prop_file]):
            ok, out = self.coqc(f, timeout=timeout)
            if not ok:
                item = self.failing_item(os.path.join(self.build, f), out)
                self.broken.append({"file": f, "item": item, "coqc_output": out[-1500:]})
                return False
            if f == prop_file:
                self.parse_assumptions(out)
                bad = [a for a in self.axioms if a not in STD_AXIOMS]
                if bad:
                    self.broken.append({"file": f, "item": "Print Assumptions",
                                        "coqc_output": "non-standard axioms: %s" % bad})
                    return False
        self.discharged.extend(thms)
        if self.tier == "thorough" and os.environ.get("VERIF_NO_COQCHK") != "1":
            if not self.coqchk(prop_file):
                return False
        return True

    def coqchk(self, prop_file: str, timeout=2400) -> bool:
        """Independent re-check of the compiled property file and everything it depends on (thorough tier)."""
        mod = "AVchk." + prop_file[:-2]
        cmd = ["coqchk", "-o", "-silent", "-Q", COQ_THEORIES, "AV", "-Q", ".", "AVchk", mod]
        self.checker_cmds.append("coqchk -o -silent -Q coq/theories AV -Q build/%s AVchk %s" % (self.pid, mod))
        rc, out, dt = run(["timeout", str(timeout), *cmd], cwd=self.build, timeout=timeout + 30)
        axioms = re.findall(r"^\s{4}(Coq\.[A-Za-z0-9_.']+|[A-Za-z][A-Za-z0-9_.']+)\s*$", out, re.M)
        clean = all(f"{k}: <none>" in out for k in ("relying on type-in-type", "relying on unsafe (co)fixpoints",
                                                     "whose positivity is assumed"))
        self.cov["coqchk"] = {"module": mod, "seconds": round(dt, 1), "axioms": axioms, "no_unsafe_flags": clean,
                              "exit": rc}
        allowed = {"Coq." + a.replace("ClassicalDedekindReals", "Reals.ClassicalDedekindReals")
                   .replace("FunctionalExtensionality", "Logic.FunctionalExtensionality")
                   .replace("Classical_Prop", "Logic.Classical_Prop") for a in STD_AXIOMS}
        foreign = [a for a in axioms if not a.startswith("Coq.")]
        if rc != 0 or not clean or foreign:
            self.broken.append({"file": prop_file, "item": "coqchk",
                                "coqc_output": ("foreign axioms: %s\n" % foreign if foreign else "") + out[-1200:]})
            return False
        return True

    # ---------------- violations ----------------
    def violation(self, signature: str, what: str, replay: dict, found_input: bool):
        """Record a violation (or a known finding when the signature is listed)."""
        for f in self.findings:
            if f.get("property") == self.pid and f.get("kind") == "finding" \
                    and f.get("signature") == signature:
                if not any(k["signature"] == signature for k in self.known):
                    self.known.append({"signature": signature, "what": f.get("what", what)})
                return
        if any(v["signature"] == signature for v in self.violations):
            return
        h = hashlib.sha256((self.pid + signature).encode()).hexdigest()[:12]
        path = os.path.join(VERIF, "replay", f"{self.pid}_{h}.json")
        doc = {"property": self.pid, "signature": signature, "what": what,
               "found_failing_input": found_input, "replay": replay,
               "how_to_rerun": f"./check {self.pid} --replay {path}"}
        with open(path, "w") as fh:
            json.dump(doc, fh, indent=1, default=str)
        self.violations.append({"signature": signature, "what": what, "path": path,
                                "found": found_input})

    def add_cases(self, n_eval: int, n_distinct: int, samples: list, rule: str = ""):
        self.cov["evaluations"] += int(n_eval)
        self.cov["distinct_nontrivial"] += int(n_distinct)
        for s in samples:
            if len(self.cov["samples"]) < 12:
                self.cov["samples"].append(s)
        if rule:
            self.cov["rule"] = (self.cov["rule"] + " | " + rule).strip(" |")

    # ---------------- finish ----------------
    def finish(self, trusted_extra: list[str] | None = None) -> int:
        for k in self.known:
            print(f"KNOWN-FINDING: property={self.pid} {k['what']}")
        for v in self.violations:
            tail = "" if v["found"] else " no-failing-input-found"
            print(f"VIOLATION property={self.pid} replay={v['path']}{tail}")
        wall = time.time() - self.t0
        trusted = [
            "Coq 8.16.1 kernel (coqc); vm_compute used only where stated; native_compute not used",
            "axioms reported by Print Assumptions in this run: "
            + (", ".join(sorted(self.axioms)) if self.axioms else "none (closed under the global context)"),
            "bridge/ser.py (SymPy tree -> Gallina expr) and the per-property symgen/harness scripts",
            "semantics given to SymPy/NumPy primitives in coq/theories/DenR.v, DenC.v (exact reals/complex, no floating point)",
        ] + (trusted_extra or [])
        cov = dict(self.cov)
        if not cov["samples"]:
            cov["samples"] = [{"obligation": o} for o in self.obligations[:5]] or [{"note": "no cases"}]
        if self.discharged:
            cov.update({"obligations": len(self.obligations), "discharged": len(self.discharged)})
        else:  # nothing discharged: the proof-level keys would not validate; say so plainly
            cov.update({"obligations_total": len(self.obligations), "discharged_count": 0})
        cov.update({
            "checker_cmd": "; ".join(dict.fromkeys(self.checker_cmds)) or "n/a",
            "trusted_base": trusted,
            "obligation_names": self.obligations,
            "broken": [{"file": b["file"], "item": b["item"]} for b in self.broken],
            "known_findings_reported": [k["signature"] for k in self.known],
            "repo_state": repo_state(),
            "notes": self.notes,
        })
        ev = {
            "property_id": self.pid, "tier": self.tier, "seed": self.seed, "level": self.level,
            "coverage": cov, "assumptions": self.assumptions, "wall_s": round(wall, 2),
            "violations": len(self.violations),
        }
        evp = os.path.join(VERIF, "evidence", f"{self.pid}.json")
        if os.path.realpath(REPO) != "/repo":  # a scratch tree (seeded change under test): keep /verif/evidence about /repo
            evp = os.path.join(self.build, "evidence_scratch_tree.json")
        with open(evp, "w") as fh:
            json.dump(ev, fh, indent=1, default=str)
        try:
            import jsonschema

            with open("/root/.vp/EVIDENCE.schema.json") as fh:
                schema = json.load(fh)
            try:
                jsonschema.validate(ev, schema)
            except jsonschema.ValidationError as exc:
                if not self.violations:
                    raise
                # a tree on which the check already reports a violation and on which neither a proof nor a single
                # harness case completed: the evidence file says so; the VIOLATION lines above stand
                print(f"note: evidence of this failing run does not validate ({exc.message})", file=sys.stderr)
        except ImportError:
            pass
        except FileNotFoundError:
            pass
        if self._private_build:
            shutil.rmtree(self.build, ignore_errors=True)
        print(f"{self.pid}: obligations={len(self.obligations)} discharged={len(self.discharged)} "
              f"cases={cov['evaluations']} violations={len(self.violations)} "
              f"known={len(self.known)} wall={wall:.1f}s")
        return 1 if self.violations else 0
