"""C04 differential harness on the IMPLEMENTATION: the unpolarised intensity of a formulated
HelicityModel, evaluated through lambdified `kinematic_variables` and `expression.doit()`,
before and after a proper rotation of all final-state momenta (initial state at rest).

The oracle is written from the property text only: intensity(R . event) == intensity(event).

Families
  single        one topology of a corpus reaction, initial projection set complete  -> all rotations
  single_zonly  one topology, initial projection set incomplete (J/psi with +-1)    -> rotations about z
  multi_unaligned_spinless  >=2 topologies, NoAlignment, all final-state spins 0    -> all rotations
  multi_aligned_<axisangle|dpd>  >=2 topologies with an alignment                   -> all rotations
                                 (z only when the initial projection set is incomplete)
  wignerD       the named hypotheses of coq/theories/Rot.v checked EXACTLY against
                sympy Rotation.D(j, m, mp, a, b, c).doit() for j in {1/2, 1, 3/2, 2}

usage: search_C04.py <seed> <n_events> [quick|thorough]   -> last stdout line JSON
       search_C04.py --replay <json-file>                 -> JSON {still_fails: bool}
"""
from __future__ import annotations

import hashlib
import json
import multiprocessing as mp
import os
import sys
import time

import common  # noqa: F401
import numpy as np
import sympy as sp

common.assert_repo_import()
import reactions  # noqa: E402

TOL = 1e-9        # relative tolerance on the intensity, see conditioning() below
SIN_MIN = 1e-4    # an event (or its rotated image) with a polar angle this close to 0/pi is skipped
GRID = 2.0 ** -24  # momenta components are multiples of GRID: json round trip is bit exact

# ----------------------------------------------------------------------------- events


def two_body_p(M, m1, m2):
    return np.sqrt(max((M * M - (m1 + m2) ** 2) * (M * M - (m1 - m2) ** 2), 0.0)) / (2 * M)


def boost(p, beta_vec):
    b2 = float(beta_vec @ beta_vec)
    if b2 == 0.0:
        return p.copy()
    g = 1.0 / np.sqrt(1.0 - b2)
    bp = float(beta_vec @ p[1:])
    out = np.empty(4)
    out[0] = g * (p[0] + bp)
    out[1:] = p[1:] + ((g - 1.0) * bp / b2 + g * p[0]) * beta_vec
    return out


def random_direction(rng):
    c = rng.uniform(-1, 1)
    ph = rng.uniform(-np.pi, np.pi)
    s = np.sqrt(1 - c * c)
    return np.array([s * np.cos(ph), s * np.sin(ph), c])


def generate_event(rng, M, masses):
    """Sequential two-body decays built bottom-up: sub_k -> sub_{k-1} + particle k, k = 2..n, with
    random subsystem masses and directions (own generator; not flat, irrelevant here).  Rest frame
    of M; components on a dyadic grid, last momentum = -(sum of the others) exactly."""
    n = len(masses)
    order = sorted(range(n), key=lambda i: (masses[i] == 0.0, i))  # a massive particle first
    ms = [masses[i] for i in order]
    sub = [0.0] * (n + 1)
    sub[n] = M
    for k in range(n - 1, 1, -1):
        lo = sum(ms[:k])
        hi = sub[k + 1] - ms[k]
        sub[k] = lo + (hi - lo) * rng.uniform(0.05, 0.95)
    sub[1] = ms[0]
    moms = [np.array([ms[0], 0.0, 0.0, 0.0])]
    for k in range(2, n + 1):
        q = two_body_p(sub[k], sub[k - 1], ms[k - 1])
        d = random_direction(rng)
        beta = -q * d / np.sqrt(sub[k - 1] ** 2 + q * q)
        moms = [boost(p, beta) for p in moms]
        moms.append(np.array([np.sqrt(ms[k - 1] ** 2 + q * q), *(q * d)]))
    P = np.empty((n, 4))
    for slot, i in enumerate(order):
        P[i] = moms[slot]
    P[:, 1:] = np.round(P[:, 1:] / GRID) * GRID
    P[n - 1, 1:] = -P[: n - 1, 1:].sum(axis=0)  # exact on the grid: initial state at rest
    P[:, 0] = np.sqrt(np.array(masses) ** 2 + (P[:, 1:] ** 2).sum(axis=1))
    return P


def rotation_matrix(axis, angle):
    a = np.asarray(axis, dtype=float)
    a = a / np.sqrt(a @ a)
    K = np.array([[0, -a[2], a[1]], [a[2], 0, -a[0]], [-a[1], a[0], 0]])
    return np.eye(3) + np.sin(angle) * K + (1 - np.cos(angle)) * (K @ K)


def rotations(rng, zonly):
    """(label, axis, angle); angles are dyadic rationals (exact in json)."""
    q = lambda: rng.integers(-200, 201) / 64.0  # noqa: E731
    if zonly:
        return [("z", [0, 0, 1], 0.5), ("z", [0, 0, 1], float(q())), ("z", [0, 0, 1], -2.75)]
    out = [("x", [1, 0, 0], 0.75), ("y", [0, 1, 0], 1.25), ("z", [0, 0, 1], -2.0),
           ("x", [1, 0, 0], float(q())), ("y", [0, 1, 0], float(q()))]
    for _ in range(2):
        ax = [float(rng.integers(-64, 65)) / 64.0 for _ in range(3)]
        if not any(ax):
            ax = [1.0, 1.0, 0.0]
        out.append(("random", ax, float(q())))
    return out


def rotate_event(P, R):
    Q = P.copy()
    Q[:, 1:] = P[:, 1:] @ R.T
    return Q

# ----------------------------------------------------------------------------- models


def split_topologies(reaction):
    groups = {}
    for t in reaction.transitions:
        groups.setdefault(t.topology, []).append(t)
    return list(groups.values())


def reaction_info(transitions, formalism):
    from qrules.transition import ReactionInfo

    return ReactionInfo(transitions, formalism)


def initial_complete(reaction):
    t0 = reaction.transitions[0]
    (iid,) = list(t0.initial_states)
    j = float(t0.initial_states[iid].particle.spin)
    have = {float(t.initial_states[iid].spin_projection) for t in reaction.transitions}
    want = {-j + k for k in range(int(round(2 * j)) + 1)}
    return have == want


def final_spins(reaction):
    t0 = reaction.transitions[0]
    return [float(s.particle.spin) for _, s in sorted(t0.final_states.items())]


# ---- "opposite helicity" classification, written from the documentation of
# ampform.helicity.decay.is_opposite_helicity_state and from nothing else: of the two children of a node,
# the OPPOSITE-helicity state is the one whose sorted tuple of attached final-state ids is
# lexicographically larger; the other one is the helicity state (so the child that contains the lowest
# final-state id, in particular state 0, is never the opposite one).  Uses only the qrules Topology.


def own_attached_final_state(topology, edge_id):
    edge = topology.edges[edge_id]
    if edge.ending_node_id is None:
        return (edge_id,)
    out = []
    for child in topology.get_edge_ids_outgoing_from_node(edge.ending_node_id):
        out.extend(own_attached_final_state(topology, child))
    return tuple(sorted(out))


def own_sibling(topology, edge_id):
    node = topology.edges[edge_id].originating_node_id
    others = [e for e in topology.get_edge_ids_outgoing_from_node(node) if e != edge_id]
    assert len(others) == 1, (edge_id, others)
    return others[0]


def own_is_opposite(topology, edge_id):
    mine = own_attached_final_state(topology, edge_id)
    other = own_attached_final_state(topology, own_sibling(topology, edge_id))
    return mine > other


def own_opposite_isobar(topology):
    """Does some DECAYING child of some node of this topology count as the opposite-helicity state?"""
    inner = [e for e, edge in topology.edges.items()
             if edge.ending_node_id is not None and edge.originating_node_id is not None]
    return any(own_is_opposite(topology, e) for e in inner)


def helicity_only_subset(name):
    """Indices of the topologies of a corpus reaction all of whose isobars are helicity states (own rule)."""
    groups = split_topologies(reactions.load(name))
    return [i for i, g in enumerate(groups) if not own_opposite_isobar(g[0].topology)], len(groups)


class Model:
    """A formulated model with its two lambdified functions (cached per process)."""

    def __init__(self, name, topo, align):
        import ampform
        from ampform.helicity.align.axisangle import AxisAngleAlignment
        from ampform.helicity.align.dpd import DalitzPlotDecomposition, relabel_edge_ids

        full = reactions.load(name)
        self.n_topologies_full = len(split_topologies(full))
        reaction = full
        if topo is not None:
            groups = split_topologies(full)
            picks = [int(t) for t in str(topo).split("+")]  # "1+2": a subset of the topologies
            reaction = reaction_info([t for i in picks for t in groups[i]], full.formalism)
        if align.startswith("dpd"):
            reaction = relabel_edge_ids(reaction)
        self.reaction = reaction
        self.n_topologies = len(split_topologies(reaction))
        self.complete = initial_complete(reaction)
        self.fspins = final_spins(reaction)
        t0 = reaction.transitions[0]
        self.final_ids = sorted(t0.final_states)
        self.masses = [float(t0.final_states[i].particle.mass) for i in self.final_ids]
        (iid,) = list(t0.initial_states)
        self.M = float(t0.initial_states[iid].particle.mass)
        builder = ampform.get_builder(reaction)
        if align == "axisangle":
            builder.config.spin_alignment = AxisAngleAlignment()
        elif align.startswith("dpd"):
            builder.config.spin_alignment = DalitzPlotDecomposition(reference_subsystem=int(align[3:] or 1))
        model = builder.formulate()
        self.kin_symbols = list(model.kinematic_variables)
        kin_exprs = [model.kinematic_variables[s].doit() for s in self.kin_symbols]
        psyms = sorted({s for e in kin_exprs for s in e.free_symbols}, key=str)
        want = [f"p{i}" for i in self.final_ids]
        assert [str(s) for s in psyms] == want, (psyms, want)
        self.kin_fn = sp.lambdify(psyms, kin_exprs, modules="numpy", cse=True)
        expr = model.expression.doit()
        self.n_ops = int(sp.count_ops(expr))
        free = sorted(expr.free_symbols, key=str)
        kin_set = set(self.kin_symbols)
        self.par_symbols = [s for s in free if s not in kin_set]
        unknown = [s for s in self.par_symbols if s not in model.parameter_defaults]
        assert not unknown, f"free symbols that are neither kinematic variables nor parameters: {unknown}"
        self.defaults = [model.parameter_defaults[s] for s in self.par_symbols]
        self.used_kin = [s for s in self.kin_symbols if s in expr.free_symbols]
        self.int_fn = sp.lambdify([*self.used_kin, *self.par_symbols], expr, modules="numpy", cse=True)
        self.theta_idx = [i for i, s in enumerate(self.kin_symbols) if str(s).startswith("theta")]
        # per topology: is some decaying child the "opposite helicity" state?  Decided by the harness' OWN
        # rule (never by /repo's function: a change of that function must not re-classify the cases)
        self.opposite_isobar = [own_opposite_isobar(g[0].topology) for g in split_topologies(reaction)]
        self.J = float(t0.initial_states[iid].particle.spin)
        # which topology (chain) owns which coupling: needed to recognise the known axis-angle finding
        # "relative sign of two chains flips" exactly (see classify()).  Read off unaligned one-topology models.
        self.chain_owner = None
        half_integer = any(abs(2 * x - round(2 * x)) < 1e-9 and int(round(2 * x)) % 2 == 1 for x in self.fspins)
        if align == "axisangle" and self.n_topologies >= 2 and half_integer:
            owners = []
            per_topology = []
            for g in split_topologies(reaction):
                sub = ampform.get_builder(reaction_info(g, reaction.formalism)).formulate()
                per_topology.append({str(k) for k in sub.parameter_defaults})
            for sym in self.par_symbols:
                own = [i for i, names in enumerate(per_topology) if str(sym) in names]
                owners.append(own[0] if len(own) == 1 else None)
            if all(o is not None for o in owners):
                self.chain_owner = owners

    def kinematics(self, P):
        """P: (N, n, 4) -> list of arrays (one per kinematic variable)."""
        N = P.shape[0]
        vals = self.kin_fn(*[P[:, k, :] for k in range(P.shape[1])])
        return [np.broadcast_to(np.asarray(v), (N,)) if np.ndim(v) == 0 else np.asarray(v) for v in vals]

    def intensity(self, kin, pars):
        byname = dict(zip(self.kin_symbols, kin))
        out = self.int_fn(*[byname[s] for s in self.used_kin], *pars)
        out = np.real(np.asarray(out, dtype=complex))
        return np.broadcast_to(out, (len(kin[0]),)).copy() if out.ndim == 0 else out

    def sign_flipped_parameter_sets(self, pars):
        """All ways of flipping the sign of every coupling of a proper, non-empty subset of the chains
        (up to an overall sign): [(subset, parameters)]."""
        import itertools

        if self.chain_owner is None:
            return []
        out = []
        for r in range(1, self.n_topologies):
            for sub in itertools.combinations(range(1, self.n_topologies), r):
                out.append((sub, [(-v if self.chain_owner[j] in sub else v) for j, v in enumerate(pars)]))
        return out

    def draw_parameters(self, rng):
        pars = []
        for d in self.defaults:
            if isinstance(d, complex) or (hasattr(d, "is_real") and d.is_real is False) or True:
                # couplings: exactly representable complex numbers of modulus O(1)
                pars.append(complex(rng.integers(-96, 97) / 64.0, rng.integers(-96, 97) / 64.0))
        return pars


def family_of(model, topo, align):
    if model.n_topologies == 1:
        return "single" if model.complete else "single_zonly"
    if align == "none":
        if all(s == 0 for s in model.fspins):
            return "multi_unaligned_spinless" if model.complete else "multi_unaligned_spinless_zonly"
        return "multi_unaligned_spinful_informative"
    return f"multi_aligned_{'dpd' if align.startswith('dpd') else align}" + ("" if model.complete else "_zonly")


SINGLE_SIGNATURE = {
    "single": "single_topology_not_invariant",
    "single_zonly": "single_topology_not_invariant_about_z",
}


def classify(model, fam, align, about_z, explained_by_chain_sign):
    """Signature of ONE failing comparison.  A finding is identified by its discriminating feature, so that a
    different violation in the same model is still reported:
      F  multi_topology_opposite_helicity_isobar_<a>_not_invariant_off_z   some decaying child is the opposite-
         helicity state (harness' own rule) and the rotation is not about z (known, DESIGN 7 #10 root cause)
      F  multi_topology_axisangle_chain_relative_sign_flip   the rotated intensity EQUALS the unrotated one with
         the sign of all couplings of a subset of the chains flipped (half-integer final-state spin: the Euler
         angles of the Wigner rotation come from atan2 and lose the SU(2) sign)
      F  multi_topology_dpd_spinful_initial_state_not_invariant   DPD, several topologies, initial spin > 0
    everything else is a must-hold obligation:
      V  multi_topology_helicity_isobars_only_<a>_not_invariant          (all isobars are helicity states)
      V  multi_topology_opposite_helicity_isobar_<a>_not_invariant_about_z
      V  multi_topology_dpd_spin0_initial_state_not_invariant
    <a> = unaligned_spinless | axisangle."""
    if fam in SINGLE_SIGNATURE:
        if align != "none":  # one topology with an alignment selected: must hold as well
            kind = "dpd" if align.startswith("dpd") else align
            return SINGLE_SIGNATURE[fam].replace("single_topology_", f"single_topology_{kind}_aligned_")
        return SINGLE_SIGNATURE[fam]
    if not fam.startswith("multi_") or fam.startswith("multi_unaligned_spinful"):
        return None
    if align.startswith("dpd"):
        return ("multi_topology_dpd_spinful_initial_state_not_invariant" if model.J > 0
                else "multi_topology_dpd_spin0_initial_state_not_invariant")
    a = "axisangle" if align == "axisangle" else "unaligned_spinless"
    if explained_by_chain_sign:
        return "multi_topology_axisangle_chain_relative_sign_flip"
    if any(model.opposite_isobar):
        return (f"multi_topology_opposite_helicity_isobar_{a}_not_invariant_about_z" if about_z
                else f"multi_topology_opposite_helicity_isobar_{a}_not_invariant_off_z")
    return f"multi_topology_helicity_isobars_only_{a}_not_invariant"


# ----------------------------------------------------------------------------- one model case


def case_rng(seed, key):
    h = hashlib.sha256(f"{seed}|{key}".encode()).digest()
    return np.random.default_rng(int.from_bytes(h[:8], "little"))


def conditioning(model, kin):
    """min over polar angles of sin(theta): acos amplifies a relative rounding error eps of its
    argument to eps/sin(theta); with sin(theta) > 1e-4 every angle is good to ~1e-11 and the
    intensity (a polynomial of O(100) terms in cos/sin of half angles and O(1) couplings) to
    ~1e-10 of its scale; genuine convention errors change it by 1e-2..1 of its scale."""
    if not model.theta_idx:
        return np.ones_like(np.asarray(kin[0], dtype=float))
    return np.min([np.abs(np.sin(kin[i].real.astype(float))) for i in model.theta_idx], axis=0)


def run_model_case(args):
    seed, name, topo, align, n_events = args
    key = f"{name}|{topo}|{align}"
    t0 = time.time()
    res = {"key": key, "evaluations": 0, "distinct": 0, "skipped_illconditioned": 0, "failures": [],
           "family": None, "max_rel": 0.0, "samples": []}
    try:
        model = Model(name, topo, align)
    except Exception as exc:  # noqa: BLE001
        res["family"] = "build_error"
        res["failures"].append({"signature": f"exception_{type(exc).__name__}",
                                "what": f"formulating/lambdifying {key} raised {type(exc).__name__}: {str(exc)[:200]}",
                                "case": {"reaction": name, "topology": topo, "alignment": align, "build_only": True}})
        return res
    fam = family_of(model, topo, align)
    res["family"] = fam
    res["n_ops"] = model.n_ops
    rng = case_rng(seed, key)
    zonly = fam.endswith("zonly")
    events = np.array([generate_event(rng, model.M, model.masses) for _ in range(n_events)])
    kin0 = model.kinematics(events)
    cond0 = conditioning(model, kin0)
    par_sets = [model.draw_parameters(rng) for _ in range(2)]
    I0 = [model.intensity(kin0, pars) for pars in par_sets]
    scale = [float(np.mean(np.abs(i))) for i in I0]
    res["distinct"] = int(len({float(v) for v in np.round(I0[0] / max(scale[0], 1e-300), 9)}))
    rots = rotations(rng, zonly)
    flipped0 = [[(sub, model.intensity(kin0, fp)) for sub, fp in model.sign_flipped_parameter_sets(pars)]
                for pars in par_sets]
    worst = {}  # signature -> (rel, k, ip, label, axis, angle, I0, Ir)
    res["n_fail_by_signature"] = {}
    for label, axis, angle in rots:
        R = rotation_matrix(axis, angle)
        about_z = label == "z"
        ev_r = np.array([rotate_event(P, R) for P in events])
        kin_r = model.kinematics(ev_r)
        ok = (cond0 > SIN_MIN) & (conditioning(model, kin_r) > SIN_MIN)
        res["skipped_illconditioned"] += int((~ok).sum()) * len(par_sets)
        for ip, pars in enumerate(par_sets):
            Ir = model.intensity(kin_r, pars)
            den = np.maximum(np.maximum(np.abs(I0[ip]), np.abs(Ir)), 1e-3 * scale[ip])
            rel = np.abs(Ir - I0[ip]) / den
            bad_nan = ~np.isfinite(Ir) | ~np.isfinite(I0[ip])
            rel = np.where(bad_nan, np.inf, rel)
            rel = np.where(ok, rel, 0.0)
            explained = np.zeros(len(rel), dtype=bool)
            for _sub, If in flipped0[ip]:
                explained |= np.abs(Ir - If) <= TOL * np.maximum(np.maximum(np.abs(If), np.abs(Ir)), 1e-3 * scale[ip])
            res["evaluations"] += int(ok.sum())
            res["n_fail"] = res.get("n_fail", 0) + int((rel > TOL).sum())
            kmax = int(np.argmax(rel))
            res["max_rel"] = max(res["max_rel"], float(rel[kmax]) if np.isfinite(rel[kmax]) else 1e300)
            for flag in (False, True):
                sel = (rel > TOL) & (explained == flag)
                if not sel.any():
                    continue
                sig = classify(model, fam, align, about_z, flag)
                key_sig = sig or "informative"
                res["n_fail_by_signature"][key_sig] = res["n_fail_by_signature"].get(key_sig, 0) + int(sel.sum())
                k = int(np.argmax(np.where(sel, rel, -1.0)))
                r_k = float(rel[k]) if np.isfinite(rel[k]) else 1e300
                if key_sig not in worst or r_k > worst[key_sig][0]:
                    worst[key_sig] = (r_k, k, ip, label, axis, angle, float(I0[ip][k]), float(Ir[k]))
    if len(res["samples"]) < 1:
        res["samples"].append({"reaction": name, "topology": topo, "alignment": align, "family": fam,
                               "event": events[0].tolist(), "rotation": {"axis": rots[-1][1], "angle": rots[-1][2]},
                               "intensity": float(I0[0][0])})
    for sig, (rel, k, ip, label, axis, angle, i0, ir) in worst.items():
        if sig == "informative":
            res["informative_not_invariant"] = {"rel": rel, "rotation": label}
            continue
        case = make_case(name, topo, align, events[k], axis, angle, model, par_sets[ip])
        case["signature"] = sig
        res["failures"].append({
            "signature": sig,
            "what": (f"{name} topology={topo} alignment={align} ({fam}; {model.n_topologies} topologies, initial spin "
                     f"{model.J}, final spins {model.fspins}; topologies with an opposite-helicity isobar (harness' "
                     f"rule): {model.opposite_isobar}): intensity {i0:.12g} -> {ir:.12g} (rel. change {rel:.3g}) "
                     f"under a rotation about {label} axis {axis} by {angle} rad; "
                     f"{res['n_fail_by_signature'][sig]} of {res['evaluations']} comparisons of this model fall "
                     f"under this signature"),
            "case": case})
    res["wall"] = round(time.time() - t0, 1)
    return res


def make_case(name, topo, align, P, axis, angle, model, pars):
    return {"kind": "event", "reaction": name, "topology": topo, "alignment": align,
            "momenta": P.tolist(), "rotation": {"axis": list(map(float, axis)), "angle": float(angle)},
            "parameters": {str(s): [p.real, p.imag] for s, p in zip(model.par_symbols, pars)}}


def replay_event(case):
    if case.get("build_only"):
        try:
            Model(case["reaction"], case["topology"], case["alignment"])
        except Exception as exc:  # noqa: BLE001
            return True, f"{type(exc).__name__}: {exc}"
        return False, "builds"
    model = Model(case["reaction"], case["topology"], case["alignment"])
    P = np.array(case["momenta"], dtype=float)[None, :, :]
    names = [str(s) for s in model.par_symbols]
    given = case["parameters"]
    if set(names) != set(given):
        # the parameter set of the model changed; fall back to values by position
        vals = list(given.values())
        pars = [complex(*vals[i % len(vals)]) for i in range(len(names))]
    else:
        pars = [complex(*given[n]) for n in names]
    R = rotation_matrix(case["rotation"]["axis"], case["rotation"]["angle"])
    Pr = np.array([rotate_event(P[0], R)])
    i0 = model.intensity(model.kinematics(P), pars)[0]
    ir = model.intensity(model.kinematics(Pr), pars)[0]
    rel = abs(ir - i0) / max(abs(i0), abs(ir), 1e-300)
    bad = (not np.isfinite(rel)) or rel > TOL
    explained = False
    for _sub, fp in model.sign_flipped_parameter_sets(pars):
        i_f = model.intensity(model.kinematics(P), fp)[0]
        explained |= abs(ir - i_f) <= TOL * max(abs(i_f), abs(ir), 1e-300)
    want_flip = case.get("signature") == "multi_topology_axisangle_chain_relative_sign_flip"
    still = bool(bad) and (bool(explained) == want_flip)
    return still, f"I={i0!r} I_rot={ir!r} rel={rel:.3g} explained_by_chain_sign_flip={bool(explained)}"

# ----------------------------------------------------------------------------- Wigner-D hypotheses


def wigner_checks():
    """EXACT validation of the Section hypotheses of Rot.v against sympy's Rotation.D(...).doit()."""
    from sympy.physics.quantum.spin import Rotation

    a, b, c, a2 = sp.symbols("alpha beta gamma alpha2", real=True)
    fails, n = [], 0

    def Dm(j, *ang):
        ms = [j - k for k in range(int(2 * j) + 1)]
        return sp.Matrix([[Rotation.D(j, m, mp, *ang).doit() for mp in ms] for m in ms]), ms

    def is_zero(M):
        return all(sp.simplify(sp.expand(sp.expand_trig(sp.expand(x, complex=False)).rewrite(sp.exp))) == 0 for x in M)

    for j in [sp.Rational(1, 2), sp.Integer(1), sp.Rational(3, 2), sp.Integer(2)]:
        D, ms = Dm(j, a, b, c)
        dim = len(ms)
        # D_unit over the COMPLETE range (both sums)
        n += 1
        if not is_zero(D * D.H - sp.eye(dim)) or not is_zero(D.H * D - sp.eye(dim)):
            fails.append(("wignerD_not_unitary", f"j={j}"))
        # D_euler: D(a,b,c)_{m mp} = exp(-i m a) d(b)_{m mp} exp(-i mp c)
        n += 1
        for i, m in enumerate(ms):
            for k, mp_ in enumerate(ms):
                small = Rotation.d(j, m, mp_, b).doit()
                if sp.simplify(D[i, k] - sp.exp(-sp.I * m * a) * small * sp.exp(-sp.I * mp_ * c)) != 0:
                    fails.append(("wignerD_euler_factorisation", f"j={j} m={m} mp={mp_}"))
        # small d real and orthogonal
        d, _ = Dm(j, 0, b, 0)
        n += 1
        if not is_zero(d * d.T - sp.eye(dim)) or any(sp.im(sp.expand(x, complex=True)) != 0 for x in d):
            fails.append(("wignerd_not_orthogonal", f"j={j}"))
        # D_mul for z rotations: D(a,b,c) D(a2,0,0) = D(a,b,c+a2), D(a2,0,0) D(a,b,c) = D(a+a2,b,c)
        n += 1
        Z, _ = Dm(j, a2, 0, 0)
        if not is_zero(D * Z - Dm(j, a, b, c + a2)[0]) or not is_zero(Z * D - Dm(j, a + a2, b, c)[0]):
            fails.append(("wignerD_z_composition", f"j={j}"))
        # r_diag / r_char: D of a z rotation is diagonal with the spin-independent character exp(-i m a)
        n += 1
        if not is_zero(Z - sp.diag(*[sp.exp(-sp.I * m * a2) for m in ms])):
            fails.append(("wignerD_z_rotation_not_diagonal_character", f"j={j}"))
        # D(0,0,0) = 1
        n += 1
        if Dm(j, 0, 0, 0)[0] != sp.eye(dim):
            fails.append(("wignerD_identity", f"j={j}"))
    return n, fails

# ----------------------------------------------------------------------------- opposite-helicity rule tie


def _rule_topologies():
    """All isobar topologies with 2..5 leaves x all relabellings of the final-state ids."""
    import itertools

    from qrules.topology import create_isobar_topologies

    for n in range(2, 6):
        for it, topo in enumerate(create_isobar_topologies(n)):
            finals = sorted(topo.outgoing_edge_ids)
            for perm in itertools.permutations(finals):
                yield n, it, list(perm), topo.relabel_edges(dict(zip(finals, perm)))


def _rule_disagreements(topo):
    from ampform.helicity.decay import is_opposite_helicity_state

    out = []
    for e, edge in topo.edges.items():
        if edge.originating_node_id is None:
            continue
        theirs = bool(is_opposite_helicity_state(topo, e))
        mine = own_is_opposite(topo, e)
        sib = own_sibling(topo, e)
        if theirs != mine:
            out.append((e, f"edge {e} (final states {own_attached_final_state(topo, e)}, sibling "
                           f"{own_attached_final_state(topo, sib)}): is_opposite_helicity_state={theirs}, "
                           f"documented rule={mine}"))
    return out


def opposite_rule_checks():
    """ampform's is_opposite_helicity_state against the documented rule, exhaustively for <= 5 leaves."""
    n_checked, fails = 0, []
    for n, it, perm, topo in _rule_topologies():
        n_checked += 1
        bad = _rule_disagreements(topo)
        if bad and not fails:
            fails.append(("opposite_helicity_rule_disagrees",
                          f"{n}-body isobar topology #{it} with final-state ids relabelled to {perm}: {bad[0][1]}",
                          {"kind": "opposite_rule", "n": n, "topology_index": it, "permutation": perm,
                           "edge": bad[0][0]}))
    return n_checked, fails


def replay_opposite_rule(case):
    import itertools  # noqa: F401

    from qrules.topology import create_isobar_topologies

    topo = create_isobar_topologies(case["n"])[case["topology_index"]]
    finals = sorted(topo.outgoing_edge_ids)
    topo = topo.relabel_edges(dict(zip(finals, case["permutation"])))
    bad = _rule_disagreements(topo)
    return bool(bad), (bad[0][1] if bad else "rules agree on this topology")

# ----------------------------------------------------------------------------- plan


def plan(tier):
    hel = [n for n in reactions.names() if n.endswith("_hel")]
    cases = []
    quick_single = {"jpsi_3pi_hel": [0, 1, 2], "lc_pkpi_hel": [0, 1, 2], "jpsi_ppbar_hel": [0],
                    "jpsi_pipi_2body_hel": [0], "etac_ll_hel": [0], "psi2s_jpsipipi_hel": [0],
                    "d0_kkk_hel": [0, 1, 2], "jpsi_gpipi_hel": [0], "jpsi_ksp_hel": [0, 1],
                    "jpsi_gpipi_f2_hel": [0], "jpsi_gkk_hel": [0], "jpsi_ksp1750_hel": [0, 1],
                    # 4-body: a node whose two children both decay, spinful resonances (helicity pairs with
                    # equal l1-l2 interfere: the only single-topology shape sensitive to the relative frame
                    # convention of the two resonances), and the cascades
                    "jpsi_kstkst_hel": [0], "chic0_kstkst_hel": [0], "d0_k3pi_hel": [0, 1, 2]}
    if tier == "thorough":
        for n in reactions.names():
            ntop = len(split_topologies(reactions.load(n)))
            for t in range(ntop):
                cases.append((n, t, "none"))
    else:
        for n, tops in quick_single.items():
            if n in hel:
                cases += [(n, t, "none") for t in tops]
    # pairs of topologies in which every isobar is the "helicity state" (not the opposite-helicity one):
    # sensitive to the top-level conventions AND invariant on the current tree
    # The subsets are computed with the harness' own rule; they are must-hold cases with their own signatures
    # (..._helicity_isobars_only_not_invariant), never folded into the known multi-topology finding.
    spinless_multi = ["jpsi_3pi_hel", "d0_k3pi_hel"] + (["jpsi_3pi_can", "d0_kkk_hel", "d0_kkk_can"]
                                                         if tier == "thorough" else [])
    for n in spinless_multi:
        if n in reactions.names():
            idx, ntop = helicity_only_subset(n)
            if len(idx) >= 2:
                cases.append((n, "+".join(map(str, idx)), "none"))
    cases.append(("lc_pkpi_hel", "+".join(map(str, helicity_only_subset("lc_pkpi_hel")[0])), "axisangle"))
    # J/psi -> pi0 p p~ via N(1440)+ and N(1440)~-: both isobars contain state 0 (helicity states), the
    # recoiling p~ / p are the opposite-helicity states of the first node and carry spin 1/2
    if "jpsi_ppbarpi0_hel" in reactions.names():
        cases.append(("jpsi_ppbarpi0_hel", None, "axisangle"))
        cases += [("jpsi_ppbarpi0_hel", 0, "none"), ("jpsi_ppbarpi0_hel", 1, "none")] if tier != "thorough" else []
    # ONE topology with an alignment selected: must be invariant (for DPD in particular when the spectator of
    # the chain is the reference subsystem and carries spin: all three reference subsystems)
    for n, tops in (("lc_pkpi_hel", [0, 1, 2]), ("jpsi_ppbarpi0_hel", [0, 1]), ("jpsi_3pi_hel", [0, 1, 2])):
        if n not in reactions.names():
            continue
        for t in tops:
            aligns = ["dpd1", "dpd2", "dpd3"]
            if n == "jpsi_3pi_hel" and tier != "thorough":
                aligns = ["dpd1"]
            if n == "jpsi_ppbarpi0_hel" and tier != "thorough":
                aligns = ["dpd2", "dpd3"]  # the spectators p / p~ are subsystems 2 and 3 (16 s per model)
            if n != "jpsi_3pi_hel" and (tier == "thorough" or n == "lc_pkpi_hel"):
                aligns.append("axisangle")
            cases += [(n, t, a) for a in aligns]
    # multi-topology, unaligned
    multi = ["jpsi_3pi_hel", "d0_kkk_hel"]
    if tier == "thorough":
        multi += ["d0_k3pi_hel", "jpsi_3pi_can", "d0_kkk_can", "lc_pkpi_hel", "jpsi_ksp_hel"]
    cases += [(n, None, "none") for n in multi if n in reactions.names()]
    # multi-topology, aligned
    cases.append(("jpsi_3pi_hel", "+".join(map(str, helicity_only_subset("jpsi_3pi_hel")[0])), "dpd1"))
    aligned = [("jpsi_3pi_hel", "axisangle"), ("jpsi_3pi_hel", "dpd1"), ("lc_pkpi_hel", "dpd1")]
    if tier == "thorough":
        aligned += [("lc_pkpi_hel", "axisangle"), ("jpsi_ksp_hel", "axisangle"), ("jpsi_ksp_hel", "dpd1"),
                    ("lc_pkpi_hel", "dpd2"), ("lc_pkpi_hel", "dpd3"), ("d0_kkk_hel", "dpd1"),
                    ("d0_kkk_hel", "axisangle"), ("jpsi_ksp1750_hel", "axisangle"), ("jpsi_ksp1750_hel", "dpd1"),
                    ("lc_pkpi_can", "dpd1")]
    cases += [(n, None, a) for n, a in aligned if n in reactions.names()]
    return cases


def main():
    if sys.argv[1] == "--replay":
        doc = json.load(open(sys.argv[2]))
        case = doc["replay"]["case"] if "replay" in doc else doc
        if case.get("kind") == "wignerD":
            n, fails = wigner_checks()
            print(json.dumps({"still_fails": bool(fails), "detail": fails[:5]}))
            return
        if case.get("kind") == "opposite_rule":
            bad, detail = replay_opposite_rule(case)
            print(json.dumps({"still_fails": bad, "detail": detail}))
            return
        bad, detail = replay_event(case)
        print(json.dumps({"still_fails": bad, "detail": detail}))
        return
    seed, n_events = int(sys.argv[1]), int(sys.argv[2])
    tier = sys.argv[3] if len(sys.argv) > 3 else "quick"
    cases = plan(tier)
    jobs = [(seed, n, t, a, n_events) for n, t, a in cases]
    nproc = min(len(jobs), int(os.environ.get("C04_PROCS", "14")))
    with mp.get_context("fork").Pool(nproc) as pool:
        async_w = pool.apply_async(wigner_checks)
        async_r = pool.apply_async(opposite_rule_checks)
        results = pool.map(run_model_case, jobs, chunksize=1)
        n_w, w_fails = async_w.get()
        n_r, r_fails = async_r.get()
    failures, samples, kinds, table = [], [], {}, []
    evals = distinct = skipped = 0
    for r in results:
        evals += r["evaluations"]
        distinct += r["distinct"]
        skipped += r["skipped_illconditioned"]
        kinds[r["family"]] = kinds.get(r["family"], 0) + r["evaluations"]
        table.append({k: r.get(k) for k in ("key", "family", "max_rel", "evaluations", "n_fail", "n_fail_by_signature", "wall", "n_ops",
                                            "informative_not_invariant")})
        failures += r["failures"]
        if r["samples"] and len(samples) < 6 and r["family"] not in [s["family"] for s in samples]:
            samples += r["samples"]
    for sig, what in w_fails:
        failures.append({"signature": sig, "what": f"sympy Rotation.D does not satisfy a hypothesis of Rot.v: {sig} {what}",
                         "case": {"kind": "wignerD", "detail": what}})
    kinds["wignerD_exact_identities"] = n_w
    for sig, what, case in r_fails:
        failures.insert(0, {"signature": sig, "what": "ampform.helicity.decay.is_opposite_helicity_state differs from "
                            "its documented rule (lexicographic order of the sorted attached final-state ids): " + what,
                            "case": case})
    kinds["opposite_rule_topologies_exhaustive_le5"] = n_r
    # one (the first = smallest model) failure per signature
    seen, firsts = set(), []
    for f in failures:
        if f["signature"] not in seen:
            seen.add(f["signature"])
            firsts.append(f)
    print(json.dumps({"evaluations": evals + n_w + n_r, "distinct": distinct, "samples": samples, "kinds": kinds,
                      "skipped_illconditioned": skipped, "table": table, "failures": firsts}))


if __name__ == "__main__":
    main()
