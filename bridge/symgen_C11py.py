"""C11 model regeneration, pure-Python (`math`) backend: the code text that ComplexSqrt._pythoncode
(and the PythonCodePrinter around it) emits for the CURRENT source is parsed back with Python's own
grammar (ast) - so operator precedence is Python's, e.g. `sqrt(-a + b)` is sqrt((-a)+b) - and turned
into a SymPy tree for real float/int arguments:
  `A if C else B` -> Piecewise((A, C), (B, True));  isinstance(_, (float, int)) -> True;
  `and` -> And;  sqrt / math.sqrt / csqrt -> sqrt (principal; math.sqrt's ValueError for negative
  arguments is NOT modelled - the harness runs the real code);  1j -> I;  n -> Integer(n).
"""
import ast
import sys

import common  # noqa: F401
import sympy as sp
from ser import write_gen
from sympy.printing.pycode import pycode

common.assert_repo_import()
from ampform.dynamics.phasespace import PhaseSpaceFactorAbs, PhaseSpaceFactorComplex  # noqa: E402
from ampform.sympy.math import ComplexSqrt  # noqa: E402


class _T(ast.NodeTransformer):
    def visit_IfExp(self, node):
        self.generic_visit(node)
        return ast.Call(ast.Name("__pw", ast.Load()), [node.body, node.test, node.orelse], [])

    def visit_BoolOp(self, node):
        self.generic_visit(node)
        if not isinstance(node.op, ast.And):
            raise SystemExit("unsupported boolean operator in generated code")
        return ast.Call(ast.Name("__and", ast.Load()), node.values, [])

    def visit_Constant(self, node):
        v = node.value
        if isinstance(v, bool) or not isinstance(v, (int, float, complex)):
            raise SystemExit(f"unsupported constant {v!r}")
        if isinstance(v, int):
            return ast.Call(ast.Name("__int", ast.Load()), [ast.Constant(v)], [])
        if isinstance(v, complex) and v.real == 0 and v.imag == int(v.imag):
            return ast.Call(ast.Name("__imag", ast.Load()), [ast.Constant(int(v.imag))], [])
        if isinstance(v, float) and v == int(v):
            return ast.Call(ast.Name("__int", ast.Load()), [ast.Constant(int(v))], [])
        raise SystemExit(f"unsupported constant {v!r}")

    def visit_Tuple(self, node):  # (float, int) inside isinstance
        return ast.Constant(None)


class _Math:
    sqrt = staticmethod(sp.sqrt)
    pi = sp.pi


def code_to_sympy(code: str, symbols):
    tree = _T().visit(ast.parse(code.strip(), mode="eval"))
    ast.fix_missing_locations(tree)
    ns = {str(v): v for v in symbols}
    ns.update({
        "__pw": lambda a, c, b: sp.Piecewise((a, c), (b, True)),
        "__and": lambda *a: sp.And(*a),
        "__int": sp.Integer,
        "__imag": lambda n: sp.Integer(n) * sp.I,
        "isinstance": lambda *_: sp.true,
        "sqrt": sp.sqrt, "csqrt": sp.sqrt, "abs": sp.Abs, "math": _Math, "__builtins__": {},
    })
    return eval(compile(tree, "<pycode>", "eval"), ns)  # noqa: S307 - our own generated code


out = sys.argv[1]
s, m1, m2, m, x, a, b = sp.symbols("s m1 m2 m x a b", real=True)
texts = {
    "gen_py_csqrt_sym": (pycode(ComplexSqrt(x)), [x]),
    "gen_py_csqrt_sum": (pycode(ComplexSqrt(a + b)), [a, b]),
    "gen_py_csqrt_diff": (pycode(ComplexSqrt(a - b)), [a, b]),
    "gen_py_csqrt_prod": (pycode(ComplexSqrt(a * b)), [a, b]),
    "gen_py_cpx_mm": (pycode(PhaseSpaceFactorComplex(s, m, m).doit()), [s, m]),
    "gen_py_abs_mm": (pycode(PhaseSpaceFactorAbs(s, m, m).doit()), [s, m]),
    "gen_py_cpx": (pycode(PhaseSpaceFactorComplex(s, m1, m2).doit()), [s, m1, m2]),
    "gen_py_abs": (pycode(PhaseSpaceFactorAbs(s, m1, m2).doit()), [s, m1, m2]),
}
plain = {str(v): sp.Symbol(str(v)) for v in (s, m1, m2, m, x, a, b)}
defs = {}
for name, (code, syms) in texts.items():
    e = code_to_sympy(code, [plain[str(v)] for v in syms])
    defs[name] = e
write_gen(out, "bridge/symgen_C11py.py", defs)
print("ok", {k: str(v)[:90] for k, v in defs.items()})
