"""C04 model regeneration (T1): the kinematic conventions of the helicity frames, taken from the
CURRENT code by calling it on symbolic momenta.

  phi_expr, theta_expr        per-event meaning of the NumPy code of Phi(p).doit(), Theta(p).doit()
  rotz_explicit, roty_explicit  RotationZMatrix(a).as_explicit(), RotationYMatrix(a).as_explicit()
  boostz_explicit               BoostZMatrix(b).as_explicit()
  frame_rotz_arg, frame_roty_arg   the angle arguments that compute_helicity_angles passes to
                                RotationZMatrix / RotationYMatrix for a decaying subsystem of momentum p
  frame_beta                    the argument it passes to BoostZMatrix
  frame_factor_kinds            class names of the matrix factors, in the code's order of multiplication
  level1_phi, level1_theta      the top-level angles of that topology (Phi/Theta of the subsystem momentum)
  wigner_rows                   for every node of every transition of J/psi -> 3 pi: the arguments of the
                                WignerD returned by formulate_isobar_wigner_d next to (J, M, lambda_hel -
                                lambda_opp) read off the transition: pins D^J_{M, l1-l2}(-phi, theta, 0)
  (asserted here, structurally: the second-level angles are Phi/Theta of ONE ArrayMultiplication node
   BoostZ . RotY . RotZ . p_child)
"""
import sys

import common  # noqa: F401
import numpy as np
import sympy as sp
from ser import ser
from symexec import clean_scalar, four_vector, symexec

common.assert_repo_import()
from ampform.kinematics.angles import Phi, Theta, compute_helicity_angles  # noqa: E402
from ampform.kinematics.lorentz import (  # noqa: E402
    BoostZMatrix,
    FourMomentumSymbol,
    RotationYMatrix,
    RotationZMatrix,
    create_four_momentum_symbols,
)
from ampform.sympy._array_expressions import ArrayMultiplication, ArraySum  # noqa: E402

out = sys.argv[1]
p = FourMomentumSymbol("p", shape=[])
q = FourMomentumSymbol("q", shape=[])
P, (E, x, y, z) = four_vector("")
Q, (Eq, xq, yq, zq) = four_vector("q")
a = sp.Symbol("a", real=True)
nsym = sp.Symbol("n")
A1 = np.array([a], dtype=object)
bsym = sp.Symbol("b", real=True)
B1 = np.array([bsym], dtype=object)


def scalar(expr, args, inputs):
    val, _ = symexec(args, expr.doit(), inputs, cse=False)
    val = np.asarray(val, dtype=object).reshape(-1)
    assert val.shape == (1,), val.shape
    return clean_scalar(val[0])


def vector(expr, args, inputs):
    val, _ = symexec(args, expr.doit(), inputs, cse=True)
    val = np.asarray(val, dtype=object)
    assert val.shape == (1, 4), val.shape
    return [clean_scalar(val[0, i]) for i in range(4)]


def mat_explicit(M, var=None, arr=None):
    var = a if var is None else var
    arr = A1 if arr is None else arr
    ex = M.as_explicit()
    res = []
    for i in range(4):
        row = []
        for j in range(4):
            e = sp.sympify(ex[i, j])
            row.append(e if not e.free_symbols else scalar(e, [var, nsym], [arr, 1]))
        res.append(row)
    return res


def coq_mat(m):
    return "[" + ";\n   ".join("[" + "; ".join(ser(e) for e in row) + "]" for row in m) + "]"


def coq_vec(v):
    return "[" + "; ".join(ser(e) for e in v) + "]"


defs_expr = {
    "phi_expr": scalar(Phi(p), [p], [P]),
    "theta_expr": scalar(Theta(p), [p], [P]),
}
defs_mat = {
    "rotz_explicit": mat_explicit(RotationZMatrix(a, n_events=nsym)),
    "roty_explicit": mat_explicit(RotationYMatrix(a, n_events=nsym)),
    "boostz_explicit": mat_explicit(BoostZMatrix(bsym, n_events=nsym), bsym, B1),
}

# --- the helicity frame of compute_helicity_angles, 3-body topology whose isobar is (1,2) -------
from qrules.topology import create_isobar_topologies  # noqa: E402

topology = next(t for t in create_isobar_topologies(3)
                if sorted(t.get_edge_ids_outgoing_from_node(
                    next(n for n in t.nodes if t.get_edge_ids_ingoing_to_node(n) != t.incoming_edge_ids
                         ))) == [1, 2])
momenta = create_four_momentum_symbols(topology)
angles = compute_helicity_angles(momenta, topology)
by_name = {str(k): v for k, v in angles.items()}
lvl2_phi = by_name["phi_1^12"]
lvl2_theta = by_name["theta_1^12"]
lvl1_phi = by_name["phi_0"]      # named after the helicity state 0, value: see wigner/naming note
lvl1_theta = by_name["theta_0"]
node = lvl2_phi.args[0]
assert isinstance(lvl2_phi, Phi) and isinstance(lvl2_theta, Theta) and lvl2_theta.args[0] == node
assert isinstance(node, ArrayMultiplication), type(node)
factors = list(node.args)
assert isinstance(factors[0], BoostZMatrix), "compute_helicity_angles no longer ends with a z boost"
kinds = [type(f).__name__ for f in factors[:-1]]
p12 = ArraySum(momenta[1], momenta[2])
subst = {p12: p, momenta[1]: q}


def rename(e):
    e = e.xreplace({p12: p})
    e = e.xreplace({momenta[1]: q})
    e = e.xreplace({momenta[0]: p})  # only inside ArraySize(p0), the number of events
    left = {str(s) for s in e.free_symbols} - {"p", "q"}
    assert not left, f"unexpected symbols in the helicity frame expression: {left}"
    return e


rot_factors = [f for f in factors[1:-1]]
rotz = [f for f in rot_factors if isinstance(f, RotationZMatrix)]
roty = [f for f in rot_factors if isinstance(f, RotationYMatrix)]
assert len(rotz) == 1 and len(roty) == 1 and len(rot_factors) == 2, kinds
defs_expr["frame_rotz_arg"] = scalar(rename(rotz[0].args[0]), [p], [P])
defs_expr["frame_roty_arg"] = scalar(rename(roty[0].args[0]), [p], [P])
defs_expr["frame_beta"] = scalar(rename(factors[0].args[0]), [p], [P])
defs_expr["level1_phi"] = scalar(lvl1_phi.xreplace({p12: p}), [p], [P])
defs_expr["level1_theta"] = scalar(lvl1_theta.xreplace({p12: p}), [p], [P])
# structural checks (a failure aborts the regeneration = every obligation is reported broken):
# the second-level angles are Phi/Theta of the SAME boosted+rotated momentum, whose last factor is
# the child's momentum p1 and whose rotation angles belong to the decaying subsystem p1+p2
assert factors[-1] == momenta[1], factors[-1]
assert lvl1_phi == Phi(p12) and lvl1_theta == Theta(p12), (lvl1_phi, lvl1_theta)
defs_vec = {}

# --- 4-body topology whose top node has TWO decaying children: each child's rest frame must be built
# from its OWN flight direction with the same conventions as above (structural; aborts otherwise)
from ampform.helicity.decay import determine_attached_final_state  # noqa: E402

def _both_decay(t):
    (top,) = [t.edges[e].ending_node_id for e in t.incoming_edge_ids]
    kids = t.get_edge_ids_outgoing_from_node(top)
    return all(t.edges[e].ending_node_id is not None for e in kids)


top4 = next(t for t in create_isobar_topologies(4) if _both_decay(t))
mom4 = create_four_momentum_symbols(top4)
ang4 = compute_helicity_angles(mom4, top4)
(top_node4,) = [top4.edges[e].ending_node_id for e in top4.incoming_edge_ids]
two_resonance_frames = 0
for sym4, expr4 in ang4.items():
    if isinstance(expr4, Phi) and isinstance(expr4.args[0], ArrayMultiplication):
        f4 = list(expr4.args[0].args)
        leaf_ids = [i for i, m in mom4.items() if m == f4[-1]]
        assert len(leaf_ids) == 1, f4[-1]
        sub_ids = next(determine_attached_final_state(top4, e)
                       for e in top4.get_edge_ids_outgoing_from_node(top_node4)
                       if leaf_ids[0] in determine_attached_final_state(top4, e))
        P4 = ArraySum(*[mom4[i] for i in sub_ids])
        assert [type(x).__name__ for x in f4[:-1]] == kinds, (sym4, f4)
        for got, want in zip(f4[:-1], factors[:-1]):
            want_arg = want.args[0].xreplace({p12: P4})
            assert got.args[0] == want_arg, (
                f"two-resonance topology: frame of subsystem {sub_ids} uses {got.args[0]} where the "
                f"cascade convention gives {want_arg}")
        two_resonance_frames += 1
assert two_resonance_frames == 2, two_resonance_frames

# --- Euler angles of the Wigner rotation (axis-angle alignment): compute_wigner_angles reads them off the
# entries of ONE matrix W = compute_wigner_rotation_matrix(...); serialise the three trees over symbols
# m<i><j> = W[:, i, j] (i, j in 1..3 = x, y, z) and check structurally that W is that matrix
from ampform.kinematics.angles import compute_wigner_angles, compute_wigner_rotation_matrix  # noqa: E402
from ampform.sympy._array_expressions import ArraySlice  # noqa: E402

_wig = compute_wigner_angles(topology, momenta, 1)
_W = compute_wigner_rotation_matrix(topology, momenta, 1)
_wig_by = {str(k).split("_")[0]: v for k, v in _wig.items()}
assert sorted(_wig_by) == ["alpha", "beta", "gamma"], list(_wig)


def _entries(e):
    repl = {}
    for sl in e.atoms(ArraySlice):
        parent, idx = sl.args
        assert parent == _W, "compute_wigner_angles no longer slices compute_wigner_rotation_matrix"
        first, i, j = idx
        assert isinstance(first, sp.Tuple) and i.is_Integer and j.is_Integer and 1 <= i <= 3 and 1 <= j <= 3, idx
        repl[sl] = sp.Symbol(f"m{int(i)}{int(j)}", real=True)
    out = e.xreplace(repl)
    assert all(str(x).startswith("m") for x in out.free_symbols), out
    return out


for _k in ("alpha", "beta", "gamma"):
    defs_expr[f"wigner_{_k}"] = _entries(_wig_by[_k])
# --- which angle feeds which D index: formulate_isobar_wigner_d on probe transitions -------------
import reactions  # noqa: E402
from ampform.helicity import formulate_isobar_wigner_d  # noqa: E402


def wigner_rows():
    """For every transition of J/psi -> pi0 pi+ pi- (rho) : node 0 and node 1 Wigner-D arguments
    next to the helicities they must be built from (read off the transition, independent of the code)."""
    from ampform.helicity.decay import is_opposite_helicity_state

    rows = []
    reaction = reactions.load("jpsi_3pi_hel")
    for t in reaction.transitions:
        topo = t.topology
        for node_id in sorted(topo.nodes):
            D = formulate_isobar_wigner_d(t, node_id)
            (parent,) = topo.get_edge_ids_ingoing_to_node(node_id)
            kids = sorted(topo.get_edge_ids_outgoing_from_node(node_id))
            hel = [k for k in kids if not is_opposite_helicity_state(topo, k)]
            assert len(hel) == 1
            first, second = hel[0], [k for k in kids if k != hel[0]][0]
            lam = [sp.Rational(t.states[k].spin_projection) for k in (first, second)]
            rows.append((D, sp.Rational(t.states[parent].particle.spin),
                         sp.Rational(t.states[parent].spin_projection), lam[0] - lam[1]))
    return rows


def wigner_row_coq(row):
    D, j, m, dl = row
    assert type(D).__name__ == "WignerD", type(D)
    dj, dm, dmp, al, be, ga = D.args
    # pattern of the Euler angles relative to the node's own angle symbols
    syms = sorted(al.free_symbols | be.free_symbols, key=str)
    phis = [s for s in syms if str(s).startswith("phi")]
    thetas = [s for s in syms if str(s).startswith("theta")]
    assert len(phis) == 1 and len(thetas) == 1, syms
    pat = (sp.simplify(al / phis[0]), sp.simplify(be / thetas[0]), ga)
    assert all(v.is_Rational for v in pat), pat
    same_suffix = str(phis[0])[3:] == str(thetas[0])[5:]
    items = [dj, dm, dmp, j, m, dl, *pat, sp.Integer(1 if same_suffix else 0)]
    return "[" + "; ".join(ser(v) for v in items) + "]"


rows = wigner_rows()

# the D function of the axis-angle alignment receives the Wigner angles in the order (alpha, beta, gamma),
# all three with the suffix of the rotated state (structural)
from ampform.helicity.align.axisangle import formulate_wigner_rotation  # noqa: E402
from sympy.physics.quantum.spin import WignerD  # noqa: E402

_t = reactions.load("lc_pkpi_hel").transitions[0]
_top = _t.topology
(_topnode,) = [_top.edges[e].ending_node_id for e in _top.incoming_edge_ids]
_low = sorted(e for e in _top.outgoing_edge_ids if _top.edges[e].originating_node_id != _topnode)[0]
_rot = formulate_wigner_rotation(_t, _low, sp.Symbol("h"), sp.Symbol("mp"))
_ds = list(_rot.atoms(WignerD))
assert len(_ds) == 1, _ds
_names = [str(a) for a in _ds[0].args[3:6]]
assert [n.split("_")[0] for n in _names] == ["alpha", "beta", "gamma"], _names
assert len({n.split("_", 1)[1] for n in _names}) == 1, _names
assert str(_ds[0].args[1]) == "h" and str(_ds[0].args[2]) == "mp", _ds[0].args

with open(out, "w") as f:
    f.write("(* GENERATED on every run from /repo by bridge/symgen_C04.py *)\n"
            "From AV Require Import Ast.\nOpen Scope string_scope.\n\n")
    for k, e in defs_expr.items():
        f.write(f"Definition {k} : expr :=\n  {ser(e)}.\n\n")
    for k, m in defs_mat.items():
        f.write(f"Definition {k} : list (list expr) :=\n  {coq_mat(m)}.\n\n")
    for k, v in defs_vec.items():
        f.write(f"Definition {k} : list expr :=\n  {coq_vec(v)}.\n\n")
    f.write("Definition frame_factor_kinds : list string :=\n  ["
            + "; ".join('"%s"' % k for k in kinds) + "].\n\n")
    # each row: D.j, D.m, D.mp, parent spin, parent projection, lambda_helicity - lambda_opposite,
    #           alpha/phi, beta/theta, gamma, angle symbols share one suffix
    f.write("Definition wigner_rows : list (list expr) :=\n  [" + ";\n   ".join(wigner_row_coq(r) for r in rows) + "].\n")
print("ok", {k: len(str(e)) for k, e in defs_expr.items()}, kinds, len(rows))
