"""C13 T2 correspondence: run seeded assignment histories on the implementation and on the
Gallina model coq/theories/Selector.v (vm_compute) and diff every observable.

usage: corr_C13.py <seed> <n_per_reaction> [reaction ...]   -> JSON (last stdout line)
       corr_C13.py --replay <json-file>                     -> JSON {still_fails: bool}
cwd = build/C13 (Cases_C13_<reaction>.v are written there).
"""
import json
import os
import random
import subprocess
import sys
from concurrent.futures import ThreadPoolExecutor

import lib_C13 as L

VERIF = os.path.dirname(os.path.dirname(os.path.abspath(__file__)))


def coqc(fname: str) -> tuple[int, str]:
    p = subprocess.run(["timeout", "900", "coqc", "-Q", os.path.join(VERIF, "coq", "theories"), "AV", fname],
                       capture_output=True, text=True)
    return p.returncode, p.stdout + p.stderr


def predictions(name: str, cases: list[dict], fname: str):
    """model predictions for the cases of one reaction, plus reaction-level checks"""
    c = L.ctx(name)
    with open(fname, "w") as f:
        f.write(L.gallina_reaction(c, cases))
    rc, out = coqc(fname)
    if rc != 0:
        return None, f"coqc failed on {fname}: {out[-600:]}"
    res = L.coq_results(out)
    head = {r[1]: r[2] for r in res if r[0] == "REACTION"}
    preds = [dict() for _ in cases]
    for r in res:
        if r[0] != "CASE":
            continue
        if r[2] == "trace":
            preds[r[1]]["steps"] = [[L.res_of_model(s[0]), s[1], s[2]] for s in r[3]]
        else:
            v = r[3]
            if "inl" in v:
                preds[r[1]]["formulate"] = v["inl"]
            else:
                calls, rest = v["inr"]
                if "inl" in rest:
                    preds[r[1]]["formulate"] = rest["inl"]
                else:
                    preds[r[1]]["formulate"] = {"calls": calls, "defaults": rest["inr"][0],
                                                "warnings": rest["inr"][1]}
    return (head, preds), ""


def run_reaction(name: str, cases: list[dict], seed: int, fname: str):
    fails, stats = [], {"decay_lookups": 0, "chain_ratios": 0, "numeric": 0, "structural": 0, "cases_with_warnings": 0, "formulate_ok": 0, "error_steps": 0, "notfound_steps": 0}
    pr, msg = predictions(name, cases, fname)
    if pr is None:
        return [{"signature": "corr:model_run", "what": msg, "case": cases[0], "nocase": True}], stats, 0
    head, preds = pr
    if head.get("wf") is not True:
        fails.append({"signature": "corr:wf_transition", "what": f"{name}: a transition is not well-formed for the model", "case": cases[0]})
    if head.get("chains_covered") is not True:
        fails.append({"signature": "corr:chains_covered", "what": f"{name}: a formulated chain is not among the registered graphs", "case": cases[0]})
    init = head.get("init")
    init = init.get("inr") if isinstance(init, dict) else None
    rng = random.Random(seed * 7919 + 13)
    c = L.ctx(name)
    # the defect fixed in 8360f41: chain decays that are not selector keys lose their dynamics
    for n, case in enumerate(cases):
        obs = L.run_impl(case)
        pred = preds[n]
        pred["init"] = init
        f, st = L.compare(case, obs, pred, rng)
        fails.extend(f)
        for k in stats:
            stats[k] += st[k]
    return fails, stats, len(cases)


def main():
    L.enable_log_capture()
    if sys.argv[1] == "--replay":
        doc = json.load(open(sys.argv[2]))
        case = doc["replay"]["case"]
        fails, _, _ = run_reaction(case["reaction"], [case], 0, "Replay_C13.v")
        print(json.dumps({"still_fails": bool(fails), "signatures": sorted({f["signature"] for f in fails})}))
        return
    seed, n = int(sys.argv[1]), int(sys.argv[2])
    names = sys.argv[3:] or L.REACTIONS
    rng = random.Random(seed)
    cases = {nm: [L.gen_case(rng, nm) for _ in range(n)] for nm in names}
    failures, total = [], {"decay_lookups": 0, "chain_ratios": 0, "numeric": 0, "structural": 0, "cases_with_warnings": 0, "formulate_ok": 0, "error_steps": 0, "notfound_steps": 0}
    ncases = 0
    # model runs in parallel (coqc), implementation sequentially in this process
    with ThreadPoolExecutor(max_workers=8) as ex:
        futs = {nm: ex.submit(predictions, nm, cases[nm], f"Cases_C13_{nm}.v") for nm in names}
        # Gallina text generation mutates the per-reaction context only -> safe per reaction
        results = {nm: f.result() for nm, f in futs.items()}
    for nm in names:
        pr, msg = results[nm]
        if pr is None:
            failures.append({"signature": "corr:model_run", "what": msg, "case": cases[nm][0], "nocase": True})
            continue
        head, preds = pr
        if head.get("wf") is not True:
            failures.append({"signature": "corr:wf_transition", "what": f"{nm}: transition not well-formed for the model", "case": cases[nm][0]})
        if head.get("chains_covered") is not True:
            failures.append({"signature": "corr:chains_covered", "what": f"{nm}: a formulated chain is not among the registered graphs", "case": cases[nm][0]})
        init = head.get("init")
        init = init.get("inr") if isinstance(init, dict) else None
        nkeys = len(L.ctx(nm).new_builder(False).dynamics)
        if init is not None and nkeys != len(init) and nkeys == head.get("init_pinned_len"):
            failures.append({"signature": "permuted_chain_dynamics_dropped",
                             "what": f"{nm}: the selector registers only the reaction's own transitions ({nkeys} keys, "
                                     f"{len(init)} with the identical-particle graphs): permuted chains lose their dynamics",
                             "case": cases[nm][0]})
        crng = random.Random(seed * 7919 + 13)
        for k, case in enumerate(cases[nm]):
            obs = L.run_impl(case)
            preds[k]["init"] = init
            f, st = L.compare(case, obs, preds[k], crng)
            failures.extend(f)
            for kk in total:
                total[kk] += st[kk]
            ncases += 1
    seen, uniq = set(), []
    for f in failures:
        if f["signature"] not in seen:
            seen.add(f["signature"])
            uniq.append(f)
    samples = [{"reaction": nm, "history": cases[nm][0]["history"][:3]} for nm in names[:4]]
    print(json.dumps({"evaluations": total["decay_lookups"] + total["chain_ratios"], "distinct": ncases,
                      "stats": total, "samples": samples, "failures": uniq,
                      "kinds": {"reactions": len(names), "histories": ncases},
                      "checker_cmds": [f"coqc -Q coq/theories AV build/C13/Cases_C13_{nm}.v" for nm in names]}))


main()
