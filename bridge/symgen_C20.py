"""C20 model regeneration: call the anchored functions on symbols, serialise the trees."""
import sys

import common  # noqa: F401
import sympy as sp
from ser import write_gen

common.assert_repo_import()
from ampform.kinematics.phasespace import (  # noqa: E402
    Kallen,
    Kibble,
    compute_third_mandelstam,
    is_within_phasespace,
)

out = sys.argv[1]
x, y, z = sp.symbols("x y z")
s1, s2, s3, m0, m1, m2, m3, o = sp.symbols("s1 s2 s3 m0 m1 m2 m3 out")
defs = {
    "gen_kallen": Kallen(x, y, z).doit(),
    "gen_kibble": Kibble(s1, s2, s3, m0, m1, m2, m3).doit(),
    "gen_third": compute_third_mandelstam(s1, s2, m0, m1, m2, m3),
    "gen_within": is_within_phasespace(s1, s2, m0, m1, m2, m3, outside_value=o).doit(),
}
write_gen(out, "bridge/symgen_C20.py", defs)
print("ok", {k: len(str(v)) for k, v in defs.items()})
