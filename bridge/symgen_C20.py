"""C20 model regeneration: call the anchored functions on symbols, serialise the trees."""
import sys

import common  # noqa: F401
import sympy as sp
from ser import write_gen

common.assert_repo_import()
from ampform.kinematics.phasespace import (  # noqa: E402
    Kallen,
    Kibble,
    compute_third_mandelstam,
    is_within_phasespace,
)

out = sys.argv[1]
x, y, z = sp.symbols("x y z")
s1, s2, s3, m0, m1, m2, m3, o = sp.symbols("s1 s2 s3 m0 m1 m2 m3 out")
defs = {
    "gen_kallen": Kallen(x, y, z).doit(),
    "gen_kibble": Kibble(s1, s2, s3, m0, m1, m2, m3).doit(),
    "gen_third": compute_third_mandelstam(s1, s2, m0, m1, m2, m3),
    "gen_within": is_within_phasespace(s1, s2, m0, m1, m2, m3, outside_value=o).doit(),
}
# literal arguments inserted BEFORE doit(): a vanishing argument (massless particle, sigma = 0) in each slot, and the
# Kibble function / indicator with a massless particle in each position (value-inspecting branches would show here)
Z = sp.Integer(0)
defs.update({
    "gen_kallen_x0": Kallen(Z, y, z).doit(), "gen_kallen_y0": Kallen(x, Z, z).doit(), "gen_kallen_z0": Kallen(x, y, Z).doit(),
    "gen_kallen_xy0": Kallen(Z, Z, z).doit(), "gen_kallen_float0": Kallen(sp.Float(0), y, z).doit(),
    "gen_kibble_m1_0": Kibble(s1, s2, s3, m0, Z, m2, m3).doit(),
    "gen_kibble_m2_0": Kibble(s1, s2, s3, m0, m1, Z, m3).doit(),
    "gen_kibble_m3_0": Kibble(s1, s2, s3, m0, m1, m2, Z).doit(),
    "gen_kibble_s1_0": Kibble(Z, s2, s3, m0, m1, Z, Z).doit(),
})
# the same expression classes constructed through keywords in shuffled order (the constructor must bind by name)
defs.update({
    "gen_kallen_kw": Kallen(z=z, x=x, y=y).doit(),
    "gen_kibble_kw_masses_first": Kibble(m0=m0, m1=m1, m2=m2, m3=m3, sigma1=s1, sigma2=s2, sigma3=s3).doit(),
    "gen_kibble_kw_mixed": Kibble(s1, s2, s3, m2=m2, m0=m0, m3=m3, m1=m1).doit(),
    "gen_kibble_kw_reversed": Kibble(m3=m3, m2=m2, m1=m1, m0=m0, sigma3=s3, sigma2=s2, sigma1=s1).doit(),
})
write_gen(out, "bridge/symgen_C20.py", defs)
print("ok", {k: len(str(v)) for k, v in defs.items()})
