"""Fail-closed Python-`ast` translator: small pure helpers of ampform -> Gallina over AV.PyTopo.

  python trans_helpers.py <out.v>     last stdout line: JSON {"translated": [...], "refused": {name: reason},
                                                              "source_sha": {file: sha1}}

Reads the CURRENT source text under $VERIF_REPO and emits `Definition gen_<name>` (and `Fixpoint
gen_<name>_loop<k>` for every `while`) for the functions in TARGETS.  Anything outside the recognised
statement / expression forms raises Refuse: the function is not emitted, the theorems about it cannot
compile and the runner reports `translator:<name>`.

Recognised statements: docstring, `x = e`, `x: T = e`, `x += e`, `return e`, `raise ValueError(msg)`,
`msg = <string>`, `x.append(e)`, `x.remove(e)`, a call of a translated function as a statement,
`if`/`else` (either branch may return/raise or fall through; `X is None` tests narrow an optional),
`while` (becomes a fuelled Fixpoint over the variables the body assigns), `for n in topology.nodes`.
Recognised expressions: names, int/float literals with integer value, None, unary minus, +, set difference, set literals
of ints, ==/!= of sets, one-operator
comparisons, and/or/not, `in`, `is (not) None`, [e], [], len, sorted, tuple, list, reversed, next(iter(s)),
float, Decimal, s[0], topology.edges[i] (+ .originating_node_id/.ending_node_id), the Topology methods
named in PRIMS, calls of already translated functions.
Types are tracked (topo, Z, optZ, bool, edge, listZ, setZ, seqset, num); a mismatch is a refusal.
"""
from __future__ import annotations

import ast
import hashlib
import json
import os
import sys

import common  # noqa: F401

SRCDIR = os.path.join(common.REPO, "src", "ampform")
# (file, function) in dependency order
TARGETS = [
    ("helicity/decay.py", "assert_two_body_decay"),
    ("helicity/decay.py", "assert_isobar_topology"),
    ("helicity/decay.py", "get_sibling_state_id"),
    ("helicity/decay.py", "determine_attached_final_state"),
    ("helicity/decay.py", "is_opposite_helicity_state"),
    ("helicity/decay.py", "get_parent_id"),
    ("helicity/decay.py", "list_decay_chain_ids"),
    ("helicity/decay.py", "assert_three_body_decay"),
    ("helicity/decay.py", "get_spectator_id"),
    ("helicity/decay.py", "get_decay_product_ids"),
    ("kinematics/lorentz.py", "__get_boost_chain_ids"),
    ("helicity/align/_spin.py", "create_spin_range"),
]
PRIMS = {
    "get_edge_ids_outgoing_from_node": ("topo_outgoing", "setZ"),
    "get_edge_ids_ingoing_to_node": ("topo_ingoing", "setZ"),
    "get_originating_final_state_edge_ids": ("topo_originating_fs", "setZ"),
}
TOPO_ATTRS = {"incoming_edge_ids": ("topo_incoming_edge_ids", "setZ"),
              "outgoing_edge_ids": ("topo_outgoing_edge_ids", "setZ")}
EDGE_ATTRS = {"originating_node_id": "re_orig", "ending_node_id": "re_end"}
COQTY = {"topo": "rtopo", "Z": "Z", "optZ": "option Z", "bool": "bool", "edge": "redge", "listZ": "list Z",
         "setZ": "list Z", "seqset": "list Z", "num": "Z", "unit": "unit"}
LISTS = ("listZ", "setZ", "seqset")


class Refuse(Exception):
    pass


def refuse(node, why):
    raise Refuse(f"{why} (line {getattr(node, 'lineno', '?')}: {ast.unparse(node)[:70]})")


def cname(name):
    return "gen_" + name.lstrip("_")


def ann_type(a, ret=False):
    s = ast.unparse(a) if a is not None else None
    table = {"Topology": "topo", "int": "Z", "bool": "bool", "SupportsFloat": "num", "list[int]": "listZ",
             "list[float]": "listZ", "int | None": "optZ", "Literal[1, 2, 3]": "Z",
             "tuple[Literal[1, 2, 3], Literal[1, 2, 3]]": "listZ"}
    if ret and s == "None":
        return "unit"
    if s in table:
        return table[s]
    raise Refuse(f"annotation {s!r} not recognised")


def modified(stmts):
    out = []

    def add(n):
        if n not in out:
            out.append(n)
    for s in stmts:
        for n in ast.walk(s):
            if isinstance(n, (ast.Assign, ast.AnnAssign, ast.AugAssign)):
                tg = n.targets if isinstance(n, ast.Assign) else [n.target]
                for t in tg:
                    if isinstance(t, ast.Name):
                        add(t.id)
                    else:
                        refuse(n, "assignment target")
            if (isinstance(n, ast.Expr) and isinstance(n.value, ast.Call) and isinstance(n.value.func, ast.Attribute)
                    and n.value.func.attr in ("remove", "append") and isinstance(n.value.func.value, ast.Name)):
                add(n.value.func.value.id)
    return out


class Fn:
    def __init__(self, node: ast.FunctionDef, sigs):
        self.node, self.sigs = node, sigs
        self.name = node.name
        for d in node.decorator_list:   # functools.cache on a pure function of hashable arguments: no semantic effect
            if not (isinstance(d, ast.Name) and d.id == "cache"):
                refuse(node, "decorated function")
        a = node.args
        if a.vararg or a.kwarg or a.kwonlyargs or a.posonlyargs:
            refuse(node, "argument kinds")
        self.params = [(x.arg, ann_type(x.annotation)) for x in a.args]
        self.ret = ann_type(node.returns, ret=True)
        self.ty = dict(self.params)
        self.narrow = {}            # (edge var, attr) -> variable holding the unwrapped int
        self.pre = []
        self.ntmp = 0
        self.loops = []
        self.fuel = False
        self.uses_u = any(t == "num" for _, t in self.params)

    # ------------------------------------------------------------------ expressions
    def tmp(self):
        self.ntmp += 1
        return f"t{self.ntmp}_"

    def effect(self, code, ty):
        t = self.tmp()
        self.pre.append((t, code))
        return t, ty

    def lit(self, code, ty, want):
        """coerce an integer literal to the type of the other operand"""
        if ty == "intlit":
            if want == "num":
                return f"({code} * u)", "num"
            return code, "Z"
        return code, ty

    def ex(self, e):
        if isinstance(e, ast.Name):
            if e.id not in self.ty:
                refuse(e, f"unknown variable {e.id}")
            if self.ty[e.id] == "str":
                refuse(e, "string value used")
            return e.id, self.ty[e.id]
        if isinstance(e, ast.Constant):
            v = e.value
            if v is None:
                return "None", "optZ"
            if v is True or v is False:
                return str(v).lower(), "bool"
            if isinstance(v, int):
                return (f"({v})" if v < 0 else str(v)), "intlit"
            if isinstance(v, float) and v == int(v):
                self.uses_u = True
                return f"({int(v)} * u)", "num"
            refuse(e, "constant")
        if isinstance(e, ast.UnaryOp) and isinstance(e.op, ast.USub):
            c, t = self.ex(e.operand)
            if t not in ("Z", "num", "intlit"):
                refuse(e, "unary minus on " + t)
            return f"(- {c})", t
        if isinstance(e, ast.UnaryOp) and isinstance(e.op, ast.Not):
            return f"(negb {self.test(e.operand)})", "bool"
        if isinstance(e, ast.BinOp) and isinstance(e.op, ast.Add):
            (a, ta), (b, tb) = self.ex(e.left), self.ex(e.right)
            a, ta = self.lit(a, ta, tb)
            b, tb = self.lit(b, tb, ta)
            if ta != tb or ta not in ("Z", "num"):
                refuse(e, f"+ on {ta}, {tb}")
            return f"({a} + {b})", ta
        if isinstance(e, ast.BinOp) and isinstance(e.op, ast.Sub):
            (a, ta), (b, tb) = self.ex(e.left), self.ex(e.right)
            if ta == tb == "setZ":
                return f"(set_diff {a} {b})", "setZ"
            refuse(e, f"- on {ta}, {tb}")
        if isinstance(e, ast.Set):
            if not all(isinstance(x, ast.Constant) and isinstance(x.value, int) and not isinstance(x.value, bool) for x in e.elts):
                refuse(e, "set literal")
            return "(set_of [" + "; ".join(f"({x.value})" for x in e.elts) + "])", "setZ"
        if isinstance(e, ast.BoolOp):
            op = " || " if isinstance(e.op, ast.Or) else " && "
            return "(" + op.join(self.test(v) for v in e.values) + ")", "bool"
        if isinstance(e, ast.Compare) and len(e.ops) == 1:
            return self.compare(e), "bool"
        if isinstance(e, ast.List):
            if not e.elts:
                return "[]", "listZ"
            parts = []
            for x in e.elts:
                c, t = self.ex(x)
                if t not in ("Z", "num"):
                    refuse(e, "list element of type " + t)
                parts.append(c)
            return "[" + "; ".join(parts) + "]", "listZ"
        if isinstance(e, ast.Attribute):
            return self.attribute(e)
        if isinstance(e, ast.Subscript):
            return self.subscript(e)
        if isinstance(e, ast.Call):
            return self.call(e)
        refuse(e, "expression form")

    def test(self, e):
        c, t = self.ex(e)
        if t != "bool":
            refuse(e, "condition of type " + t)
        return c

    def compare(self, e):
        op, l, r = e.ops[0], e.left, e.comparators[0]
        if isinstance(op, (ast.Is, ast.IsNot)):
            if not (isinstance(r, ast.Constant) and r.value is None):
                refuse(e, "is")
            c, t = self.ex(l)
            if t != "optZ":
                refuse(e, "`is None` on " + t)
            b = f"(match {c} with None => true | Some _ => false end)"
            return b if isinstance(op, ast.Is) else f"(negb {b})"
        (a, ta), (b, tb) = self.ex(l), self.ex(r)
        if isinstance(op, (ast.In, ast.NotIn)):
            a, ta = self.lit(a, ta, "num" if self.uses_u and ta == "num" else "Z")
            if ta not in ("Z", "num") or tb not in ("listZ", "setZ"):
                refuse(e, f"in on {ta}, {tb}")
            c = f"(memZ {a} {b})"
            return c if isinstance(op, ast.In) else f"(negb {c})"
        a, ta = self.lit(a, ta, tb)
        b, tb = self.lit(b, tb, ta)
        if ta == tb and ta in ("Z", "num"):
            tab = {ast.Eq: f"({a} =? {b})", ast.NotEq: f"(negb ({a} =? {b}))", ast.Lt: f"({a} <? {b})",
                   ast.LtE: f"({a} <=? {b})", ast.Gt: f"({b} <? {a})", ast.GtE: f"({b} <=? {a})"}
            if type(op) in tab:
                return tab[type(op)]
        if ta == tb == "listZ" and isinstance(op, ast.Gt):
            return f"(tuple_gtb {a} {b})"
        if ta == tb == "setZ" and isinstance(op, (ast.Eq, ast.NotEq)):   # both sides canonical (strictly sorted)
            c = f"(Kin.lZ_eqb {a} {b})"
            return c if isinstance(op, ast.Eq) else f"(negb {c})"
        refuse(e, f"comparison {type(op).__name__} on {ta}, {tb}")

    def attribute(self, e):
        if isinstance(e.value, ast.Name) and self.ty.get(e.value.id) == "topo" and e.attr in TOPO_ATTRS:
            f, t = TOPO_ATTRS[e.attr]
            return f"({f} {e.value.id})", t
        if e.attr in EDGE_ATTRS:
            if isinstance(e.value, ast.Name) and (e.value.id, e.attr) in self.narrow:
                return self.narrow[(e.value.id, e.attr)], "Z"
            c, t = self.ex(e.value)
            if t != "edge":
                refuse(e, "attribute of " + t)
            return f"({EDGE_ATTRS[e.attr]} {c})", "optZ"
        refuse(e, "attribute")

    def subscript(self, e):
        v = e.value
        if (isinstance(v, ast.Attribute) and v.attr == "edges" and isinstance(v.value, ast.Name)
                and self.ty.get(v.value.id) == "topo"):
            i, ti = self.ex(e.slice)
            i, ti = self.lit(i, ti, "Z")
            if ti != "Z":
                refuse(e, "edge index of type " + ti)
            return self.effect(f"topo_edge {v.value.id} {i}", "edge")
        c, t = self.ex(v)
        if t == "seqset" and isinstance(e.slice, ast.Constant) and e.slice.value == 0:
            return self.effect(f"py_first_of_set {c}", "Z")
        refuse(e, "subscript")

    def call(self, e):
        f = e.func
        if e.keywords:
            refuse(e, "keyword arguments")
        if isinstance(f, ast.Name):
            n, args = f.id, e.args
            if n == "len" and len(args) == 1:
                c, t = self.ex(args[0])
                if t not in LISTS:
                    refuse(e, "len of " + t)
                return f"(lenZ {c})", "Z"
            if n == "sorted" and len(args) == 1:
                c, t = self.ex(args[0])
                if t not in LISTS:
                    refuse(e, "sorted of " + t)
                return f"(Kin.sort {c})", "listZ"
            if n in ("tuple", "list") and len(args) == 1:
                c, t = self.ex(args[0])
                if t == "listZ":
                    return c, "listZ"
                if t in ("setZ", "seqset"):
                    return c, "seqset"
                refuse(e, n + " of " + t)
            if n == "reversed" and len(args) == 1:
                c, t = self.ex(args[0])
                if t != "listZ":
                    refuse(e, "reversed of " + t)
                return f"(rev {c})", "listZ"
            if n == "next" and len(args) == 1 and isinstance(args[0], ast.Call) and isinstance(args[0].func, ast.Name) \
                    and args[0].func.id == "iter" and len(args[0].args) == 1:
                c, t = self.ex(args[0].args[0])
                if t != "setZ":
                    refuse(e, "next(iter()) of " + t)
                return self.effect(f"py_next_iter {c}", "Z")
            if n in ("float", "Decimal") and len(args) == 1:
                if isinstance(args[0], ast.Constant) and isinstance(args[0].value, str):
                    if float(args[0].value) != 0:
                        refuse(e, "Decimal string")
                    return "0", "num"
                c, t = self.ex(args[0])
                if t != "num":
                    refuse(e, n + " of " + t)
                return c, "num"
            if n in self.sigs:
                return self.user_call(e, n, args)
            refuse(e, "call of " + n)
        if isinstance(f, ast.Attribute) and f.attr in PRIMS and isinstance(f.value, ast.Name) \
                and self.ty.get(f.value.id) == "topo" and len(e.args) == 1:
            a, ta = self.ex(e.args[0])
            a, ta = self.lit(a, ta, "Z")
            if ta != "Z":
                refuse(e, f"node id of type {ta}")
            g, t = PRIMS[f.attr]
            return f"({g} {f.value.id} {a})", t
        refuse(e, "call form")

    def user_call(self, e, n, args):
        sig = self.sigs[n]
        if len(args) != len(sig["params"]):
            refuse(e, "arity")
        parts = []
        for a, (_, want) in zip(args, sig["params"]):
            c, t = self.ex(a)
            c, t = self.lit(c, t, want)
            if t != want:
                refuse(e, f"argument of type {t}, expected {want}")
            parts.append(c)
        if sig["fuel"]:
            self.fuel = True
            parts.insert(0, "fuel")
        return self.effect(f"{cname(n)} " + " ".join(parts), sig["ret"])

    # ------------------------------------------------------------------ statements
    def wrap(self, pre, body):
        for t, c in reversed(pre):
            body = f"bind ({c}) (fun {t} =>\n  {body})"
        return body

    def take_pre(self):
        p, self.pre = self.pre, []
        return p

    def tuple_of(self, vs):
        return "tt" if not vs else (vs[0] if len(vs) == 1 else "(" + ", ".join(vs) + ")")

    def pat_of(self, vs):
        return "_" if not vs else (vs[0] if len(vs) == 1 else "'(" + ", ".join(vs) + ")")

    def stmts(self, ss, fall):
        """fall: None (end of the function) or (vars, entry types, code template) for a fall-through block"""
        if not ss:
            if fall is None:
                if self.ret == "unit":
                    return "Ok tt"
                raise Refuse(f"{self.name}: control reaches the end of a function that returns a value")
            vs, tys, mk = fall
            vals = []
            for v, t in zip(vs, tys):
                have = self.ty[v]
                if have == t:
                    vals.append(v)
                elif have == "Z" and t == "optZ":
                    vals.append(f"(Some {v})")
                else:
                    raise Refuse(f"{self.name}: variable {v} changes type {t} -> {have} in a block")
            return mk(vals)
        s, rest = ss[0], ss[1:]
        if isinstance(s, ast.Expr) and isinstance(s.value, ast.Constant) and isinstance(s.value.value, str):
            return self.stmts(rest, fall)
        if isinstance(s, ast.Return):
            if s.value is None:
                refuse(s, "bare return")
            c, t = self.ex(s.value)
            c, t = self.lit(c, t, self.ret if self.ret in ("Z", "num") else "Z")
            pre = self.take_pre()
            if self.ret == "optZ" and t == "Z":
                c = f"(Some {c})"
            elif self.ret == "listZ" and t == "listZ":
                pass
            elif t != self.ret:
                refuse(s, f"returns {t}, declared {self.ret}")
            return self.wrap(pre, f"Ok {c}")
        if isinstance(s, ast.Raise):
            if isinstance(s.exc, ast.Call) and isinstance(s.exc.func, ast.Name) and s.exc.func.id == "ValueError":
                return "Err EValue"
            refuse(s, "raise")
        if isinstance(s, (ast.Assign, ast.AnnAssign)):
            tg = s.targets[0] if isinstance(s, ast.Assign) else s.target
            if (isinstance(s, ast.Assign) and len(s.targets) != 1) or not isinstance(tg, ast.Name) or s.value is None:
                refuse(s, "assignment form")
            if isinstance(s.value, (ast.JoinedStr,)) or (isinstance(s.value, ast.Constant) and isinstance(s.value.value, str)):
                self.ty[tg.id] = "str"      # an error message
                return self.stmts(rest, fall)
            c, t = self.ex(s.value)
            c, t = self.lit(c, t, self.ty.get(tg.id, "Z"))
            if isinstance(s, ast.AnnAssign) and ast.unparse(s.annotation) == "int | None" and t == "Z":
                c, t = f"(Some {c})", "optZ"
            pre = self.take_pre()
            self.ty[tg.id] = t
            return self.wrap(pre, f"let {tg.id} := {c} in\n  {self.stmts(rest, fall)}")
        if isinstance(s, ast.AugAssign) and isinstance(s.op, ast.Add) and isinstance(s.target, ast.Name):
            return self.stmts([ast.copy_location(ast.Assign(targets=[s.target], value=ast.BinOp(
                left=ast.Name(id=s.target.id, ctx=ast.Load()), op=ast.Add(), right=s.value)), s), *rest], fall)
        if isinstance(s, ast.Expr) and isinstance(s.value, ast.Call):
            f = s.value.func
            if isinstance(f, ast.Attribute) and isinstance(f.value, ast.Name) and f.attr in ("remove", "append") \
                    and len(s.value.args) == 1:
                x = f.value.id
                tx = self.ty.get(x)
                c, t = self.ex(s.value.args[0])
                c, t = self.lit(c, t, "Z")
                if t not in ("Z", "num"):
                    refuse(s, "element of type " + t)
                pre = self.take_pre()
                if f.attr == "append":
                    if tx != "listZ":
                        refuse(s, "append on " + str(tx))
                    return self.wrap(pre, f"let {x} := {x} ++ [{c}] in\n  {self.stmts(rest, fall)}")
                if tx not in ("listZ", "setZ"):
                    refuse(s, "remove on " + str(tx))
                return self.wrap(pre, f"bind (py_remove {c} {x}) (fun {x} =>\n  {self.stmts(rest, fall)})")
            if isinstance(f, ast.Name) and f.id in self.sigs and self.sigs[f.id]["ret"] == "unit":
                self.ex(s.value)
                pre = self.take_pre()
                return self.wrap(pre, self.stmts(rest, fall))
            refuse(s, "expression statement")
        if isinstance(s, ast.If):
            return self.if_(s, rest, fall)
        if isinstance(s, ast.While):
            return self.while_(s, rest, fall)
        if isinstance(s, ast.For):
            return self.for_(s, rest, fall)
        refuse(s, "statement form")

    @staticmethod
    def terminates(ss):
        if not ss:
            return False
        last = ss[-1]
        if isinstance(last, (ast.Return, ast.Raise)):
            return True
        if isinstance(last, ast.If) and last.orelse:
            return Fn.terminates(last.body) and Fn.terminates(last.orelse)
        return False

    def none_test(self, t):
        """(`X is None`?, subject) for narrowing tests"""
        if isinstance(t, ast.Compare) and len(t.ops) == 1 and isinstance(t.ops[0], (ast.Is, ast.IsNot)) \
                and isinstance(t.comparators[0], ast.Constant) and t.comparators[0].value is None:
            return isinstance(t.ops[0], ast.Is), t.left
        return None

    def if_(self, s, rest, fall):
        nt = self.none_test(s.test)
        if nt and nt[0] and self.terminates(s.body) and not s.orelse:
            subj = nt[1]
            saved = dict(self.ty)
            body = self.stmts(s.body, fall)
            self.ty = saved
            if isinstance(subj, ast.Name) and self.ty.get(subj.id) == "optZ":
                self.ty[subj.id] = "Z"
                return f"match {subj.id} with\n  | None => {body}\n  | Some {subj.id} =>\n  {self.stmts(rest, fall)}\n  end"
            if isinstance(subj, ast.Attribute) and subj.attr in EDGE_ATTRS and isinstance(subj.value, ast.Name) \
                    and self.ty.get(subj.value.id) == "edge":
                v = f"{subj.value.id}__{subj.attr}"
                self.narrow[(subj.value.id, subj.attr)] = v
                return (f"match {EDGE_ATTRS[subj.attr]} {subj.value.id} with\n  | None => {body}\n  | Some {v} =>\n  "
                        f"{self.stmts(rest, fall)}\n  end")
            refuse(s, "`is None` test on this subject")
        cond = self.test(s.test)
        pre = self.take_pre()
        tb, te = self.terminates(s.body), self.terminates(s.orelse)
        saved = dict(self.ty)
        if tb and (te or not s.orelse):
            a = self.stmts(s.body, fall)
            self.ty = dict(saved)
            b = self.stmts(s.orelse + rest if not te else s.orelse, fall)
            if te and rest:
                refuse(s, "unreachable statements after if/else")
            return self.wrap(pre, f"if {cond} then {a}\n  else {b}")
        # fall-through branches: thread the variables they assign
        vs = [v for v in modified(s.body + s.orelse)]
        for v in vs:
            if v not in self.ty:
                refuse(s, f"variable {v} first assigned inside a branch")
        tys = [self.ty[v] for v in vs]
        blk = (vs, tys, lambda vals: "Ok " + self.tuple_of(vals))
        a = self.stmts(s.body, blk)
        self.ty = dict(saved)
        b = self.stmts(s.orelse, blk)
        self.ty = dict(saved)
        return self.wrap(pre, f"bind (if {cond} then {a} else {b}) (fun {self.pat_of(vs)} =>\n  {self.stmts(rest, fall)})")

    def while_(self, s, rest, fall):
        if s.orelse:
            refuse(s, "while/else")
        for n in ast.walk(s):
            if isinstance(n, (ast.Break, ast.Continue, ast.Return)):
                refuse(n, "break/continue/return inside while")
        vs = modified(s.body)
        for v in vs:
            if v not in self.ty:
                refuse(s, f"loop variable {v} not initialised before the loop")
        tys = [self.ty[v] for v in vs]
        others = [(v, t) for v, t in self.ty.items() if v not in vs and t != "str"]
        self.fuel = True
        k = len(self.loops) + 1
        lname = f"{cname(self.name)}_loop{k}"
        call = lambda vals: f"{lname} fuel " + " ".join([v for v, _ in others] + vals)  # noqa: E731
        blk = (vs, tys, lambda vals: call(vals))
        saved = dict(self.ty)
        exit_ = "Ok " + self.tuple_of(vs)
        nt = self.none_test(s.test)
        if nt and not nt[0] and isinstance(nt[1], ast.Name) and self.ty.get(nt[1].id) == "optZ":
            x = nt[1].id
            self.ty[x] = "Z"
            body = self.stmts(s.body, blk)
            step = f"match {x} with\n    | Some {x} =>\n  {body}\n    | None => {exit_}\n    end"
        else:
            cond = self.test(s.test)
            if self.pre:
                refuse(s, "effectful loop condition")
            body = self.stmts(s.body, blk)
            step = f"if {cond} then\n  {body}\n    else {exit_}"
        self.ty = saved
        u = "(u : Z) " if self.uses_u else ""
        binders = " ".join(f"({v} : {COQTY[t]})" for v, t in others + list(zip(vs, tys)))
        rt = " * ".join(COQTY[t] for t in tys) if vs else "unit"
        self.loops.append(f"Fixpoint {lname} {u}(fuel : nat) {binders} {{struct fuel}} : res ({rt}) :=\n"
                          f"  match fuel with\n  | O => Err EFuel\n  | S fuel =>\n    {step}\n  end.\n")
        if self.uses_u:
            call0 = f"{lname} u fuel " + " ".join([v for v, _ in others] + vs)
            # the recursive calls inside the body also need u
            self.loops[-1] = self.loops[-1].replace(f"{lname} fuel ", f"{lname} u fuel ")
        else:
            call0 = call(vs)
        return f"bind ({call0}) (fun {self.pat_of(vs)} =>\n  {self.stmts(rest, fall)})"

    def for_(self, s, rest, fall):
        it = s.iter
        if not (isinstance(it, ast.Attribute) and it.attr == "nodes" and isinstance(it.value, ast.Name)
                and self.ty.get(it.value.id) == "topo" and isinstance(s.target, ast.Name) and not s.orelse):
            refuse(s, "for loop form")
        if modified(s.body):
            refuse(s, "for body assigns variables")
        for n in ast.walk(s):
            if isinstance(n, (ast.Break, ast.Continue, ast.Return)):
                refuse(n, "break/continue/return inside for")
        saved = dict(self.ty)
        self.ty[s.target.id] = "Z"
        body = self.stmts(s.body, ([], [], lambda vals: "Ok tt"))
        self.ty = saved
        return (f"bind (for_unit (topo_nodes {it.value.id}) (fun {s.target.id} =>\n  {body})) (fun _ =>\n  "
                f"{self.stmts(rest, fall)})")

    # ------------------------------------------------------------------ whole function
    def emit(self):
        body = self.stmts(self.node.body, None)
        if self.pre:
            raise Refuse("dangling effects")
        u = "(u : Z) " if self.uses_u else ""
        fuel = "(fuel : nat) " if self.fuel else ""
        binders = " ".join(f"({v} : {COQTY[t]})" for v, t in self.params)
        return "".join(self.loops) + (f"Definition {cname(self.name)} {u}{fuel}{binders} : res ({COQTY[self.ret]}) :=\n"
                                      f"  {body}.\n")


def main(out):
    trees, shas = {}, {}
    for rel in {f for f, _ in TARGETS}:
        txt = open(os.path.join(SRCDIR, rel)).read()
        trees[rel] = ast.parse(txt)
        shas[rel] = hashlib.sha1(txt.encode()).hexdigest()
    sigs, chunks, translated, refused = {}, [], [], {}
    for rel, name in TARGETS:
        defs = [n for n in trees[rel].body if isinstance(n, ast.FunctionDef) and n.name == name]
        try:
            if len(defs) != 1:
                raise Refuse(f"{len(defs)} definitions found")
            fn = Fn(defs[0], sigs)
            code = fn.emit()
            sigs[name] = {"params": fn.params, "ret": fn.ret, "fuel": fn.fuel, "u": fn.uses_u}
            chunks.append(f"(* {rel}::{name} *)\n{code}")
            translated.append(name)
        except Refuse as r:
            refused[name] = str(r)
    with open(out, "w") as fh:
        fh.write("(* GENERATED by bridge/trans_helpers.py from the current source text - do not edit *)\n"
                 "From Coq Require Import ZArith List Bool.\nFrom AV Require Import Kin PyTopo.\n"
                 "Import ListNotations.\nOpen Scope Z_scope.\n\n" + "\n".join(chunks))
    print(json.dumps({"translated": translated, "refused": refused, "source_sha": shas,
                      "signatures": {k: {"fuel": v["fuel"], "u": v["u"], "ret": v["ret"],
                                         "params": v["params"]} for k, v in sigs.items()}}))


if __name__ == "__main__":
    main(sys.argv[1])
