"""Symbolic execution of the NumPy code that sp.lambdify generates.

The source text of the lambdified function (exactly what a user would run) is
executed in a namespace whose `array`, `sqrt`, `einsum`, `select`, ... operate on
NumPy *object* arrays holding SymPy scalars, for one event (axis 0 has length 1).
The result is the per-event symbolic meaning of the generated numerical code.
"""
from __future__ import annotations

import inspect
import itertools

import numpy as np
import sympy as sp


def _vec(f):
    return np.vectorize(f, otypes=[object])


def _einsum(subscripts: str, *ops):
    ins, out = subscripts.replace(" ", "").split("->")
    ins = ins.split(",")
    ops = [np.asarray(o, dtype=object) for o in ops]
    assert len(ins) == len(ops), (subscripts, len(ops))
    # ellipsis = leading broadcast (event) axes, named with capitals, right-aligned
    caps = "ABCDEFGH"
    nell = [op.ndim - len(sub.replace("...", "")) if "..." in sub else 0 for sub, op in zip(ins, ops)]
    kmax = max(nell) if nell else 0
    ins = [sub.replace("...", caps[kmax - k:kmax]) for sub, k in zip(ins, nell)]
    out = out.replace("...", caps[:kmax])
    dims = {}
    for sub, op in zip(ins, ops):
        assert len(sub) == op.ndim, (sub, op.shape)
        for ch, n in zip(sub, op.shape):
            assert dims.setdefault(ch, n) == n
    summed = [c for c in dims if c not in out]
    res = np.empty([dims[c] for c in out], dtype=object)
    for oidx in itertools.product(*[range(dims[c]) for c in out]):
        env = dict(zip(out, oidx))
        tot = sp.Integer(0)
        for sidx in itertools.product(*[range(dims[c]) for c in summed]):
            env.update(zip(summed, sidx))
            term = sp.Integer(1)
            for sub, op in zip(ins, ops):
                term = term * op[tuple(env[c] for c in sub)]
            tot = tot + term
        res[oidx] = tot
    return res


def _select(condlist, choicelist, default=sp.nan):
    conds = [np.asarray(c, dtype=object) for c in condlist]
    vals = [np.asarray(v, dtype=object) for v in choicelist]
    shape = np.broadcast(*conds, *vals).shape
    conds = [np.broadcast_to(c, shape) for c in conds]
    vals = [np.broadcast_to(v, shape) for v in vals]
    out = np.empty(shape, dtype=object)
    for idx in np.ndindex(*shape):
        pairs = []
        for c, v in zip(conds, vals):
            ci = c[idx]
            ci = sp.true if ci is True else (sp.false if ci is False else ci)
            pairs.append((sp.sympify(v[idx]), ci))
        if not any(c is sp.true for _, c in pairs):
            pairs.append((sp.sympify(default), True))
        out[idx] = sp.Piecewise(*pairs, evaluate=False)
    return out


def _ones(shape):
    a = np.empty(shape, dtype=object)
    a.fill(sp.Integer(1))
    return a


def _zeros(shape):
    a = np.empty(shape, dtype=object)
    a.fill(sp.Integer(0))
    return a


NAMESPACE = {
    "array": lambda x: np.array(x, dtype=object),
    "ones": _ones, "zeros": _zeros, "len": len,
    "sqrt": _vec(sp.sqrt), "cos": _vec(sp.cos), "sin": _vec(sp.sin),
    "arccos": _vec(sp.acos), "arcsin": _vec(sp.asin), "arctan": _vec(sp.atan),
    "arctan2": _vec(sp.atan2), "log": _vec(sp.log), "exp": _vec(sp.exp),
    "abs": _vec(sp.Abs), "absolute": _vec(sp.Abs), "conjugate": _vec(sp.conjugate),
    "real": _vec(sp.re), "imag": _vec(sp.im), "sign": _vec(sp.sign),
    "less": _vec(sp.Lt), "less_equal": _vec(sp.Le), "greater": _vec(sp.Gt),
    "greater_equal": _vec(sp.Ge), "equal": _vec(sp.Eq), "not_equal": _vec(sp.Ne),
    "logical_and": _vec(sp.And), "logical_or": _vec(sp.Or), "logical_not": _vec(sp.Not),
    "sum": lambda a, axis=None: np.sum(np.asarray(a, dtype=object), axis=axis),
    "einsum": _einsum, "select": _select, "nan": sp.nan, "pi": sp.pi, "inf": sp.oo,
    "I": sp.I, "True": True, "False": False,
}


def lambdify_source(args, expr, cse: bool) -> str:
    return inspect.getsource(sp.lambdify(args, expr, modules="numpy", cse=cse))


def symexec(args, expr, inputs, cse: bool):
    """Run the generated NumPy code of `expr` on symbolic object-array inputs."""
    src = lambdify_source(args, expr, cse)
    ns = dict(NAMESPACE)
    exec(src, ns)  # noqa: S102 - the code is what sympy printed from /repo's classes
    out = ns["_lambdifygenerated"](*inputs)
    return out, src


def four_vector(prefix: str):
    names = [f"E{prefix}", f"x{prefix}", f"y{prefix}", f"z{prefix}"]
    syms = sp.symbols(" ".join(names), real=True)
    return np.array([list(syms)], dtype=object), syms


def clean_scalar(e):
    """Turn Python complex / float artefacts of `1j*...` into exact SymPy numbers."""
    e = sp.sympify(e)
    return e.xreplace({f: sp.nsimplify(f) for f in e.atoms(sp.Float) if float(f) == int(float(f))})
