"""C15 harness on the IMPLEMENTATION: the REAL pickle round trip is the identity.

  search_C15.py <seed> <n>         last stdout line: JSON
  search_C15.py --replay <file>    JSON {"still_fails": bool}
  search_C15.py --child <file>     (internal) fresh process: load pickles, report srepr/attribute reprs

Cases: random nested instances (C14 generator + helper classes), every class on default arguments,
formulated corpus models (dynamics with non-SymPy attributes, aligned 3-body models); protocols 2..5;
same process and a fresh subprocess started with another PYTHONHASHSEED.
"""
from __future__ import annotations

import base64
import json
import os
import pickle
import subprocess
import sys
import tempfile

import common  # noqa: F401
import gen_uneval as G
import numpy as np
import sympy as sp
import uneval_ir as U

# the last two have chains with a parity prefactor != 1 (their components carry an explicit -1 factor)
MODELS_QUICK = [("jpsi_pipi_2body_hel", "bw_ff", None), ("etac_ll_can", "analytic", None),
                ("jpsi_gpipi_hel", "bw_ff", "dpd"), ("jpsi_3pi_hel", "none", None), ("jpsi_ksp1750_hel", "none", None),
                ("jpsi_gpipi_can", "bw_valueobj", None)]
MODELS_MORE = [("jpsi_gpipi_can", "analytic", "axisangle"), ("jpsi_3pi_hel", "bw_ff", "dpd"),
               ("d0_kkk_hel", "analytic", "dpd"), ("jpsi_ppbar_hel", "none", None), ("lc_pkpi_can", "bw_ff", "dpd"), ("lc_pkpi_hel", "none", None),
               ("jpsi_ksp_can", "bw_ff", "axisangle"), ("psi2s_jpsipipi_hel", "analytic", None),
               ("jpsi_gpipi_f2_hel", "bw_ff", None), ("d0_k3pi_hel", "bw_ff", None)]


def describe(x):
    """Everything that must survive: srepr (structure + assumptions) and the non-SymPy attributes of every node."""
    from ampform.sympy import UnevaluatedExpression

    at = []
    for n in sp.preorder_traversal(x):
        if isinstance(n, UnevaluatedExpression):
            at.append(f"{type(n).__name__}._name={getattr(n, '_name', '<<missing>>')!r}")
        if U.is_decorated(type(n)):
            for f in U.attr_fields(type(n)):
                v = getattr(n, f.name, "<<missing>>")
                at.append(f"{type(n).__name__}.{f.name}={type(v).__name__}:{U.attr_ir(v) if v != '<<missing>>' else v}")
    return {"srepr": sp.srepr(x), "attrs": at}


def compare_obj(x, back):
    if type(back) is not type(x):
        return f"type {type(x).__name__} -> {type(back).__name__}"
    if not (back == x and x == back):
        return f"loaded object != original: {str(back)[:120]} vs {str(x)[:120]}"
    if hash(back) != hash(x):
        return "hash differs after the round trip"
    a, b = describe(x), describe(back)
    if a["srepr"] != b["srepr"]:
        return f"srepr differs: {b['srepr'][:120]} vs {a['srepr'][:120]}"
    if a["attrs"] != b["attrs"]:
        return f"non-SymPy attributes differ: {b['attrs'][:4]} vs {a['attrs'][:4]}"
    return None


def cross_process(blobs, seed):
    """Load the pickles in a fresh interpreter with another hash seed; returns list of describe() or error."""
    with tempfile.NamedTemporaryFile("w", suffix=".json", delete=False) as f:
        json.dump([base64.b64encode(b).decode() for b in blobs], f)
        path = f.name
    env = dict(os.environ)
    env["PYTHONHASHSEED"] = str(1000 + seed % 1000)
    try:
        p = subprocess.run([sys.executable, os.path.abspath(__file__), "--child", path], env=env,
                           capture_output=True, text=True, timeout=900)
        lines = [l for l in p.stdout.splitlines() if l.startswith("[")]
        if not lines:
            return [{"error": "child failed: " + p.stderr[-300:]}] * len(blobs)
        return json.loads(lines[-1])
    finally:
        os.unlink(path)


def child(path):
    out = []
    for b in json.load(open(path)):
        try:
            x = pickle.loads(base64.b64decode(b))  # noqa: S301
            if isinstance(x, sp.Basic):
                out.append(describe(x))
            else:
                out.append(describe_model(x))
        except Exception as e:  # noqa: BLE001
            out.append({"error": type(e).__name__ + ": " + str(e)[:200]})
    print(json.dumps(out))


# ---------------------------------------------------------------- models
def build_model(name, dyn, align):
    try:
        return _build_model(name, dyn, align)
    except ValueError:
        if dyn != "bw_ff":
            raise
        # form factors need L (defined in the canonical formalism only): analytic Breit-Wigner instead
        return _build_model(name, "analytic", align)


def _build_model(name, dyn, align):
    import ampform
    import reactions
    from ampform.dynamics.builder import create_analytic_breit_wigner, create_relativistic_breit_wigner_with_ff

    r = reactions.load(name)
    if align == "dpd":
        from ampform.helicity.align.dpd import DalitzPlotDecomposition, relabel_edge_ids

        r = relabel_edge_ids(r)
    b = ampform.get_builder(r)
    if align == "dpd":
        b.config.spin_alignment = DalitzPlotDecomposition(reference_subsystem=1)
    elif align == "axisangle":
        from ampform.helicity.align.axisangle import AxisAngleAlignment

        b.config.spin_alignment = AxisAngleAlignment()
    if dyn == "bw_valueobj":
        from ampform.dynamics.builder import RelativisticBreitWignerBuilder

        # phsp_factor = a callable INSTANCE with value semantics and default repr (new object after unpickling)
        f = RelativisticBreitWignerBuilder(energy_dependent_width=True, form_factor=True, phsp_factor=U.ValueObj("1/2"))
        for p in r.get_intermediate_particles().names:
            b.dynamics.assign(p, f)
    elif dyn != "none":
        f = create_relativistic_breit_wigner_with_ff if dyn == "bw_ff" else create_analytic_breit_wigner
        for p in r.get_intermediate_particles().names:
            b.dynamics.assign(p, f)
    return b.formulate()


MODEL_ATTRS = ["intensity", "amplitudes", "parameter_defaults", "kinematic_variables", "components", "reaction_info"]


def describe_model(m):
    d = {}
    for a in MODEL_ATTRS:
        v = getattr(m, a)
        if isinstance(v, sp.Basic):
            d[a] = describe(v)
        elif hasattr(v, "items"):
            d[a] = [[sp.srepr(k) if isinstance(k, sp.Basic) else repr(k),
                     describe(x) if isinstance(x, sp.Basic) else repr(x)] for k, x in v.items()]
        else:
            d[a] = repr(v)[:2000]
    return d


def compare_model(m, back):
    if type(back) is not type(m):
        return "type", f"{type(m).__name__} -> {type(back).__name__}"
    for a in MODEL_ATTRS:
        x, y = getattr(m, a), getattr(back, a)
        if hasattr(x, "items"):
            if type(x) is not type(y):
                return a, f"{a}: container type {type(x).__name__} -> {type(y).__name__}"
            if list(x.keys()) != list(y.keys()):
                return a + "_order", f"{a}: keys/order differ after the round trip"
        if not (x == y):
            return a, f"{a} != original after the round trip"
    if describe_model(m) != describe_model(back):
        return "srepr", "an attribute prints (srepr / non-SymPy attributes) differently after the round trip"
    if back != m:
        return "eq", "model != original"
    return None


def numeric_model(m, back, seed):
    """A few amplitudes / kinematic variables evaluated on the same random inputs: identical arrays."""
    rng = np.random.default_rng(seed)
    done = 0
    for (k1, e1), (k2, e2) in list(zip(m.amplitudes.items(), back.amplitudes.items()))[:2]:
        u1, u2 = e1.doit(), e2.doit()
        syms = sorted(u1.free_symbols, key=str)
        if sorted(u2.free_symbols, key=str) != syms:
            return "free symbols of an unfolded amplitude differ"
        try:
            f1, f2 = sp.lambdify(syms, u1, "numpy", cse=True), sp.lambdify(syms, u2, "numpy", cse=True)
            pts = [rng.integers(8, 64, size=3) / 16.0 for _ in syms]
            a, b = np.asarray(f1(*pts), dtype=complex), np.asarray(f2(*pts), dtype=complex)
        except Exception:  # noqa: BLE001
            continue
        if not np.array_equal(a, b, equal_nan=True):
            return f"amplitude {k1} evaluates differently after the round trip"
        done += 1
    kv1, kv2 = list(m.kinematic_variables.items()), list(back.kinematic_variables.items())
    for (k1, e1), (k2, e2) in list(zip(kv1, kv2))[:3]:
        syms = sorted(e1.free_symbols, key=str)
        try:
            f1 = sp.lambdify(syms, e1.doit(), "numpy", cse=True)
            f2 = sp.lambdify(syms, e2.doit(), "numpy", cse=True)
            pts = []
            for _ in syms:
                p3 = rng.integers(-16, 16, size=(4, 3)) / 8.0
                en = np.sqrt((p3 ** 2).sum(axis=1) + 0.25)
                pts.append(np.concatenate([en[:, None], p3], axis=1))
            a, b = np.asarray(f1(*pts), dtype=complex), np.asarray(f2(*pts), dtype=complex)
        except Exception:  # noqa: BLE001
            continue
        if not np.array_equal(a, b, equal_nan=True):
            return f"kinematic variable {k1} evaluates differently after the round trip"
        done += 1
    return None if done else "SKIP"


# ---------------------------------------------------------------- cases
def run_case(c, seed=0):
    """-> failure (signature, what) | None"""
    kind = c["kind"]
    if kind in ("instance", "default"):
        if kind == "instance":
            x = U.from_ir(tup(c["ir"]))
        else:
            x = G.default_instances()[c["index"]]
        try:
            blob = pickle.dumps(x, protocol=c["proto"])
            back = pickle.loads(blob)  # noqa: S301
        except Exception as e:  # noqa: BLE001
            return ("pickle_exception_" + type(e).__name__, f"pickling {str(x)[:100]} raises {type(e).__name__}: {str(e)[:120]}")
        why = compare_obj(x, back)
        if not why and len({x, back}) != 1:
            why = "original and loaded object are two different members of a set"
        if why:
            return ("pickle_instance_differs", f"{type(x).__name__} {str(x)[:100]} (protocol {c['proto']}): {why}")
        if c.get("cross"):
            r = cross_process([blob], seed)[0]
            if "error" in r:
                return ("pickle_cross_process_error", f"{str(x)[:100]}: {r['error']}")
            if r != describe(x):
                return ("pickle_cross_process_differs", f"{str(x)[:100]} loads differently in a fresh process")
        return None
    if kind == "arrayslice_shape":
        from ampform.sympy._array_expressions import ArraySlice, ArraySymbol

        x = ArraySlice(ArraySymbol("p", shape=(3, 4)), (slice(None), 0))
        try:
            ok = pickle.loads(pickle.dumps(x)) == x and x.func(*x.args) == x  # noqa: S301
        except TypeError:
            ok = False
        return None if ok else ("arrayslice_known_shape_not_rebuildable",
                                "ArraySlice(ArraySymbol('p',(3,4)),(slice(None),0)): func(*args) / pickle round trip raise TypeError")
    if kind == "model":
        m = build_model(c["name"], c["dyn"], c["align"])
        blob = pickle.dumps(m, protocol=c["proto"])
        back = pickle.loads(blob)  # noqa: S301
        why = compare_model(m, back)
        tag = f"model {c['name']} dyn={c['dyn']} align={c['align']} protocol {c['proto']}"
        if why:
            return ("pickle_model_" + why[0], f"{tag}: {why[1]}")
        n = numeric_model(m, back, c.get("point_seed", 1))
        if n and n != "SKIP":
            return ("pickle_model_numeric", f"{tag}: {n}")
        if c.get("cross"):
            r = cross_process([blob], seed)[0]
            if "error" in r:
                return ("pickle_cross_process_error", f"{tag}: {r['error']}")
            if r != describe_model(m):
                bad = [a for a in MODEL_ATTRS if r.get(a) != describe_model(m)[a]]
                return ("pickle_cross_process_differs", f"{tag}: attributes {bad} load differently in a fresh process")
        return None
    return None


def tup(x):
    return tuple(tup(i) for i in x) if isinstance(x, list) else x


def main():
    if sys.argv[1] == "--child":
        child(sys.argv[2])
        return
    if sys.argv[1] == "--replay":
        doc = json.load(open(sys.argv[2]))
        fail = run_case(doc["replay"]["case"])
        print(json.dumps({"still_fails": fail is not None, "what": fail[1] if fail else ""}))
        return
    seed, n = int(sys.argv[1]), int(sys.argv[2])
    g = G.Gen(seed * 15485863 + 3, helpers=True, picklable=True)
    cases = []
    bz = ("U", "ampform.kinematics.lorentz.BoostZMatrix",
          (("Y", "Symbol('b')"), ("U", "ampform.kinematics.lorentz.ArraySize", (("Y", "Symbol('p0')"),), ())), ())
    cases.append({"kind": "instance", "ir": bz, "proto": 4, "cross": True})
    sy = lambda n: ("Y", f"Symbol('{n}')")  # noqa: E731
    edw = ("U", "ampform.dynamics.EnergyDependentWidth",
           (sy("s"), sy("m0"), sy("w0"), sy("m1"), sy("m2"), ("N", 1, 1), ("N", 1, 1)),
           (("o", "uneval_ir.ValueObj(1/2)"), ("s", "Gamma")))
    cases.append({"kind": "instance", "ir": edw, "proto": 3, "cross": True})
    cases.append({"kind": "instance", "ir": ("A", "sympy.core.add.Add", (sy("x"), ("A", "sympy.core.power.Pow", (edw, ("N", 2, 1))))),
                  "proto": 5, "cross": False})
    cases.append({"kind": "arrayslice_shape"})
    for i in range(len(G.default_instances())):
        cases.append({"kind": "default", "index": i, "proto": 2 + i % 4, "cross": i % 6 == 0})
    k = 0
    while k < n:
        obj, ir = g.tree(g.r.choice([1, 2, 3, 3, 4]))
        if U.ir_size(ir) > 300:
            continue
        cases.append({"kind": "instance", "ir": ir, "proto": g.r.choice([2, 3, 4, 5]), "cross": k % 10 == 0})
        k += 1
    models = MODELS_QUICK + (MODELS_MORE if n > 100 else [])
    for j, (name, dyn, align) in enumerate(models):
        cases.append({"kind": "model", "name": name, "dyn": dyn, "align": align, "proto": 2 + (j + seed) % 4,
                      "cross": j % 2 == 0, "point_seed": seed + j})
    fails, kinds, samples, ev, seen = [], {}, [], 0, set()
    for c in cases:
        try:
            fail = run_case(c, seed)
        except (U.IRError,) as e:
            fail = ("harness_ir_error", str(e)[:200])
        except Exception as e:  # noqa: BLE001
            fail = ("harness_exception_" + type(e).__name__, f"{c.get('name', c['kind'])}: {type(e).__name__}: {str(e)[:200]}")
        ev += 1
        kk = c["kind"] + ("+fresh_process" if c.get("cross") else "")
        kinds[kk] = kinds.get(kk, 0) + 1
        seen.add(json.dumps(c, sort_keys=True))
        if len(samples) < 6 and c["kind"] != "default":
            samples.append({k2: (str(v)[:100]) for k2, v in c.items() if k2 != "ir"} |
                           ({"expr": str(U.from_ir(tup(c["ir"])))[:100]} if "ir" in c else {}))
        if fail and not any(f["signature"] == fail[0] for f in fails):
            fails.append({"signature": fail[0], "what": fail[1], "case": c})
    print(json.dumps({"evaluations": ev, "distinct": len(seen), "samples": samples, "kinds": kinds, "failures": fails}))


if __name__ == "__main__":
    main()
