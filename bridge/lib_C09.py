"""Shared by search_C09.py / search_C10.py: make history-dependent failures replayable.

A failure found in the middle of a long harness run may depend on calls made earlier in the same
process (memoised matrices, SymPy's global cache).  `./check --replay` runs one stored case in a fresh
process, so before a failure is reported it is re-run in a fresh subprocess; if it does not reproduce
alone, the shortest prefix found among (one earlier case | all earlier cases) is stored in the case
under "_prefix" and re-run on replay.  Self-contained failures are listed first."""
from __future__ import annotations

import json
import os
import subprocess
import sys
import tempfile


def _reproduces(script: str, case: dict, signature: str, prefix: list) -> bool:
    doc = {"signature": signature, "replay": {"case": dict(case, _prefix=prefix) if prefix else case}}
    with tempfile.NamedTemporaryFile("w", suffix=".json", delete=False) as fh:
        json.dump(doc, fh)
        path = fh.name
    try:
        p = subprocess.run([sys.executable, script, "--replay", path], capture_output=True, text=True,
                           timeout=900, env=dict(os.environ))
        lines = [l for l in p.stdout.splitlines() if l.startswith("{")]
        return bool(lines) and bool(json.loads(lines[-1]).get("still_fails"))
    except Exception:  # noqa: BLE001
        return False
    finally:
        os.unlink(path)


def make_replayable(script: str, cases: list, failures: list, skip=(), max_check: int = 5, max_single: int = 12):
    """failures: [{"signature", "what", "case", "idx"}] (one per signature, in order of discovery)."""
    alone, with_prefix, unchecked, lost = [], [], [], []
    checked = 0
    for f in failures:
        idx = f.pop("idx", None)
        if f["signature"] in skip:
            alone.append(f)
            continue
        if checked >= max_check or idx is None:
            unchecked.append(f)
            continue
        checked += 1
        if _reproduces(script, f["case"], f["signature"], []):
            alone.append(f)
            continue
        found = None
        for j in list(range(idx - 1, -1, -1))[:max_single]:
            if _reproduces(script, f["case"], f["signature"], [cases[j]]):
                found = [cases[j]]
                break
        if found is None and idx > 0 and _reproduces(script, f["case"], f["signature"], cases[:idx]):
            found = cases[:idx]
        if found is None:
            f["what"] += " [not reproduced in a fresh process, with or without the earlier cases of this run]"
            lost.append(f)
        else:
            f["case"] = dict(f["case"], _prefix=found)
            f["what"] += f" [depends on {len(found)} earlier call(s) in the same process: stored as _prefix and re-run on replay]"
            with_prefix.append(f)
    return alone + with_prefix + unchecked + lost


def run_with_prefix(run_case, case: dict):
    """Replay: re-run the stored prefix (results ignored), then the case itself."""
    for pc in case.get("_prefix", []):
        try:
            run_case(pc)
        except Exception:  # noqa: BLE001
            pass
    return run_case({k: v for k, v in case.items() if k != "_prefix"})
