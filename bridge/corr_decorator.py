"""Correspondence for the TRANSLATED helpers: generated Gallina (build/C14/Gen_decorator.v, vm_compute) vs the
real Python helpers of ampform.sympy._decorator on the same random inputs (ties the object model to reality).

  corr_decorator.py gen <seed> <n> <outdir>   -> Cases_decorator.v + cases_decorator.json
  corr_decorator.py cmp <outdir>              -> JSON {"compared", "agree", "failures"}
"""
from __future__ import annotations

import dataclasses
import fractions
import functools
import json
import os
import random
import sys

import common  # noqa: F401
import sympy as sp
import uneval_ir as U
from ampform.sympy import _decorator as D
from ampform.sympy import argument, unevaluated


def cs(s):
    return U.cstr(s)


# ------------------------------------------------------------------ _get_hashable_object
@dataclasses.dataclass(frozen=True)
class Frozen:
    a: int


class Plain:
    def method(self):
        return 1


def objects(r):
    f1, f2 = U.CLOSURE_A, U.CLOSURE_B
    pool = [
        (None, "PNone"), (type(None), 'PClass "builtins.NoneType"'), (Plain, f'PClass {cs(U.qual(Plain))}'),
        (sp.Symbol, f'PClass {cs(U.qual(sp.Symbol))}'),
        (f1, f'PHash KFunction "f1" {cs(U.qual(f1))}'), (f2, f'PHash KFunction "f2" {cs(U.qual(f2))}'),
        (U.pool_function, f'PHash KFunction "pf" {cs(U.qual(U.pool_function))}'),
        (U.LAMBDA_A[0], f'PHash KFunction "l0" {cs(U.qual(U.LAMBDA_A[0]))}'),
        (len, 'PHash KBuiltinFn "len" "builtins.len"'), (Plain().method, 'PHash KMethod "m" "Plain.method"'),
        (functools.partial(U.pool_function, 1), 'PHash KPartial "p" "functools.partial"'),
        (U.ValueObj(2), 'PHash KCallableObj "v2" "uneval_ir.ValueObj"'), (Frozen(3), 'PHash KValueObj "fr3" "Frozen"'),
        ("rho", 'PHash KStrK "rho" "builtins.str"'), ("builtins.NoneType", 'PHash KStrK "builtins.NoneType" "builtins.str"'),
        (7, 'PHash KNumK "7" "builtins.int"'), (2.5, 'PHash KNumK "2.5" "builtins.float"'),
        (sp.Symbol("x"), 'PHash KSympyK "x" "sympy.Symbol"'), (fractions.Fraction(1, 2), 'PHash KValueObj "1/2" "Fraction"'),
        (["a", "b"], f'PUnhash {cs(str(["a", "b"]))}'), ({"k": 1}, f'PUnhash {cs(str({"k": 1}))}'),
    ]
    return pool


def hashable_case(obj):
    try:
        k = D._get_hashable_object(obj)
    except Exception as e:  # noqa: BLE001
        return "EXC:" + type(e).__name__
    if k is obj:
        return "O"
    if isinstance(k, str):
        # the string value is compared only where the model knows it (classes, None, unhashables)
        exact = obj is None or isinstance(obj, type) or isinstance(obj, (list, dict))
        return "S:" + (k if exact else "?")
    return "OTHER"


# ------------------------------------------------------------------ new_method / _extract_field_values / _get_arguments
def make_class(r, idx):
    n = r.randint(2, 6)
    ndef = r.randint(0, n - 1)
    spec = []
    for i in range(n):
        sym = r.random() < 0.7
        default = i >= n - ndef
        spec.append((f"f{i}", sym, default))
    ann, ns = {}, {}
    for name, sym, default in spec:
        ann[name] = "Any"
        if default and sym:
            ns[name] = 100 + int(name[1:])
        elif default:
            ns[name] = argument(default=100 + int(name[1:]), sympify=False)
        elif not sym:
            ns[name] = argument(sympify=False)
    ns["__annotations__"] = ann
    ns["evaluate"] = lambda self: sp.S.One
    cls = unevaluated(type(f"Dyn{idx}", (sp.Expr,), ns))
    return cls, spec


def val_py(tok, r):
    return sp.Symbol(f"v{tok}") if tok % 2 else tok


def val_coq(tok):
    return f'VSym "v{tok}"' if tok % 2 else f'VRaw "{tok}"'


def show_py(v):
    if isinstance(v, sp.Basic):
        return "sym:" + str(v)
    return "raw:" + str(v)


def new_case(r, idx):
    cls, spec = make_class(r, idx)
    n = len(spec)
    npos = r.choice([0, 1, r.randint(0, n), n, n + 1]) if r.random() < 0.9 else n + 2
    toks = iter(r.sample(range(2, 90), 2 * n + 4))
    pos = [next(toks) for _ in range(npos)]
    rest = [name for name, _, _ in spec[min(npos, n):]]
    chosen = [nm for nm in rest if r.random() < 0.7]
    r.shuffle(chosen)
    kw = [(nm, next(toks)) for nm in chosen]
    try:
        x = cls(*[val_py(t, r) for t in pos], **{k: val_py(t, r) for k, t in kw})
        got = ("OK args=" + ",".join(show_py(a) for a in x.args) + " attrs="
               + ",".join(f"{nm}={show_py(getattr(x, nm))}" for nm, _, _ in spec)
               + " newargs=" + ",".join(show_py(a) for a in x.__getnewargs__()))
    except ValueError as e:
        m = str(e)
        got = "ERR0" if m.startswith("Expecting") else ("ERR1 " + m.split(": ", 1)[1] if m.startswith("Missing") else "ERR? " + m[:40])
    except Exception as e:  # noqa: BLE001
        got = "EXC:" + type(e).__name__
    fields = "; ".join(
        f'{{| pf_name := "{nm}"; pf_default := {("VRaw " + chr(34) + str(100 + int(nm[1:])) + chr(34)) if d else "VMissing"}; '
        f'pf_sym := {"true" if s else "false"} |}}' for nm, s, d in spec)
    coq = (f"show_new [{fields}] (gen_new_method [{fields}] [{'; '.join(val_coq(t) for t in pos)}] "
           f"[{'; '.join(f'({cs(k)}, {val_coq(t)})' for k, t in kw)}] false)")
    return got, coq, {"spec": spec, "pos": pos, "kw": kw}


HEADER = """(* GENERATED correspondence cases for the translated decorator helpers — do not edit. *)
From Coq Require Import String List Bool Arith.
From AV Require Import PyModel.
From AVchk Require Import Gen_decorator.
Import ListNotations.
Open Scope string_scope.
Set Printing Width 1000000.
Set Printing Depth 1000000.
Definition show_hkey (k : hkey) : string :=
  match k with
  | KStr s => String.append "S:" s
  | KObj _ => "O"
  end.
Definition show_hk (o : pyobj) (exact : bool) : string :=
  match gen__get_hashable_object o with
  | KStr s => if exact then String.append "S:" s else "S:?"
  | KObj o' => "O"
  end.
Definition show_val (v : pval) : string :=
  match v with VMissing => "MISSING" | VRaw s => String.append "raw:" s | VSym s => String.append "sym:" s | VObj _ => "obj" end.
Definition join (l : list string) : string := String.concat "," l.
Definition show_new (cls : list pfield) (r : result pinst) : string :=
  match r with
  | Err 0 _ => "ERR0"
  | Err _ ns => String.append "ERR1 " (String.concat ", " ns)
  | Ok x => String.append "OK args=" (String.append (join (map show_val (i_args x)))
            (String.append " attrs=" (String.append (join (map (fun f => String.append (pf_name f) (String.append "=" (show_val (get_attr x (pf_name f))))) cls))
            (String.append " newargs=" (join (map show_val (gen__get_arguments x)))))))
  end.
"""


def gen(seed, n, outdir):
    r = random.Random(seed * 31337 + 77)
    cases, evs = [], []
    for obj, term in objects(r):
        exact = obj is None or isinstance(obj, type) or isinstance(obj, (list, dict))
        cases.append({"op": "hashable", "input": term, "impl": hashable_case(obj)})
        evs.append(f"show_hk ({term}) {'true' if exact else 'false'}")
    for i in range(n):
        got, coq, info = new_case(r, i)
        cases.append({"op": "new_method", "input": info, "impl": got})
        evs.append(coq)
    with open(os.path.join(outdir, "Cases_decorator.v"), "w") as f:
        f.write(HEADER + "Definition outs : list string := [\n  " + ";\n  ".join(evs)
                + '].\nEval vm_compute in (String.concat "@" outs).\n')
    with open(os.path.join(outdir, "cases_decorator.json"), "w") as f:
        json.dump(cases, f)
    print(json.dumps({"files": ["Cases_decorator.v"], "evals": len(cases)}))


def cmp(outdir):
    cases = json.load(open(os.path.join(outdir, "cases_decorator.json")))
    res = U.coq_outputs(open(os.path.join(outdir, "Cases_decorator.out")).read())
    fails = []
    if len(res) != 1 or len(res[0].split("@")) != len(cases):
        print(json.dumps({"compared": 0, "agree": 0, "failures": [
            {"signature": "corr_decorator_output", "what": "generated model could not be evaluated", "case": {}}]}))
        return
    agree = 0
    for c, o in zip(cases, res[0].split("@")):
        if o == c["impl"]:
            agree += 1
        elif len(fails) < 3:
            fails.append({"signature": "corr_decorator_" + c["op"],
                          "what": f"translated {c['op']}: generated model gives {o[:150]!r}, Python gives {c['impl'][:150]!r}",
                          "case": {"op": c["op"], "input": c["input"], "decorator": True}})
    print(json.dumps({"compared": len(cases), "agree": agree, "failures": fails}))


if __name__ == "__main__":
    if sys.argv[1] == "gen":
        gen(int(sys.argv[2]), int(sys.argv[3]), sys.argv[4])
    else:
        cmp(sys.argv[2])
