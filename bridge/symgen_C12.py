"""C12 model regeneration: energy-dependent width, form factor, Blatt-Weisskopf polynomials,
builder expressions vs public lineshape functions."""
import sys

import common  # noqa: F401
import sympy as sp
from ser import ser

common.assert_repo_import()
import qrules  # noqa: E402
from ampform.dynamics import (  # noqa: E402
    EnergyDependentWidth,
    FormFactor,
    relativistic_breit_wigner,
    relativistic_breit_wigner_with_ff,
)
from ampform.dynamics.builder import (  # noqa: E402
    RelativisticBreitWignerBuilder,
    TwoBodyKinematicVariableSet,
    create_analytic_breit_wigner,
    create_relativistic_breit_wigner,
    create_relativistic_breit_wigner_with_ff,
)
from ampform.dynamics.form_factor import BlattWeisskopfSquared  # noqa: E402
from ampform.dynamics.phasespace import (  # noqa: E402
    EqualMassPhaseSpaceFactor,
    PhaseSpaceFactor,
    PhaseSpaceFactorAbs,
    PhaseSpaceFactorComplex,
    PhaseSpaceFactorSWave,
)

out = sys.argv[1]
LMAX = int(sys.argv[2]) if len(sys.argv) > 2 else 10
s, m0, g0, ma, mb, L, d, z = sp.symbols("s m0 g0 ma mb L d z")
rhoX = sp.Function("rhoX")
PHSP = {"rhoX": rhoX, "PhaseSpaceFactor": PhaseSpaceFactor, "PhaseSpaceFactorAbs": PhaseSpaceFactorAbs,
        "PhaseSpaceFactorComplex": PhaseSpaceFactorComplex, "PhaseSpaceFactorSWave": PhaseSpaceFactorSWave,
        "EqualMassPhaseSpaceFactor": EqualMassPhaseSpaceFactor}

lines = ["(* GENERATED on every run from /repo by bridge/symgen_C12.py *)",
         "From AV Require Import Ast.", "From Coq Require Import ZArith QArith.", "Open Scope string_scope.", ""]

# 1. energy-dependent width: one-level evaluate(), FormFactor and rho left as opaque nodes
edw = []
for name, cls in PHSP.items():
    tree = EnergyDependentWidth(s, m0, g0, ma, mb, L, d, phsp_factor=cls).evaluate()
    edw.append(f'({ser(name)[11:-2] if False else chr(34) + name + chr(34)}, {ser(tree)})')
lines.append("Definition gen_edw : list (string * expr) :=\n  [" + ";\n   ".join(edw) + "].\n")

# 1b. numbers inserted into the constructor BEFORE evaluate() (exact values that coincide with other arguments):
#     the tree must be the symbolic tree at those values
from ser import qlit  # noqa: E402

INST = [("s=1,d=1,L=2", {s: sp.Integer(1), d: sp.Integer(1), L: sp.Integer(2)}),
        ("s=2,L=2", {s: sp.Integer(2), L: sp.Integer(2)}),
        ("s=3,d=3,L=1", {s: sp.Integer(3), d: sp.Integer(3), L: sp.Integer(1)}),
        ("s=1/2,d=1/2", {s: sp.Rational(1, 2), d: sp.Rational(1, 2)}),
        ("s=4,L=4,d=4", {s: sp.Integer(4), L: sp.Integer(4), d: sp.Integer(4)})]
numfirst = []
for name, cls in PHSP.items():
    sym_tree = EnergyDependentWidth(s, m0, g0, ma, mb, L, d, phsp_factor=cls).evaluate()
    for tag, sub in INST:
        args = [sub.get(v, v) for v in (s, m0, g0, ma, mb, L, d)]
        num_tree = EnergyDependentWidth(*args, phsp_factor=cls).evaluate()
        assign = "; ".join(f'("{k.name}", {qlit(__import__("fractions").Fraction(int(v.p), int(v.q)))[5:-1]})' for k, v in sub.items())
        numfirst.append(f'("{name} {tag}", [{assign}], {ser(sym_tree)}, {ser(num_tree)})')
lines.append("Definition gen_edw_numeric_first : list (string * list (string * Q) * expr * expr) :=\n  ["
             + ";\n   ".join(numfirst) + "].\n")

# 2. form factor, one level
lines.append(f"Definition gen_ff : expr :=\n  {ser(FormFactor(s, ma, mb, L, d).evaluate())}.\n")

# 3. Blatt-Weisskopf fast polynomial path with certificate (c, [d0..dL]) read off the tree
bw = []
for ell in range(LMAX + 1):
    tree = BlattWeisskopfSquared(z, ell).evaluate()
    num, den = sp.fraction(sp.together(tree))
    pn, pd = sp.Poly(num, z), sp.Poly(den, z)
    lead = pd.LC()
    c = sp.Rational(pn.LC(), lead)
    ds = [sp.Rational(v, lead) for v in reversed(pd.all_coeffs())]
    assert pn.monoms() == [(ell,)] and c.q == 1 and all(v.q == 1 for v in ds), (ell, tree)
    bw.append(f"({ell}%nat, {ser(tree)}, ({int(c)}%Z, [" + "; ".join(f"{int(v)}%Z" for v in ds) + "]))")
lines.append("Definition gen_bw : list (nat * expr * (Z * list Z)) :=\n  [" + ";\n   ".join(bw) + "].\n")

# 4. builders vs public functions
particle = qrules.particle.Particle(name="R", latex="R", pid=99, spin=1, mass=1.5, width=0.25)
pool = TwoBodyKinematicVariableSet(
    incoming_state_mass=sp.Symbol("m_12", nonnegative=True),
    outgoing_state_mass1=sp.Symbol("m_1", nonnegative=True),
    outgoing_state_mass2=sp.Symbol("m_2", nonnegative=True),
    helicity_theta=sp.Symbol("theta"), helicity_phi=sp.Symbol("phi"), angular_momentum=sp.Symbol("L"),
)
mR = sp.Symbol("m_{R}", nonnegative=True)
gR = sp.Symbol(R"\Gamma_{R}", nonnegative=True)
dR = sp.Symbol("d_{R}", positive=True)
S = pool.incoming_state_mass**2
M1, M2, LL = pool.outgoing_state_mass1, pool.outgoing_state_mass2, pool.angular_momentum
pairs, defaults_report = [], []


def add(tag, built, func, want_defaults):
    expr, defaults = built
    pairs.append(f'({chr(34)}{tag}{chr(34)}, {ser(expr)}, {ser(func)})')
    got = {k.name: (float(v), sorted(k.assumptions0.items())) for k, v in defaults.items()}
    want = {k.name: (float(v), sorted(k.assumptions0.items())) for k, v in want_defaults.items()}
    defaults_report.append((tag, got == want, got, want))


D_BW = {mR: particle.mass, gR: particle.width}
D_ALL = {mR: particle.mass, gR: particle.width, dR: 1}
add("bw", RelativisticBreitWignerBuilder()(particle, pool), relativistic_breit_wigner(S, mR, gR), D_BW)
add("bw_ff", RelativisticBreitWignerBuilder(form_factor=True)(particle, pool),
    FormFactor(S, M1, M2, LL, dR) * relativistic_breit_wigner(S, mR, gR), D_ALL)
for name, cls in PHSP.items():
    full = relativistic_breit_wigner_with_ff(S, mR, gR, M1, M2, LL, dR, phsp_factor=cls)
    add(f"edw_ff/{name}", RelativisticBreitWignerBuilder(True, True, cls)(particle, pool), full, D_ALL)
    add(f"edw/{name}", RelativisticBreitWignerBuilder(False, True, cls)(particle, pool),
        full / FormFactor(S, M1, M2, LL, dR), D_ALL)
add("create_relativistic_breit_wigner", create_relativistic_breit_wigner(particle, pool),
    relativistic_breit_wigner(S, mR, gR), D_BW)
add("create_relativistic_breit_wigner_with_ff", create_relativistic_breit_wigner_with_ff(particle, pool),
    relativistic_breit_wigner_with_ff(S, mR, gR, M1, M2, LL, dR, phsp_factor=PhaseSpaceFactor), D_ALL)
add("create_analytic_breit_wigner", create_analytic_breit_wigner(particle, pool),
    relativistic_breit_wigner_with_ff(S, mR, gR, M1, M2, LL, dR, phsp_factor=EqualMassPhaseSpaceFactor), D_ALL)
lines.append("Definition gen_builder_pairs : list (string * expr * expr) :=\n  [" + ";\n   ".join(pairs) + "].\n")
ok = all(r[1] for r in defaults_report)
lines.append(f"Definition gen_builder_defaults_ok : bool := {'true' if ok else 'false'}.\n")
with open(out, "w") as f:
    f.write("\n".join(lines))
print("ok pairs", len(pairs), "bw", len(bw), "defaults_ok", ok)
for r in defaults_report:
    if not r[1]:
        print("DEFAULTS MISMATCH", r)
