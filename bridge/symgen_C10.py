"""C10 model regeneration: F-vectors of NonRelativisticPVector / RelativisticPVector in the symbols
K[i, j], P[i, 0], rho_i; the fully parametrised results of all four K-matrix classes built with MARKER
arguments (phsp_factor=rhoX, angular_momentum=Lx, meson_radius=dx); the one-channel one-pole
results next to the library's Breit-Wigner functions.

usage: symgen_C10.py <out.v> [n1,n2,...]      (default sizes 1,2; "3" = non-relativistic 3 channels only)
"""
import sys
import time

import common  # noqa: F401
import sympy as sp
from ser import count_nodes, ser

common.assert_repo_import()
from ampform.dynamics import (  # noqa: E402
    EnergyDependentWidth,
    relativistic_breit_wigner,
    relativistic_breit_wigner_with_ff,
)
from ampform.dynamics.kmatrix import (  # noqa: E402
    NonRelativisticKMatrix,
    NonRelativisticPVector,
    RelativisticKMatrix,
    RelativisticPVector,
)

out = sys.argv[1]
sizes = [int(x) for x in sys.argv[2].split(",")] if len(sys.argv) > 2 else [1, 2]


def vec(m) -> str:
    return "[" + ";\n   ".join(ser(e) for e in m) + "]"


def expand_sums(e):
    """Sum(f(R), (R, 1, n)) -> f(1) + ... + f(n) without evaluating the summand."""
    return e.replace(lambda x: isinstance(x, sp.Sum), lambda x: x.doit(deep=False))


lines = ["(* GENERATED on every run from /repo by bridge/symgen_C10.py - do not edit *)",
         "From AV Require Import Ast.", "Open Scope string_scope.", ""]
report = {}
if sizes == [3]:
    t0 = time.time()
    f = NonRelativisticPVector.formulate(3, 1, parametrize=False)
    assert f.shape == (3, 1)
    lines.append(f"Definition gen_nr_F3 : list expr :=\n  {vec(f)}.\n")
    report["nr_F3"] = sum(count_nodes(e) for e in f)
    report["t3"] = round(time.time() - t0, 1)
else:
    for n in sizes:
        f_nr = NonRelativisticPVector.formulate(n, 1, parametrize=False)
        f_rel = RelativisticPVector.formulate(n, 1, parametrize=False)
        f_hat = RelativisticPVector.formulate(n, 1, parametrize=False, return_f_hat=True)
        for tag, m in (("nr_F", f_nr), ("rel_F", f_rel), ("rel_Fhat", f_hat)):
            assert m.shape == (n, 1), (tag, m.shape)
            lines.append(f"Definition gen_{tag}{n} : list expr :=\n  {vec(m)}.\n")
            report[f"{tag}{n}"] = sum(count_nodes(e) for e in m)

    # ---- parametrised results with marker arguments ----
    rhoX = sp.Function("rhoX")
    Lx, dx = sp.Symbol("Lx"), sp.Symbol("dx")
    npoles = sp.Symbol("n_poles", integer=True, positive=True)
    mk = dict(phsp_factor=rhoX, angular_momentum=Lx, meson_radius=dx)
    marked = []
    for name, cls, flags in (
        ("NonRelativisticKMatrix", NonRelativisticKMatrix, [{}]),
        ("NonRelativisticPVector", NonRelativisticPVector, [{}]),
        ("RelativisticKMatrix", RelativisticKMatrix, [{"return_t_hat": False}, {"return_t_hat": True}]),
        ("RelativisticPVector", RelativisticPVector, [{"return_f_hat": False}, {"return_f_hat": True}]),
    ):
        for fl in flags:
            for n in (1, 2):
                m = cls.formulate(n, npoles, parametrize=True, **fl, **mk)
                tag = name + "/" + (",".join(f"{k}={v}" for k, v in fl.items()) or "-") + f"/n={n}"
                rel = "true" if name.startswith("Relativistic") else "false"
                pv = "true" if name.endswith("PVector") else "false"
                marked.append(f'("{tag}", ({rel}, {pv}), [' + "; ".join(ser(e) for e in m) + "])")
                report[tag] = sum(count_nodes(e) for e in m)
    # the same with the marker given as a plain FUNCTION, formulated right after a call with ANOTHER
    # function of the same qualified name (closures of one factory); widths unfolded one level so that
    # the phase-space function actually used inside them is visible
    def make_phsp(head):
        def rho(s_, m_a_, m_b_):
            return head(s_, m_a_, m_b_)
        return rho

    def unfold_widths(e):
        return e.replace(lambda x: isinstance(x, EnergyDependentWidth), lambda x: x.evaluate())

    f_decoy, f_marker = make_phsp(sp.Function("rhoDecoy")), make_phsp(rhoX)
    assert f_decoy.__qualname__ == f_marker.__qualname__ and f_decoy is not f_marker
    hist = []
    for name, cls, flags in (
        ("RelativisticKMatrix", RelativisticKMatrix, [{"return_t_hat": False}, {"return_t_hat": True}]),
        ("RelativisticPVector", RelativisticPVector, [{"return_f_hat": False}, {"return_f_hat": True}]),
    ):
        for fl in flags:
            for n in (1, 2):
                kw = dict(parametrize=True, angular_momentum=Lx, meson_radius=dx, **fl)
                cls.formulate(n, npoles, phsp_factor=f_decoy, **kw)
                m = cls.formulate(n, npoles, phsp_factor=f_marker, **kw)
                tag = name + "/" + ",".join(f"{k}={v}" for k, v in fl.items()) + f"/n={n}"
                hist.append(f'("{tag}", [' + "; ".join(ser(unfold_widths(e)) for e in m) + "])")
    lines.append("Definition gen_marked_hist : list (string * list expr) :=\n  ["
                 + ";\n   ".join(hist) + "].\n")

    lines.append("Definition gen_marked : list (string * (bool * bool) * list expr) :=\n  ["
                 + ";\n   ".join(marked) + "].\n")

    # ---- one channel, one pole: the Breit-Wigner forms ----
    s = sp.Symbol("s", nonnegative=True)
    m_ = sp.IndexedBase("m", nonnegative=True)
    gam = sp.IndexedBase("Gamma", nonnegative=True)
    ga = sp.IndexedBase("gamma", nonnegative=True)
    m_a = sp.IndexedBase("m_a", nonnegative=True)
    m_b = sp.IndexedBase("m_b", nonnegative=True)
    t11 = expand_sums(NonRelativisticKMatrix.formulate(1, 1)[0, 0])
    f11 = expand_sums(NonRelativisticPVector.formulate(1, 1)[0])
    fh11 = expand_sums(RelativisticPVector.formulate(1, 1, return_f_hat=True, **mk)[0])
    defs = {
        "gen_bw_T11": t11,
        "gen_bw_F11": f11,
        "gen_bw_Fhat11": fh11,
        # the library's functions at the same symbols
        "gen_bw": relativistic_breit_wigner(s, m_[1], gam[1, 0]),
        "gen_bw_gamma": relativistic_breit_wigner(s, m_[1], ga[1, 0] ** 2 * gam[1, 0]),
        "gen_bw_ff": relativistic_breit_wigner_with_ff(s, m_[1], gam[1, 0], m_a[0], m_b[0], Lx, dx, phsp_factor=rhoX),
    }
    for k, v in defs.items():
        lines.append(f"Definition {k} : expr :=\n  {ser(v)}.\n")
        report[k] = count_nodes(v)

with open(out, "w") as fh:
    fh.write("\n".join(lines))
print("ok", report)
