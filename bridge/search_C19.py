"""C19 numeric harness on the IMPLEMENTATION (and failing-input search).

Physical three-body events with exactly rational four-momenta are generated (interior points,
points at distance 1e-3 ... 1e-12 from the collinear boundary, soft-particle corners, massless and
equal-mass configurations).  The expressions returned by formulate_scattering_angle /
formulate_theta_hat_angle / formulate_zeta_angle (all index tuples, after .doit()) are evaluated
on the masses derived from the event

  * with 80-digit mpmath arithmetic and compared with an INDEPENDENT four-momentum evaluator
    written from the property text (explicit boosts into the (ij) / particle-i rest frames,
    angles measured with atan2, orientation from the decay-plane normal), and
  * with NumPy float64 (what users run): every arccos argument must be within [-1, 1] up to a
    round-off bound derived below, and interior points must not produce NaN.

It also checks the identities of the property on the implementation values, the set of index
tuples that raise, and that `DalitzPlotDecomposition(reference_subsystem=k)` puts exactly the
`formulate_zeta_angle` expressions (masses substituted) into `model.kinematic_variables`.

usage: search_C19.py <seed> <n>            -> JSON {evaluations, distinct, samples, kinds, failures}
       search_C19.py --replay <json-file>  -> JSON {still_fails: bool}
"""
import json
import random
import re
import sys
from fractions import Fraction as F

import common  # noqa: F401
import mpmath as mp
import numpy as np
import sympy as sp

common.assert_repo_import()
from ampform.kinematics.angles import (  # noqa: E402
    formulate_scattering_angle,
    formulate_theta_hat_angle,
    formulate_zeta_angle,
)

mp.mp.dps = 80
TOL_MP = mp.mpf(10) ** -30  # 80-digit arithmetic; worst cases: arccos at exactly +-1 (massless particle): error
# sqrt(2e-80) = 1e-40; distance 1e-12 from the boundary: conditioning 1e12..1e24 -> error <= 1e-56
SYMS = sp.symbols("m_0 m_1 m_2 m_3 m_12 m_13 m_23", nonnegative=True)
EPS = float(np.finfo(float).eps)

# ---------------------------------------------------------------- expected conventions (property text)
# theta-hat_{i(j)}, zeta^0: positive for (1,2),(2,3),(3,1); zeta^i_{j(k)}, i>=1: rotation sense is
# opposite to the one of the parent-frame angles.  Both follow from ONE geometric rule implemented
# in `oracle`: signed angle about the decay-plane normal n = p1 x p2.


def expected_raises_scat(i, j):
    return not (i in (1, 2, 3) and j in (1, 2, 3)) or i == j


def expected_raises_that(i, j):
    return not (i in (1, 2, 3) and j in (1, 2, 3))


def expected_raises_zeta(i, j, k):
    return j not in (1, 2, 3) or (i == 0 and k not in (1, 2, 3))


# ---------------------------------------------------------------- implementation side
class Impl:
    def __init__(self):
        self.expr = {}   # key -> sympy expression (after doit)
        self.raw = {}    # key -> sympy expression exactly as returned (Kallen nodes unevaluated)
        self.err = {}    # key -> exception class name
        for i in range(4):
            for j in range(4):
                self._call(("scat", i, j), formulate_scattering_angle, i, j)
                self._call(("that", i, j), formulate_theta_hat_angle, i, j)
                for k in range(4):
                    self._call(("zeta", i, j, k), formulate_zeta_angle, i, j, k)
        self._mp = {}
        self._np = {}
        self._arg_mp = {}
        self._arg_np = {}

    def _call(self, key, fn, *idx):
        try:
            _s, e = fn(*idx)
            self.raw[key] = sp.sympify(e)
            self.expr[key] = sp.sympify(e).doit()
        except Exception as exc:  # noqa: BLE001
            self.err[key] = type(exc).__name__

    def mpf(self, key):
        if key not in self._mp:
            self._mp[key] = sp.lambdify(SYMS, self.expr[key], "mpmath")
        return self._mp[key]

    def npf(self, key):
        if key not in self._np:
            self._np[key] = sp.lambdify(SYMS, self.expr[key], "numpy")
        return self._np[key]

    def acos_args(self, key):
        return sorted(self.expr[key].atoms(sp.acos), key=str)

    def arg_mp(self, key):
        if key not in self._arg_mp:
            self._arg_mp[key] = [sp.lambdify(SYMS, a.args[0], "mpmath") for a in self.acos_args(key)]
        return self._arg_mp[key]

    def arg_np(self, key):
        if key not in self._arg_np:
            fs = []
            for a in self.acos_args(key):
                x = a.args[0]
                num, den = sp.fraction(x)
                fs.append((sp.lambdify(SYMS, x, "numpy"), sp.lambdify(SYMS, den, "numpy")))
            self._arg_np[key] = fs
        return self._arg_np[key]


# ---------------------------------------------------------------- independent four-momentum evaluator
def v3(p):
    return p[1:]


def dot3(a, b):
    return a[0] * b[0] + a[1] * b[1] + a[2] * b[2]


def cross(a, b):
    return [a[1] * b[2] - a[2] * b[1], a[2] * b[0] - a[0] * b[2], a[0] * b[1] - a[1] * b[0]]


def norm3(a):
    return mp.sqrt(dot3(a, a))


def mink(p):
    return p[0] ** 2 - dot3(v3(p), v3(p))


def add(p, q):
    return [a + b for a, b in zip(p, q)]


def boost_to_rest(p, u):
    """Components of p in the rest frame of the time-like vector u (pure boost, no rotation)."""
    M = mp.sqrt(mink(u))
    Eu, uv = u[0], v3(u)
    Ep, pv = p[0], v3(p)
    pu = dot3(pv, uv)
    E = (Ep * Eu - pu) / M
    coef = pu / (M * (Eu + M)) - Ep / M
    return [E] + [pv[a] + coef * uv[a] for a in range(3)]


def angle(a, b):
    c = cross(a, b)
    return mp.atan2(norm3(c), dot3(a, b))


def signed_angle(a, b, n):
    return mp.atan2(dot3(cross(a, b), n), dot3(a, b))


def oracle(P, massless, pair_timelike):
    """P = {1,2,3: four-momentum (mpf)} in the parent rest frame -> expected angles.
    massless: set of particle ids with p^2 = 0 exactly; pair_timelike[(i,j)]: (p_i+p_j)^2 > 0 exactly."""
    p0 = add(add(P[1], P[2]), P[3])
    n = cross(v3(P[1]), v3(P[2]))
    nn = norm3(n)
    n = [c / nn for c in n]
    out = {}
    for i in (1, 2, 3):
        for j in (1, 2, 3):
            out[("that", i, j)] = mp.mpf(0) if i == j else signed_angle(v3(P[i]), v3(P[j]), n)
            out[("zeta", 0, i, j)] = out[("that", i, j)]
            if i != j:
                k = 6 - i - j
                q = add(P[i], P[j])
                if pair_timelike[tuple(sorted((i, j)))]:
                    pi_ = boost_to_rest(P[i], q)
                    pk_ = boost_to_rest(P[k], q)
                    out[("scat", i, j)] = angle(v3(pi_), [-c for c in v3(pk_)])
    sub = {k: [a - b for a, b in zip(p0, P[k])] for k in (1, 2, 3)}
    for i in (1, 2, 3):
        is_massless = i in massless
        for j in (1, 2, 3):
            for k in (0, 1, 2, 3):
                kk = i if k == 0 else k
                if j == kk:
                    out[("zeta", i, j, k)] = mp.mpf(0)
                elif is_massless:
                    out[("zeta", i, j, k)] = mp.mpf(0)  # limit m_i -> 0: no Wigner rotation
                else:
                    a = boost_to_rest(sub[j], P[i])
                    b = boost_to_rest(sub[kk], P[i])
                    out[("zeta", i, j, k)] = -signed_angle(v3(a), v3(b), n)
    return out


# ---------------------------------------------------------------- case generation
def fr(x):
    return F(x)


def rot_from_quaternion(w, x, y, z):
    n = w * w + x * x + y * y + z * z
    return [[F(w*w + x*x - y*y - z*z, n), F(2*(x*y - w*z), n), F(2*(x*z + w*y), n)],
            [F(2*(x*y + w*z), n), F(w*w - x*x + y*y - z*z, n), F(2*(y*z - w*x), n)],
            [F(2*(x*z - w*y), n), F(2*(y*z + w*x), n), F(w*w - x*x - y*y + z*z, n)]]


def rotate(R, v):
    return [sum(R[a][b] * v[b] for b in range(3)) for a in range(3)]


PYTH = [(3, 4, 0, 5), (1, 2, 2, 3), (2, 3, 6, 7), (4, 4, 7, 9), (1, 4, 8, 9), (2, 6, 9, 11), (6, 6, 7, 11),
        (0, 0, 1, 1), (5, 12, 0, 13), (2, 10, 11, 15), (8, 9, 12, 17)]


def isqrt_frac(q):
    """Exact rational square root of a Fraction, or None."""
    q = F(q)
    if q < 0:
        return None
    from math import isqrt
    a, b = isqrt(q.numerator), isqrt(q.denominator)
    if a * a == q.numerator and b * b == q.denominator:
        return F(a, b)
    return None


def energy_above(rng, pp, den=16):
    """A rational E with E^2 >= pp (pp rational), generic mass."""
    r = isqrt_frac(pp)
    if r is None:
        base = F(int(mp.ceil(mp.sqrt(mp.mpf(pp.numerator) / pp.denominator) * den)), den)
    else:
        base = r
    return base + F(rng.randint(1, 3 * den), den)


def gen_case(rng, idx):
    kinds = ["interior", "interior", "near_collinear", "soft", "massless", "two_equal", "three_equal",
             "massless_near", "all_massless"]
    kind = kinds[idx % len(kinds)]
    den = 16
    rv = lambda lo, hi: F(rng.randint(lo * den, hi * den), den)  # noqa: E731
    perm = rng.sample([1, 2, 3], 3)
    quat = [rng.randint(-3, 3) for _ in range(4)]
    if not any(quat):
        quat = [1, 0, 0, 0]
    R = rot_from_quaternion(*quat)
    E = [None] * 3
    if kind in ("interior", "massless"):
        a = [rv(-2, 2) for _ in range(3)]
        b = [rv(-2, 2) for _ in range(3)]
        if kind == "massless":
            t = rng.choice(PYTH)
            sc = F(rng.randint(1, 8), 4)
            comp = list(t[:3])
            rng.shuffle(comp)
            a = [sc * c * rng.choice((-1, 1)) for c in comp]
            E[0] = sc * t[3]
            if rng.random() < 0.4:
                t2 = rng.choice(PYTH)
                sc2 = F(rng.randint(1, 8), 4)
                comp2 = list(t2[:3])
                rng.shuffle(comp2)
                b = [sc2 * c * rng.choice((-1, 1)) for c in comp2]
                E[1] = sc2 * t2[3]
        c = [-(x + y) for x, y in zip(a, b)]
        vs = [a, b, c]
    elif kind in ("near_collinear", "massless_near"):
        a = [rv(-2, 2) for _ in range(3)]
        if not any(a):
            a = [F(1), F(0), F(0)]
        lam = F(rng.choice([-3, -2, -1, 1, 2, 3, 5]), rng.choice([1, 2, 3, 4]))
        if lam == -1:
            lam = F(-1, 2)
        perp = cross(a, [F(1), F(2), F(3)])
        if not any(perp):
            perp = cross(a, [F(0), F(1), F(0)])
        eps = F(1, 10 ** rng.choice([3, 6, 9, 12]))
        b = [lam * x + eps * y for x, y in zip(a, perp)]
        c = [-(x + y) for x, y in zip(a, b)]
        vs = [a, b, c]
        if kind == "massless_near":
            r = isqrt_frac(sum(x * x for x in a))
            if r is not None and r > 0:
                E[0] = r
    elif kind == "soft":
        a = [rv(-2, 2) for _ in range(3)]
        if not any(a):
            a = [F(1), F(0), F(0)]
        perp = cross(a, [F(1), F(2), F(3)])
        if not any(perp):
            perp = cross(a, [F(0), F(1), F(0)])
        eps = F(1, 10 ** rng.choice([3, 6, 9, 12]))
        c = [eps * y for y in perp]            # soft particle
        b = [-(x + y) for x, y in zip(a, c)]
        vs = [a, b, c]
    elif kind in ("two_equal", "three_equal"):
        aa = F(rng.randint(1, 2 * den), den)
        bb = F(rng.randint(1, 2 * den), den)
        vs = [[-2 * aa, F(0), F(0)], [aa, bb, F(0)], [aa, -bb, F(0)]]
        e2 = energy_above(rng, aa * aa + bb * bb)
        E[1] = E[2] = e2
        if kind == "three_equal":
            msq = e2 * e2 - aa * aa - bb * bb
            e1 = isqrt_frac(msq + 4 * aa * aa)
            if e1 is None:  # choose E by the difference-of-squares construction
                d = 3 * aa * aa - bb * bb
                t = F(rng.randint(1, 2 * den), den)
                if d > 0:
                    e1, e2 = (d / t + t) / 2, (d / t - t) / 2
                elif d < 0:
                    e2, e1 = ((-d) / t + t) / 2, ((-d) / t - t) / 2
                else:
                    e1 = e2
                if e2 * e2 < aa * aa + bb * bb or e1 <= 0 or e2 <= 0:
                    kind = "two_equal"
                    e2 = E[1]
                    e1 = None
                else:
                    E[1] = E[2] = e2
            E[0] = e1
    elif kind == "all_massless":
        # three light-like momenta: two Pythagorean vectors, third needs rational norm: use a planar
        # 3-4-5 construction  a = s(3,4,0), b = s(3,-4,0)  ->  c = s(-6,0,0)
        s = F(rng.randint(1, 12), 4)
        t = rng.choice([(3, 4, 5), (5, 12, 13), (8, 15, 17), (4, 3, 5), (12, 5, 13)])
        vs = [[s * t[0], s * t[1], F(0)], [s * t[0], -s * t[1], F(0)], [-2 * s * t[0], F(0), F(0)]]
        E = [s * t[2], s * t[2], 2 * s * t[0]]
    for n_ in range(3):
        if E[n_] is None:
            E[n_] = energy_above(rng, sum(x * x for x in vs[n_]))
    vs = [rotate(R, v) for v in vs]
    mom = {perm[n_]: [E[n_]] + vs[n_] for n_ in range(3)}
    # routes B/C (masses substituted before doit) on every early event; later only where the masses are special
    routes = "ABC" if idx < 135 or kind in ("two_equal", "three_equal", "all_massless", "massless") else "A"
    return {"kind": kind, "routes": routes,
            "p": {str(k): [str(x) for x in mom[k]] for k in (1, 2, 3)}}


# ---------------------------------------------------------------- checking one event
def float_tol(den_abs, m0):
    """Round-off bound for an arccos argument N/(sqrt(L1) sqrt(L2)) evaluated in float64.
    N, L1, L2 are polynomials of degree 4 in the masses whose monomial coefficients sum (in absolute
    value) to at most 16; all masses are <= m0.  Each polynomial therefore carries an absolute
    rounding error <= ~16*8*eps*m0^4 (at most ~8 operations per monomial).  Propagating through
    x = N/D, D = sqrt(L1 L2), |x| <= 1:  |dx| <= (dN + |x| dD)/D with dD <= (dL1 L2 + L1 dL2)/(2D)
    <= dL * m0^4*16 / D.  We use  tol = 4096*eps*m0^4/D * (1 + 16*m0^4/D)  which dominates both."""
    s = 4096 * EPS * m0 ** 4 / den_abs
    return s * (1 + 16 * m0 ** 4 / den_abs)


TOL_BC = mp.mpf(10) ** -15  # routes B/C are evaluated by SymPy's evalf(50); an arccos whose argument is exactly
# +-1 but not recognised symbolically is only accurate to ~sqrt(1e-50); formula errors are macroscopic (>1e-6)


def sym_rational(q):
    return sp.Rational(q.numerator, q.denominator)


def sym_mass(q):
    """exact SymPy value of sqrt(q) for a non-negative Fraction q (its square is the Rational q again)"""
    r = isqrt_frac(q)
    return sym_rational(r) if r is not None else sp.sqrt(sym_rational(q))


def to_mp(v):
    v = sp.N(v, 50)
    if v.is_real is not True:
        return None
    return v._to_mpmath(200)


def routes_bc(impl, m0, msq, ssq, exp, fails):
    """Route B: substitute the particle masses m_0..m_3 into the UNEVALUATED expression, then doit(), then
    the Mandelstam masses.  Route C: substitute the whole event, then doit().  Both compared with the
    four-momentum evaluator.  Equal masses give structurally equal Kallen arguments on these routes."""
    fixed = {SYMS[0]: sym_rational(m0), SYMS[1]: sym_mass(msq[1]), SYMS[2]: sym_mass(msq[2]),
             SYMS[3]: sym_mass(msq[3])}
    sig = {SYMS[4]: sym_mass(ssq["m_12"]), SYMS[5]: sym_mass(ssq["m_13"]), SYMS[6]: sym_mass(ssq["m_23"])}
    both = {**fixed, **sig}
    cache = {}
    n = 0
    for key, raw in impl.raw.items():
        if key not in exp or raw == 0:
            continue
        if raw not in cache:
            try:
                vb = to_mp(raw.xreplace(fixed).doit().xreplace(sig))
                vc = to_mp(raw.xreplace(both).doit())
            except ZeroDivisionError:
                vb = vc = None
            cache[raw] = (vb, vc)
            n += 2
        for route, v in zip("BC", cache[raw]):
            if v is None:
                fails.append((f"route{route}_undefined", f"{key}: route {route} (masses substituted before doit) gives a "
                                                         f"non-real / undefined value"))
            elif abs(v - exp[key]) > TOL_BC:
                what = {"scat": "scattering", "that": "theta_hat", "zeta": "zeta"}[key[0]]
                fails.append((f"route{route}_{what}_geometric",
                              f"{key}: route {route} ({'particle masses' if route == 'B' else 'whole event'} substituted "
                              f"before doit) gives {mp.nstr(v, 20)} but four-momentum evaluator {mp.nstr(exp[key], 20)}"))
    return n


def check_event(impl, case):
    P = {k: [mp.mpf(F(x).numerator) / F(x).denominator for x in case["p"][str(k)]] for k in (1, 2, 3)}
    PF = {k: [F(x) for x in case["p"][str(k)]] for k in (1, 2, 3)}
    fails = []
    n_eval = 0
    # hypotheses of the property (generator sanity; a violation here is a harness bug, reported loudly)
    tot = [sum(PF[k][a] for k in (1, 2, 3)) for a in range(4)]
    if any(tot[1:]):
        raise RuntimeError("generator: three-momenta do not sum to zero")
    msq = {}
    for k in (1, 2, 3):
        msq[k] = PF[k][0] ** 2 - sum(x * x for x in PF[k][1:])
        if msq[k] < 0 or PF[k][0] <= 0:
            return None, 0
    cr = cross(PF[2][1:], PF[3][1:])
    if not any(cr):
        return None, 0
    pair = {(1, 2): "m_12", (1, 3): "m_13", (2, 3): "m_23"}
    ssq = {}
    for (a, b), nm in pair.items():
        q = [x + y for x, y in zip(PF[a], PF[b])]
        ssq[nm] = q[0] ** 2 - sum(x * x for x in q[1:])
    m0 = tot[0]
    vals_f = {"m_0": m0, "m_1": None, "m_2": None, "m_3": None}
    mass_mp = [mp.mpf(m0.numerator) / m0.denominator]
    for k in (1, 2, 3):
        mass_mp.append(mp.sqrt(mp.mpf(msq[k].numerator) / msq[k].denominator))
    for nm in ("m_12", "m_13", "m_23"):
        mass_mp.append(mp.sqrt(mp.mpf(ssq[nm].numerator) / ssq[nm].denominator))
    mass_np = [float(x) for x in mass_mp]
    exp = oracle(P, {k for k in (1, 2, 3) if msq[k] == 0},
                 {ab: ssq[nm] > 0 for ab, nm in pair.items()})
    got = {}
    interior_far = case["kind"] in ("interior", "massless", "two_equal", "three_equal", "all_massless")
    for key in impl.expr:
        val = impl.mpf(key)(*mass_mp)
        n_eval += 1
        if isinstance(val, mp.mpc):
            if abs(val.imag) > TOL_MP:
                fails.append(("acos_arg_range", f"{key}: complex value {mp.nstr(val, 12)} (an arccos argument is "
                              f"outside [-1,1] or a square root is of a negative number)"))
            val = val.real
        val = mp.mpf(val)
        got[key] = val
        for f in impl.arg_mp(key):
            x = f(*mass_mp)
            if isinstance(x, mp.mpc) or not mp.isfinite(x) or abs(x) > 1 + TOL_MP:
                fails.append(("acos_arg_range", f"{key}: arccos argument {mp.nstr(x, 20)} outside [-1,1]"))
        # float64 route
        with np.errstate(all="ignore"):
            vf = impl.npf(key)(*mass_np)
            for fx, fden in impl.arg_np(key):
                xf = float(fx(*mass_np))
                df = abs(float(fden(*mass_np)))
                if df == 0 or not np.isfinite(xf):
                    if interior_far:
                        fails.append(("float_nan_interior", f"{key}: float64 arccos argument {xf} (denominator {df})"))
                    continue
                tol = float_tol(df, mass_np[0])
                if abs(xf) > 1 + tol:
                    fails.append(("acos_arg_range_float", f"{key}: float64 arccos argument {xf!r} exceeds 1 by more "
                                  f"than the round-off bound {tol:.3g}"))
                elif interior_far and tol < 1e-9 and abs(xf) <= 1:
                    # well-conditioned: compare the float angle with the 80-digit one
                    sens = 1 / max(np.sqrt(max(1 - xf * xf, 0.0)), np.sqrt(2 * tol))
                    if not np.isfinite(vf) or abs(float(vf) - float(val)) > 4 * tol * sens + 64 * EPS:
                        fails.append(("float_vs_exact", f"{key}: float64 {float(vf)!r} vs 80-digit {float(val)!r}"))
        if key in exp:
            if abs(val - exp[key]) > TOL_MP:
                sig = {"scat": "scattering_geometric", "that": "theta_hat_geometric", "zeta": "zeta_geometric"}[key[0]]
                fails.append((sig, f"{key}: implementation {mp.nstr(val, 25)} but four-momentum evaluator "
                                   f"{mp.nstr(exp[key], 25)}"))
    if "B" in case.get("routes", "A"):
        n_eval += routes_bc(impl, m0, msq, ssq, exp, fails)
    # identities on the implementation values
    for i in (1, 2, 3):
        for j in (1, 2, 3):
            if i != j and ("scat", i, j) in got and ("scat", j, i) in got:
                if abs(got[("scat", i, j)] + got[("scat", j, i)] - mp.pi) > TOL_MP:
                    fails.append(("scattering_sum_pi", f"theta_{i}{j} + theta_{j}{i} - pi = "
                                  f"{mp.nstr(got[('scat', i, j)] + got[('scat', j, i)] - mp.pi, 10)}"))
            if ("that", i, j) in got and ("that", j, i) in got:
                if abs(got[("that", i, j)] + got[("that", j, i)]) > TOL_MP:
                    fails.append(("theta_hat_antisym", f"theta_hat_{i}({j}) + theta_hat_{j}({i}) != 0"))
            if i == j and got.get(("that", i, i), 0) != 0:
                fails.append(("theta_hat_diag_zero", f"theta_hat_{i}({i}) = {got[('that', i, i)]}"))
    for i in (0, 1, 2, 3):
        for j in (1, 2, 3):
            if i >= 1 and ("zeta", i, j, 0) in got and ("zeta", i, j, i) in got:
                if got[("zeta", i, j, 0)] != got[("zeta", i, j, i)]:
                    fails.append(("zeta_ref0_eq_refi", f"zeta^{i}_{j}(0) != zeta^{i}_{j}({i})"))
            if ("zeta", i, j, j) in got and got[("zeta", i, j, j)] != 0:
                fails.append(("zeta_diag_zero", f"zeta^{i}_{j}({j}) = {got[('zeta', i, j, j)]}"))
    for i in (1, 2, 3):
        for j in (1, 2, 3):
            for k in (1, 2, 3):
                if len({i, j, k}) == 3:
                    keys = [("zeta", i, j, k), ("zeta", i, j, i), ("zeta", i, i, k)]
                    if all(x in got for x in keys):
                        d = got[keys[0]] - got[keys[1]] - got[keys[2]]
                        if abs(d) > TOL_MP:
                            fails.append(("zeta_sum_rule", f"zeta^{i}_{j}({k}) - zeta^{i}_{j}({i}) - zeta^{i}_{i}({k}) "
                                          f"= {mp.nstr(d, 10)}"))
    return fails, n_eval


# ---------------------------------------------------------------- structure / model checks
def check_structure(impl):
    fails = []
    for i in range(4):
        for j in range(4):
            for tag, fn in (("scat", expected_raises_scat), ("that", expected_raises_that)):
                r = (tag, i, j) in impl.err
                if r != fn(i, j):
                    fails.append(("error_branches", f"{tag}{(i, j)}: raises={r} "
                                  f"({impl.err.get((tag, i, j))}) expected raises={fn(i, j)}"))
            for k in range(4):
                r = ("zeta", i, j, k) in impl.err
                if r != expected_raises_zeta(i, j, k):
                    fails.append(("error_branches", f"zeta{(i, j, k)}: raises={r} "
                                  f"({impl.err.get(('zeta', i, j, k))}) expected raises={expected_raises_zeta(i, j, k)}"))
    return fails


def check_dpd_model(reaction_name, ref):
    import reactions
    from ampform import get_builder
    from ampform.helicity.align.dpd import DalitzPlotDecomposition, relabel_edge_ids

    fails = []
    reaction = relabel_edge_ids(reactions.load(reaction_name))
    builder = get_builder(reaction)
    builder.config.spin_alignment = DalitzPlotDecomposition(reference_subsystem=ref)
    model = builder.formulate()
    kv = model.kinematic_variables
    zs = {s: e for s, e in kv.items() if "zeta" in s.name}
    if not zs:
        fails.append(("dpd_model_definitions", f"{reaction_name}, reference {ref}: no zeta angles in the model"))
    for s, e in zs.items():
        mm = re.match(r"\\zeta\^(\d)_\{(\d)\((\d)\)\}$", s.name)
        if not mm:
            fails.append(("dpd_model_definitions", f"unparsable angle symbol {s.name}"))
            continue
        i, j, k = map(int, mm.groups())
        if k != ref:
            fails.append(("dpd_model_definitions", f"{s.name}: reference subsystem {k} != configured {ref}"))
        sym, refexpr = formulate_zeta_angle(i, j, k)
        if sym != s:
            fails.append(("dpd_model_definitions", f"{s.name}: symbol differs from formulate_zeta_angle's"))
        subs = {x: kv[x] for x in refexpr.free_symbols if x in kv}
        missing = [x for x in refexpr.free_symbols if x not in kv]
        if missing:
            fails.append(("dpd_model_definitions", f"{s.name}: masses {missing} not defined in the model"))
        if e != refexpr.xreplace(subs):
            fails.append(("dpd_model_definitions", f"{reaction_name}, reference {ref}: definition of {s.name} is not "
                                                   f"formulate_zeta_angle({i},{j},{k}) with masses substituted"))
    return fails, len(zs)


# ---------------------------------------------------------------- DPD models: builder options x thinned reactions
OPTS = [("default", False, None), ("scalar_m0", True, None), ("stable_all", False, [1, 2, 3]),
        ("stable_some", False, [3]), ("both_all", True, [1, 2, 3]), ("both_some", True, [1, 3])]


def topology_groups(name):
    """indices of the transitions of each decay topology (= of each subsystem that has a resonance)"""
    import reactions
    r = reactions.load(name)
    groups = {}
    for i, t in enumerate(r.transitions):
        groups.setdefault(t.topology, []).append(i)
    return [sorted(v) for v in groups.values()]


def dpd_eval_cases(tier_full):
    names = ["jpsi_ksp_hel", "lc_pkpi_hel"] + (["jpsi_ksp1750_hel", "jpsi_ksp_can", "lc_pkpi_can"] if tier_full else [])
    cases, n = [], 0
    for name in names:
        keeps = [None] + (topology_groups(name) if len(topology_groups(name)) > 1 else [])
        for keep in keeps:
            for ref in (1, 2, 3):
                if tier_full and name.endswith("_hel"):
                    opts = OPTS if keep is None else [OPTS[(n + k) % len(OPTS)] for k in (0, 2, 4)]
                else:
                    opts = [OPTS[n % len(OPTS)], OPTS[(n + 4) % len(OPTS)]]
                for tag, scalar, stable in opts:
                    cases.append({"kind": "dpd_eval", "opts": tag, "ev_seed": 1000 + n,
                                  "cfg": {"reaction": name, "keep": keep, "align": f"dpd{ref}", "scalar_m0": scalar,
                                          "stable": stable, "couplings": False, "dyn": "none"}})
                n += 1
    return cases


def gen_float_events(rng, m0, m1, m2, m3, n):
    """n interior three-body events (float64) in the parent rest frame with the given masses."""
    out = {1: [], 2: [], 3: []}
    for _ in range(n):
        lo, hi = (m1 + m2) ** 2, (m0 - m3) ** 2
        s12 = lo + (hi - lo) * rng.uniform(0.08, 0.92)
        c = rng.uniform(-0.9, 0.9)
        sn = np.sqrt(1 - c * c)
        e3 = (m0 * m0 + m3 * m3 - s12) / (2 * m0)
        k3 = np.sqrt(max(e3 * e3 - m3 * m3, 0.0))
        r = np.sqrt(s12)
        e1s = (s12 + m1 * m1 - m2 * m2) / (2 * r)
        q = np.sqrt(max(e1s * e1s - m1 * m1, 0.0))
        gam, bg = (m0 - e3) / r, k3 / r
        p1 = np.array([gam * e1s + bg * q * c, q * sn, 0.0, bg * e1s + gam * q * c])
        e2s = r - e1s
        p2 = np.array([gam * e2s - bg * q * c, -q * sn, 0.0, bg * e2s - gam * q * c])
        p3 = np.array([e3, 0.0, 0.0, -k3])
        w, x, y, z = (rng.uniform(-1, 1) for _ in range(4))
        nq = w * w + x * x + y * y + z * z
        R = np.array([[w*w + x*x - y*y - z*z, 2*(x*y - w*z), 2*(x*z + w*y)],
                      [2*(x*y + w*z), w*w - x*x + y*y - z*z, 2*(y*z - w*x)],
                      [2*(x*z - w*y), 2*(y*z + w*x), w*w - x*x - y*y + z*z]]) / nq
        for k, pk in ((1, p1), (2, p2), (3, p3)):
            out[k].append(np.concatenate([[pk[0]], R @ pk[1:]]))
    return {k: np.array(v) for k, v in out.items()}


TOL_MODEL = 1e-6  # float64 evaluation of well-conditioned interior events (|cos| of every angle < 1 - 1e-3)


def check_dpd_eval(c):
    """Formulate the model, then (i) mass parameter defaults are the particles' masses, (ii) every mass
    kinematic variable m_S is the invariant mass of exactly the momenta named in S, (iii) EVERY zeta variable,
    with parameter defaults inserted, evaluated on events equals the angle measured from the four-momenta."""
    import modelgen

    fails, n_eval = [], 0
    cfg = c["cfg"]
    reaction, _builder, model = modelgen.build(cfg)
    ident = f"{cfg['reaction']} keep={'all' if cfg['keep'] is None else len(cfg['keep'])} {cfg['align']} {c['opts']}"
    fs = {i: reaction.final_state[i].mass for i in (1, 2, 3)}
    m0 = next(iter(reaction.initial_state.values())).mass
    kv, pd = model.kinematic_variables, model.parameter_defaults
    for sym, val in pd.items():
        mm = re.match(r"m_(\d+)$", sym.name)
        if not mm or not isinstance(sym, sp.Symbol):
            continue
        digits = mm.group(1)
        want = m0 if digits in ("0", "123") else fs[int(digits)] if len(digits) == 1 else None
        if want is None or val != want:
            fails.append(("dpd_mass_parameter", f"{ident}: parameter default {sym.name} = {val} but the particle's "
                                                f"mass is {want}"))
    rng = random.Random(c["ev_seed"])
    n = 6
    ev = gen_float_events(rng, m0, fs[1], fs[2], fs[3], n)
    psyms = {k: sp.Symbol(f"p{k}") for k in (1, 2, 3)}

    def evaluate(expr):
        e = expr.xreplace(pd).doit()
        extra = [x for x in e.free_symbols if str(x) not in ("p1", "p2", "p3")]
        if extra:
            return None, extra
        syms = sorted(e.free_symbols, key=str)
        with np.errstate(all="ignore"):
            v = sp.lambdify(syms, e, "numpy", cse=True)(*[ev[int(str(x)[1:])] for x in syms])
        return np.broadcast_to(np.asarray(v, dtype=complex), (n,)), None

    def minv(ids):
        tot = sum(ev[k] for k in ids)
        return np.sqrt(np.maximum(tot[:, 0] ** 2 - np.sum(tot[:, 1:] ** 2, axis=1), 0))

    for sym, expr in kv.items():
        mm = re.match(r"m_(\d+)$", sym.name)
        if not mm:
            continue
        ids = [1, 2, 3] if mm.group(1) == "0" else [int(d) for d in mm.group(1)]
        val, extra = evaluate(expr)
        n_eval += n
        if extra or not np.all(np.abs(val - minv(ids)) < 1e-9):
            fails.append(("dpd_mass_definition", f"{ident}: kinematic variable {sym.name} = {expr} is not the invariant "
                                                 f"mass of exactly p{'+p'.join(map(str, ids))}"))
    zetas = [(sym, expr) for sym, expr in kv.items() if "zeta" in sym.name or "theta" in sym.name and "hat" in sym.name]
    if not zetas:
        fails.append(("dpd_model_definitions", f"{ident}: the model defines no alignment angles"))
    exps = []
    for e in range(n):
        P = {k: [mp.mpf(float(x)) for x in ev[k][e]] for k in (1, 2, 3)}
        exps.append(oracle(P, set(), {(1, 2): True, (1, 3): True, (2, 3): True}))
    for sym, expr in zetas:
        mm = re.match(r"\\zeta\^(\d)_\{(\d)\((\d)\)\}$", sym.name)
        if not mm:
            fails.append(("dpd_model_definitions", f"{ident}: unparsable angle symbol {sym.name}"))
            continue
        key = ("zeta", *map(int, mm.groups()))
        val, extra = evaluate(expr)
        n_eval += n
        if extra:
            fails.append(("dpd_angle_undefined", f"{ident}: {sym.name} still contains {sorted(map(str, extra))} after "
                                                 f"inserting the kinematic definitions and parameter defaults"))
            continue
        want = np.array([float(x[key]) for x in exps])
        bad = ~(np.abs(val.imag) < 1e-12) | ~(np.abs(val.real - want) < TOL_MODEL)
        if np.any(bad):
            e = int(np.argmax(bad))
            fails.append(("dpd_angle_from_model", f"{ident}: {sym.name} evaluated from the model = {val[e]} but the "
                                                  f"four-momentum evaluator gives {want[e]!r} (event {e}: p1={ev[1][e].tolist()}, "
                                                  f"p2={ev[2][e].tolist()}, p3={ev[3][e].tolist()})"))
    return fails, n_eval


DPD_CASES = [("jpsi_ksp_hel", 1), ("jpsi_ksp_hel", 2), ("jpsi_ksp_hel", 3),
             ("lc_pkpi_hel", 1), ("lc_pkpi_hel", 2), ("lc_pkpi_hel", 3)]


def run_case(impl, c):
    if c["kind"] == "structure":
        return check_structure(impl), 144
    if c["kind"] == "dpd_model":
        return check_dpd_model(c["reaction"], c["ref"])
    if c["kind"] == "dpd_eval":
        return check_dpd_eval(c)
    return check_event(impl, c)


def main():
    impl = Impl()
    if sys.argv[1] == "--replay":
        doc = json.load(open(sys.argv[2]))
        fails, _ = run_case(impl, doc["replay"]["case"])
        print(json.dumps({"still_fails": bool(fails), "fails": [list(f) for f in (fails or [])][:5]}))
        return
    seed, n = int(sys.argv[1]), int(sys.argv[2])
    rng = random.Random(seed)
    cases = [{"kind": "structure"}]
    cases += [{"kind": "dpd_model", "reaction": r, "ref": k} for r, k in DPD_CASES]
    cases += dpd_eval_cases(tier_full=n > 500)
    cases += [gen_case(rng, idx) for idx in range(n)]
    failures, distinct, samples, kinds = [], set(), [], {}
    evaluations = 0
    for c in cases:
        try:
            fails, n_eval = run_case(impl, c)
        except Exception as exc:  # noqa: BLE001  the implementation raised on a valid input
            fails, n_eval = [("exception", f"{type(exc).__name__}: {exc}")], 1
        if fails is None:
            continue
        evaluations += n_eval
        key = json.dumps(c, sort_keys=True)
        distinct.add(key)
        kinds[c["kind"]] = kinds.get(c["kind"], 0) + 1
        if len(samples) < 6 and c["kind"] not in [s["kind"] for s in samples]:
            samples.append(c)
        for sig, what in fails:
            if not any(f["signature"] == sig for f in failures):
                failures.append({"signature": sig, "what": what, "case": c})
    print(json.dumps({"evaluations": evaluations, "distinct": len(distinct), "samples": samples,
                      "kinds": kinds, "failures": failures[:20]}))


main()
