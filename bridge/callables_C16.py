"""Non-SymPy attribute values for the C16 harness (importable module, so that they pickle by reference).

Kinds of `argument(sympify=False)` values an @unevaluated expression can carry:
class, module-level function, functools.partial (differing in bound arguments), callable instance with
value equality (frozen dataclass), callable instance with default eq/repr, callable instance with value
__eq__ but no __hash__ (hashable content falls back to str()), closures of one factory, lambdas,
and non-callable value objects.
"""
from __future__ import annotations

import dataclasses
import functools
from typing import Any

import sympy as sp

from ampform.dynamics.phasespace import PhaseSpaceFactor
from ampform.sympy import argument, unevaluated


def powered_phsp(s, m1, m2, power):
    return PhaseSpaceFactor(s, m1, m2) ** power


def phsp_squared(s, m1, m2):
    return PhaseSpaceFactor(s, m1, m2) ** 2


def phsp_cubed(s, m1, m2):
    return PhaseSpaceFactor(s, m1, m2) ** 3


@dataclasses.dataclass(frozen=True)
class PoweredPhaseSpace:
    """Callable with a parameter; equality, hash and pickling by value."""

    power: int

    def __call__(self, s, m1, m2):
        return PhaseSpaceFactor(s, m1, m2) ** self.power


class PlainPhaseSpace:
    """Callable with a parameter; default (identity) equality, hash and repr."""

    def __init__(self, power):
        self.power = power

    def __call__(self, s, m1, m2):
        return PhaseSpaceFactor(s, m1, m2) ** self.power


class UnhashablePhaseSpace:
    """Callable with value equality but no hash and the default repr."""

    __hash__ = None  # type: ignore[assignment]

    def __init__(self, power):
        self.power = power

    def __eq__(self, other):
        return isinstance(other, UnhashablePhaseSpace) and other.power == self.power

    def __call__(self, s, m1, m2):
        return PhaseSpaceFactor(s, m1, m2) ** self.power


def closure_factory(power):
    def phsp(s, m1, m2):
        return PhaseSpaceFactor(s, m1, m2) ** power
    return phsp


def partial_phsp(power):
    return functools.partial(powered_phsp, power=power)


def lambda_pair():
    return (lambda s, a, b: phsp_squared(s, a, b)), (lambda s, a, b: phsp_cubed(s, a, b))  # noqa: E731


@dataclasses.dataclass(frozen=True)
class Tag:
    power: int


class PlainTag:
    def __init__(self, power):
        self.power = power


@unevaluated
class TaggedPower(sp.Expr):
    """x ** tag.power with a NON-callable, non-SymPy attribute."""

    x: Any
    tag: Any = argument(sympify=False)

    def evaluate(self):
        return sp.sqrt(self.x ** 2) ** self.tag.power
