"""C07 model regeneration (T1): per-event symbolic meaning of the NumPy code generated from
Phi(p), Theta(p), InvariantMass(p), InvariantMass(p + q) as they are in /repo now."""
import sys

import common  # noqa: F401
import numpy as np
import sympy as sp
from ser import write_gen
from symexec import clean_scalar, four_vector, symexec

common.assert_repo_import()
from ampform.kinematics.angles import Phi, Theta  # noqa: E402
from ampform.kinematics.lorentz import FourMomentumSymbol, InvariantMass  # noqa: E402
from ampform.sympy._array_expressions import ArraySum  # noqa: E402

out = sys.argv[1]
p = FourMomentumSymbol("p", shape=[])
q = FourMomentumSymbol("q", shape=[])
P, _ = four_vector("")
Q, _ = four_vector("q")


def scalar(expr, args, inputs, cse):
    val, _src = symexec(args, expr.doit(), inputs, cse=cse)
    val = np.asarray(val, dtype=object).reshape(-1)
    assert val.shape == (1,), val.shape
    return clean_scalar(val[0])


defs = {}
for cse in (True, False):
    tag = "cse" if cse else "nocse"
    defs[f"phi_{tag}"] = scalar(Phi(p), [p], [P], cse)
    defs[f"theta_{tag}"] = scalar(Theta(p), [p], [P], cse)
    defs[f"mass_{tag}"] = scalar(InvariantMass(p), [p], [P], cse)
    defs[f"mass_sum_{tag}"] = scalar(InvariantMass(ArraySum(p, q)), [p, q], [P, Q], cse)
write_gen(out, "bridge/symgen_C07.py", defs)
print("ok", {k: str(v)[:200] for k, v in defs.items()})
