"""C07 model regeneration (T1): per-event symbolic meaning of the NumPy code generated from
Phi(p), Theta(p), InvariantMass(p), InvariantMass(p + q) as they are in /repo now."""
import sys

import common  # noqa: F401
import numpy as np
import sympy as sp
from ser import write_gen
from symexec import clean_scalar, four_vector, symexec

common.assert_repo_import()
from ampform.kinematics.angles import Phi, Theta  # noqa: E402
from ampform.kinematics.lorentz import FourMomentumSymbol, InvariantMass  # noqa: E402
from ampform.sympy._array_expressions import ArraySum  # noqa: E402

out = sys.argv[1]
p = FourMomentumSymbol("p", shape=[])
q = FourMomentumSymbol("q", shape=[])
P, _ = four_vector("")
Q, _ = four_vector("q")


def scalar(expr, args, inputs, cse):
    val, _src = symexec(args, expr.doit(), inputs, cse=cse)
    val = np.asarray(val, dtype=object).reshape(-1)
    assert val.shape == (1,), val.shape
    return clean_scalar(val[0])


defs = {}
for cse in (True, False):
    tag = "cse" if cse else "nocse"
    defs[f"phi_{tag}"] = scalar(Phi(p), [p], [P], cse)
    defs[f"theta_{tag}"] = scalar(Theta(p), [p], [P], cse)
    defs[f"mass_{tag}"] = scalar(InvariantMass(p), [p], [P], cse)
    defs[f"mass_sum_{tag}"] = scalar(InvariantMass(ArraySum(p, q)), [p, q], [P, Q], cse)
write_gen(out, "bridge/symgen_C07.py", defs)
print("ok", {k: str(v)[:200] for k, v in defs.items()})

# ---- optional second output: the polar helicity angle of the 3-body isobar decays (C07_dalitz.v) ----
# theta_<a>^<ab> exactly as compute_helicity_angles registers it for the three relabellings of
# create_isobar_topologies(3)[0] with final states 1, 2, 3 (initial state 0), through the generated
# NumPy code (cse on and off), in the components E<i>, x<i>, y<i>, z<i> of p<i>.
if len(sys.argv) > 2:
    from qrules.topology import Topology, create_isobar_topologies  # noqa: E402

    from ampform.kinematics.angles import compute_helicity_angles  # noqa: E402
    from ampform.kinematics.lorentz import create_four_momentum_symbols  # noqa: E402

    base = create_isobar_topologies(3)[0]
    (spect0,) = [i for i, e in base.edges.items()
                 if e.ending_node_id is None and e.originating_node_id == base.edges[-1].ending_node_id]
    pair0 = sorted(set(base.outgoing_edge_ids) - {spect0})
    (inter0,) = base.intermediate_edge_ids
    ddefs = {}
    for a, b, spect in [(1, 2, 3), (2, 3, 1), (1, 3, 2)]:
        m = {-1: 0, spect0: spect, pair0[0]: a, pair0[1]: b, inter0: 4}
        topo = Topology(nodes=base.nodes, edges={m[i]: e for i, e in base.edges.items()})
        mom = create_four_momentum_symbols(topo)
        angles = {str(k): v for k, v in compute_helicity_angles(mom, topo).items()}
        name = f"theta_{a}^{a}{b}"
        if name not in angles:
            raise SystemExit(f"{name} is not registered for the topology ({a}{b}){spect}: {sorted(angles)}")
        ids = (1, 2, 3)
        inputs = [four_vector(str(i))[0] for i in ids]
        for cse in (True, False):
            tree = scalar(angles[name], [mom[i] for i in ids], inputs, cse)
            extra = {s.name for s in tree.free_symbols} - {f"{c}{i}" for c in "Exyz" for i in (a, b)}
            if extra:
                raise SystemExit(f"{name} depends on {extra}")
            ddefs[f"hel_theta_{a}_{a}{b}_{'cse' if cse else 'nocse'}"] = tree
    write_gen(sys.argv[2], "bridge/symgen_C07.py (dalitz part)", ddefs)
    print("ok-dalitz", {k: len(str(v)) for k, v in ddefs.items()})
