"""SymPy tree -> Gallina `expr` literal (AV.Ast).  Fail-closed: unknown leaf kinds abort.

Two modes:
  analytic (default): symbols are `Sym "name"`; Indexed / array elements become symbols
     named by their str(); every remaining class is `App (HOther "Class") args`.
  structural (assum=True): the symbol string also carries the non-default assumptions,
     because a SymPy symbol's identity is (name, assumptions).
"""
from __future__ import annotations

import fractions

import sympy as sp
from sympy.logic.boolalg import BooleanFalse, BooleanTrue

HEADS = {
    sp.Add: "HAdd", sp.Mul: "HMul", sp.Pow: "HPow",
    sp.cos: "HCos", sp.sin: "HSin", sp.tan: "HTan", sp.acos: "HAcos", sp.asin: "HAsin",
    sp.atan: "HAtan", sp.atan2: "HAtan2", sp.Abs: "HAbs", sp.conjugate: "HConj",
    sp.log: "HLog", sp.exp: "HExp", sp.sign: "HSign", sp.re: "HRe", sp.im: "HIm",
    sp.StrictLessThan: "HLt", sp.LessThan: "HLe", sp.StrictGreaterThan: "HGt",
    sp.GreaterThan: "HGe", sp.Equality: "HEq", sp.Unequality: "HNe",
    sp.And: "HAnd", sp.Or: "HOr", sp.Not: "HNot", sp.Tuple: "HTuple",
}


class SerError(Exception):
    pass


def coq_string(s: str) -> str:
    if any(ord(c) > 126 or ord(c) < 32 for c in s):
        raise SerError(f"non-printable/non-ascii string {s!r}")
    return '"' + s.replace('"', '""') + '"'


def qlit(q) -> str:
    q = fractions.Fraction(q)
    n, d = q.numerator, q.denominator
    return f"(Num (({n}) # {d}))"


def sym_name(s: sp.Symbol, assum: bool) -> str:
    if not assum:
        return s.name
    a = {k: v for k, v in s.assumptions0.items() if k != "commutative" or v is not True}
    if not a:
        return s.name
    items = ",".join(f"{k}={int(v)}" for k, v in sorted(a.items()))
    return f"{s.name}|{items}"


def attr_repr(v) -> str:
    if v is None:
        return "None"
    if isinstance(v, type):
        return str(v.__module__) + "." + v.__qualname__
    if isinstance(v, str):
        return "'" + v + "'"
    if callable(v) and hasattr(v, "__qualname__"):
        return getattr(v, "__module__", "?") + "." + v.__qualname__
    return repr(v)


def attr_suffix(e) -> str:
    """Non-SymPy dataclass fields of an @unevaluated instance are part of the node's identity."""
    import dataclasses

    if not dataclasses.is_dataclass(e):
        return ""
    parts = []
    for f in dataclasses.fields(e):
        if f.metadata.get("sympify", True) is False:
            parts.append(f"{f.name}={attr_repr(getattr(e, f.name))}")
    return "[" + ",".join(parts) + "]" if parts else ""


def ser(e, assum: bool = False, atomic_indexed: bool = True) -> str:
    """Serialise one tree."""
    if isinstance(e, (int,)) and not isinstance(e, bool):
        return qlit(e)
    if isinstance(e, fractions.Fraction):
        return qlit(e)
    if isinstance(e, float):
        return qlit(fractions.Fraction(e))
    if isinstance(e, str):
        return f"(App HStr [Sym {coq_string(e)}])"
    if e is None:
        return '(App (HOther "None") [])'
    if isinstance(e, sp.Symbol):
        return f"(Sym {coq_string(sym_name(e, assum))})"
    if isinstance(e, sp.Integer):
        return qlit(int(e))
    if isinstance(e, sp.Rational):
        return qlit(fractions.Fraction(int(e.p), int(e.q)))
    if isinstance(e, sp.Float):
        return qlit(fractions.Fraction(float(e)))
    if e is sp.I:
        return "(App HI [])"
    if e is sp.pi:
        return "(App HPi [])"
    if e is sp.nan:
        return "(App HNaN [])"
    if e is sp.oo:
        return "(App HInf [])"
    if e is -sp.oo:
        return "(App HNegInf [])"
    if e is sp.zoo:
        return "(App HZoo [])"
    if isinstance(e, BooleanTrue) or e is True:
        return "(App HTrue [])"
    if isinstance(e, BooleanFalse) or e is False:
        return "(App HFalse [])"
    if isinstance(e, sp.Piecewise):
        parts = []
        for v, c in e.args:
            parts.append(ser(v, assum, atomic_indexed))
            parts.append(ser(c, assum, atomic_indexed))
        return "(App HPiecewise [" + "; ".join(parts) + "])"
    if atomic_indexed and isinstance(e, (sp.Indexed, sp.IndexedBase)):
        return f"(Sym {coq_string(str(e))})"
    if isinstance(e, sp.Indexed):
        return "(App HIndexed [" + "; ".join(ser(a, assum, atomic_indexed) for a in e.args) + "])"
    if isinstance(e, sp.Basic):
        head = HEADS.get(type(e))
        if head is None:
            head = f"(HOther {coq_string(type(e).__name__ + attr_suffix(e))})"
        args = "; ".join(ser(a, assum, atomic_indexed) for a in e.args)
        return f"(App {head} [{args}])"
    if isinstance(e, (tuple, list)):
        return "(App HTuple [" + "; ".join(ser(a, assum, atomic_indexed) for a in e) + "])"
    raise SerError(f"cannot serialise {type(e)}: {e!r}")


def count_nodes(e) -> int:
    if isinstance(e, sp.Basic):
        return 1 + sum(count_nodes(a) for a in e.args)
    return 1


HEADER = """(* GENERATED on every run from /repo's working tree by {gen} — do not edit. *)
From AV Require Import Ast.
Open Scope string_scope.
"""


def write_gen(path: str, gen: str, defs: dict, extra: str = "") -> None:
    """defs: name -> (sympy tree | raw Gallina string prefixed with 'RAW:')."""
    out = [HEADER.format(gen=gen)]
    for name, tree in defs.items():
        if isinstance(tree, str) and tree.startswith("RAW:"):
            out.append(f"Definition {name} := {tree[4:]}.\n")
        else:
            out.append(f"Definition {name} : expr :=\n  {ser(tree)}.\n")
    out.append(extra)
    with open(path, "w") as f:
        f.write("\n".join(out))
