"""Shared by symgen_C05.py and search_C05.py: single-topology reactions (corpus restrictions and
synthetic ones), model construction for the three alignments, a sequential two-body phase-space
generator, and the extraction of the chain structure of an aligned intensity."""
from __future__ import annotations

import itertools
import zlib
from fractions import Fraction

import common  # noqa: F401
import numpy as np
import reactions
import sympy as sp

common.assert_repo_import()
import attrs  # noqa: E402
from qrules.particle import Particle  # noqa: E402
from qrules.quantum_numbers import InteractionProperties  # noqa: E402
from qrules.topology import FrozenTransition  # noqa: E402
from qrules.transition import ReactionInfo, State  # noqa: E402

import ampform  # noqa: E402
from ampform.helicity.align.axisangle import AxisAngleAlignment  # noqa: E402
from ampform.helicity.align.dpd import DalitzPlotDecomposition, relabel_edge_ids  # noqa: E402

ALIGNMENTS = ("none", "axisangle", "dpd1", "dpd2", "dpd3")


# --------------------------------------------------------------------------- reactions
def topologies_of(reaction):
    out = []
    for t in reaction.transitions:
        if t.topology not in out:
            out.append(t.topology)
    return out


def restrict(reaction, topology):
    return ReactionInfo([t for t in reaction.transitions if t.topology == topology], reaction.formalism)


def corpus_single_topology(names=None):
    """(label, reaction) for every topology of every corpus reaction."""
    for n in names or reactions.names():
        r = reactions.load(n)
        tops = topologies_of(r)
        for k, top in enumerate(tops):
            yield f"{n}/t{k}", (r if len(tops) == 1 else restrict(r, top))


def full_range(spin) -> list[Fraction]:
    """-s, -s+1, ..., s  (written from the property text, not from the code)."""
    s = Fraction(spin)
    n = int(2 * s)
    return [-s + k for k in range(n + 1)]


def complete_initial_state(reaction):
    """Add the missing spin projections of the initial state (copies of existing transitions)."""
    (i0,) = reaction.initial_state
    spin = reaction.initial_state[i0].spin
    have = sorted({t.states[i0].spin_projection for t in reaction.transitions})
    missing = [m for m in full_range(spin) if m not in have]
    proto = [t for t in reaction.transitions if t.states[i0].spin_projection == have[0]]
    new = list(reaction.transitions)
    for m in missing:
        for t in proto:
            st = dict(t.states)
            st[i0] = State(st[i0].particle, m)
            new.append(FrozenTransition(t.topology, st, t.interactions))
    return ReactionInfo(new, reaction.formalism)


def _particle(name, spin, mass, pid):
    return Particle(name=name, pid=pid, latex=name, spin=Fraction(spin), mass=float(mass), width=0.0)


def synthetic(topology, spec, label):
    """spec: {edge_id: (spin, mass)}; massless final states get helicities +-s only,
    everything else the complete range; all helicity combinations allowed by |l1-l2| <= J."""
    base = 9000000 + 10 * (zlib.crc32(label.encode()) % 90000)
    parts = {i: _particle(f"S{label}x{i + 1}", s, m, base + i + 1) for i, (s, m) in spec.items()}
    final = set(topology.outgoing_edge_ids)
    pools = {}
    for i, (s, m) in spec.items():
        rng = full_range(s)
        if i in final and m == 0 and Fraction(s) > 0:
            rng = [-Fraction(s), Fraction(s)]
        pools[i] = rng
    ids = sorted(spec)
    transitions = []
    inter = {n: InteractionProperties() for n in topology.nodes}
    for combo in itertools.product(*[pools[i] for i in ids]):
        hel = dict(zip(ids, combo))
        ok = True
        for n in topology.nodes:
            (parent,) = topology.get_edge_ids_ingoing_to_node(n)
            c1, c2 = sorted(topology.get_edge_ids_outgoing_from_node(n))
            if abs(hel[c1] - hel[c2]) > Fraction(spec[parent][0]):
                ok = False
        if ok:
            transitions.append(FrozenTransition(topology, {i: State(parts[i], hel[i]) for i in ids}, inter))
    return ReactionInfo(transitions, "helicity")


def synthetic_reactions(tier="quick"):
    """Hand-built single-topology reactions: spins 0..5/2, massless spin 1/2, 1, 2."""
    two = reactions.load("etac_ll_hel").transitions[0].topology
    three = topologies_of(reactions.load("lc_pkpi_hel"))
    out = []

    def t3(k, s0, sr, sa, sb, sc, masses=(3.0, 1.2, 0.3, 0.4, 0.5)):
        top = three[k]
        (init,) = top.incoming_edge_ids
        (inner,) = top.intermediate_edge_ids
        n_inner = top.edges[inner].ending_node_id
        a, b = sorted(top.get_edge_ids_outgoing_from_node(n_inner))
        (c,) = set(top.outgoing_edge_ids) - {a, b}
        m0, mr, ma, mb, mc = masses
        return top, {init: (s0, m0), inner: (sr, mr), a: (sa, ma), b: (sb, mb), c: (sc, mc)}

    def add(label, top, spec):
        out.append((f"synth_{label}", synthetic(top, spec, label)))

    h = Fraction(1, 2)
    # two-body
    add("2b_0_hh", two, {-1: (0, 2.5), 0: (h, 1.0), 1: (h, 0.9)})
    add("2b_1_h_nu", two, {-1: (1, 80.0), 0: (h, 0.000511), 1: (h, 0.0)})  # W -> e nu
    add("2b_h_1_h", two, {-1: (h, 2.5), 0: (1, 0.8), 1: (h, 0.9)})
    # three-body, massive
    add("3b_h_1_h00", *t3(0, h, 1, 0, 0, h))
    add("3b_0_1_hh1", *t3(1, 0, 1, h, h, 1))
    add("3b_1_h_nu", *t3(2, 1, h, h, 0, h, masses=(3.0, 1.2, 0.3, 0.4, 0.0)))  # massless spin 1/2
    add("3b_h_1_gamma", *t3(0, h, h, h, 0, 1, masses=(3.0, 1.2, 0.3, 0.4, 0.0)))  # massless spin 1
    # four-body CASCADE X -> c (R1 -> b (R2 -> a a')): a spin-1/2 final state hangs directly on the
    # production node (its helicity suffix lists two isobars, e.g. "_0^23,123")
    for top in topologies_of(reactions.load("d0_k3pi_hel")):
        (init,) = top.incoming_edge_ids
        root = top.edges[init].ending_node_id
        direct = [e for e in top.get_edge_ids_outgoing_from_node(root) if e in top.outgoing_edge_ids]
        if len(direct) != 1:
            continue  # the (AB)(CD) topology
        spec = {e: (0, 0.3 + 0.05 * e) for e in top.outgoing_edge_ids}
        spec[direct[0]] = (h, 0.9)
        spec[init] = (h, 4.0)
        inter = sorted(top.intermediate_edge_ids, key=lambda e: top.edges[e].originating_node_id != root)
        spec[inter[0]] = (1, 2.0)   # R1, child of the production node
        spec[inter[1]] = (0, 1.0)   # R2
        add("4b_cascade_h_h", top, spec)
        break
    if tier == "thorough":
        t = Fraction(3, 2)
        f = Fraction(5, 2)
        add("2b_1_th_h", two, {-1: (1, 3.5), 0: (t, 1.3), 1: (h, 0.9)})
        add("2b_2_1_1", two, {-1: (2, 3.5), 0: (1, 1.3), 1: (1, 0.9)})
        add("2b_0_ff", two, {-1: (0, 3.5), 0: (f, 1.3), 1: (f, 0.9)})
        add("2b_2_0_g2", two, {-1: (2, 3.5), 0: (0, 1.3), 1: (2, 0.0)})  # massless spin 2
        add("3b_t_0_00_t", *t3(0, t, 0, 0, 0, t))          # spin 3/2 initial state and spectator
        add("3b_2_0_00_2", *t3(1, 2, 0, 0, 0, 2))          # massive spin 2
        add("3b_f_0_00_f", *t3(2, f, 0, 0, 0, f))          # spin 5/2
        add("3b_h_1_h0_1", *t3(1, h, 1, h, 0, 1))          # rotated particle inside the isobar
        add("3b_1_1_nu_nu", *t3(0, 1, 1, h, h, 0, masses=(3.0, 1.2, 0.0, 0.0, 0.5)))
        add("3b_2_0_00_g2", *t3(1, 2, 0, 0, 0, 2, masses=(3.0, 1.2, 0.3, 0.4, 0.0)))  # massless spin 2
    return out


# --------------------------------------------------------------------------- classification
def classify(reaction, alignment: str) -> dict:
    """Preconditions of the property, from the reaction alone (independent of ampform)."""
    (i0,) = reaction.initial_state
    info = {"massless_integer": False, "massless_half": False, "thinned": [], "max_spin2": 0}
    outer = [i0, *sorted(reaction.final_state)]
    for i in outer:
        p = reaction.initial_state[i] if i == i0 else reaction.final_state[i]
        have = sorted({t.states[i].spin_projection for t in reaction.transitions})
        s = Fraction(p.spin)
        info["max_spin2"] = max(info["max_spin2"], int(2 * s))
        rotated = i != i0 or alignment.startswith("dpd")
        if i != i0 and p.mass == 0 and s > 0:
            if s.denominator == 1:
                if rotated and have == [-s, s]:
                    info["massless_integer"] = True
                    continue
            else:
                info["massless_half"] = True
        if rotated and have != full_range(s):
            info["thinned"].append(i)
    return info


# --------------------------------------------------------------------------- models
def alignment_object(alignment: str):
    if alignment == "none":
        return None
    if alignment == "axisangle":
        return AxisAngleAlignment()
    return DalitzPlotDecomposition(int(alignment[-1]))


def build_model(reaction, alignment: str):
    al = alignment_object(alignment)
    dpd = alignment.startswith("dpd")
    rr = relabel_edge_ids(reaction) if dpd else reaction
    b = ampform.get_builder(rr)
    if al is not None:
        b.config.spin_alignment = al
    return b.formulate(), dpd


# --------------------------------------------------------------------------- phase space
def _two_body(M, m1, m2, rng):
    E1 = (M * M + m1 * m1 - m2 * m2) / (2 * M)
    p = np.sqrt(max(E1 * E1 - m1 * m1, 0.0))
    c = rng.uniform(-0.98, 0.98)
    ph = rng.uniform(-3.0, 3.0)
    s = np.sqrt(1 - c * c)
    return np.array([E1, p * s * np.cos(ph), p * s * np.sin(ph), p * c])


def _boost(p, frame):
    M = np.sqrt(frame[0] ** 2 - frame[1:] @ frame[1:])
    b = frame[1:] / frame[0]
    b2 = b @ b
    if b2 == 0:
        return p.copy()
    g = frame[0] / M
    bp = b @ p[1:]
    return np.array([g * (p[0] + bp), *(p[1:] + ((g - 1) * bp / b2 + g * p[0]) * b)])


def generate_event(topology, final_masses, M0, rng):
    """Sequential two-body decays in the rest frame of the parent; intermediate masses uniform
    inside the allowed interval shrunk by 8% at both ends (keeps away from thresholds)."""

    def leaves(e):
        node = topology.edges[e].ending_node_id
        if node is None:
            return [e]
        return [x for c in topology.get_edge_ids_outgoing_from_node(node) for x in leaves(c)]

    def decay(e, P, M):
        node = topology.edges[e].ending_node_id
        if node is None:
            return {e: P}
        c1, c2 = sorted(topology.get_edge_ids_outgoing_from_node(node))
        l1, l2 = leaves(c1), leaves(c2)
        mn1 = sum(final_masses[i] for i in l1)
        mn2 = sum(final_masses[i] for i in l2)
        m1, m2 = mn1, mn2
        if len(l1) > 1:
            span = M - mn2 - mn1
            m1 = mn1 + span * rng.uniform(0.08, 0.92)
        if len(l2) > 1:
            span = M - m1 - mn2
            m2 = mn2 + span * rng.uniform(0.08, 0.92)
        p1 = _two_body(M, m1, m2, rng)
        p2 = np.array([M - p1[0], *(-p1[1:])])
        d = decay(c1, _boost(p1, P), m1)
        d.update(decay(c2, _boost(p2, P), m2))
        return d

    (init,) = topology.incoming_edge_ids
    return decay(init, np.array([M0, 0.0, 0.0, 0.0]), M0)


# --------------------------------------------------------------------------- structure (T1)
class StructureError(Exception):
    pass


def _z2(q) -> int:
    q2 = 2 * sp.Rational(q)
    if not q2.is_Integer:
        raise StructureError(f"not a half-integer: {q}")
    return int(q2)


def extract_chains(model, reaction, dpd: bool):
    """Chain structure of model.intensity = PoolSum(|PoolSum(A[...] * prod WignerD, inner)|^2, outer).
    Fail-closed: every factor and every inner pool must be used exactly once."""
    from sympy.physics.quantum.spin import WignerD

    from ampform.sympy import PoolSum

    top = model.intensity
    if not isinstance(top, PoolSum):
        raise StructureError("intensity is not a PoolSum")
    body = top.expression
    if not (isinstance(body, sp.Pow) and body.exp == 2 and isinstance(body.base, sp.Abs)):
        raise StructureError(f"intensity body is not Abs(..)**2: {type(body)}")
    amp = body.base.args[0]
    # the outer pools are Python sets in the code: their order is immaterial (Add commutes)
    outer = [(s, sorted(_z2(v) for v in vals)) for s, vals in top.indices]
    outer_syms = [s for s, _ in outer]
    if not isinstance(amp, PoolSum):
        raise StructureError("aligned amplitude is not a PoolSum")
    inner = {s: [_z2(v) for v in vals] for s, vals in amp.indices}
    if len(inner) != len(amp.indices):
        raise StructureError("duplicate summation index")
    factors = list(sp.Mul.make_args(amp.expression))
    indexed = [f for f in factors if isinstance(f, sp.Indexed)]
    wig = [f for f in factors if isinstance(f, WignerD)]
    rest = [f for f in factors if f not in indexed and f not in wig and f != 1]
    if len(indexed) != 1 or rest:
        raise StructureError(f"unexpected factors {rest} / {len(indexed)} amplitudes")
    idx = indexed[0].indices
    if len(idx) != len(outer):
        raise StructureError("amplitude rank differs from the number of outer sums")
    (i0,) = reaction.initial_state
    state_ids = [i0, *sorted(reaction.final_state)]
    angles = {}
    used = set()
    used_pools = set()
    passes, chains = [], []
    for pos, (ix, (osym, opool)) in enumerate(zip(idx, outer)):
        sid = state_ids[pos]
        part = reaction.initial_state[sid] if sid == i0 else reaction.final_state[sid]
        if ix == osym:  # used directly
            if chains:
                raise StructureError("pass-through index after a chain")
            passes.append(opool)
            continue
        coeff, sym = ix.as_coeff_Mul()
        if coeff not in (1, -1) or sym not in inner:
            raise StructureError(f"amplitude index {ix} is not +-(summed index)")
        links, pools = [], []
        cur = sym
        while True:
            if cur in used_pools:
                raise StructureError("summed index visited twice")
            used_pools.add(cur)
            pools.append(inner[cur])
            cand = [k for k, f in enumerate(wig) if k not in used and cur in (f.args[1], f.args[2])]
            if not cand:
                links.append(("LOne", 0))
                break
            if len(cand) != 1:
                raise StructureError(f"index {cur} occurs in {len(cand)} unused factors")
            f = wig[cand[0]]
            used.add(cand[0])
            if _z2(f.args[0]) != _z2(part.spin):
                raise StructureError("WignerD j differs from the particle's spin")
            ang = angles.setdefault(tuple(f.args[3:]), len(angles))
            if f.args[2] == cur and f.args[1] != cur:
                kind, nxt = "LD", f.args[1]
            elif f.args[1] == cur and f.args[2] != cur:
                kind, nxt = "LDt", f.args[2]
            else:
                raise StructureError("WignerD with both indices equal")
            links.append((kind, ang))
            if nxt == osym:
                break
            if nxt not in inner:
                raise StructureError(f"factor leads to {nxt}, neither summed nor the outer index")
            cur = nxt
        chains.append({
            "name": f"{part.name}#{sid}", "s2": _z2(part.spin), "massless": bool(part.mass == 0.0),
            "from_range": not dpd, "neg": coeff == -1, "outer": opool,
            "pools": pools, "links": links,
        })
    if len(used) != len(wig) or used_pools != set(inner):
        raise StructureError("unused WignerD factors or summation indices")
    return {"pass": passes, "chains": chains}
