"""Parse the value printed by `Eval vm_compute in ...` (Coq 8.16 term syntax) into Python data.

  constructor applications  ->  ("Ctor", [args])       bare constructors -> ("Ctor", [])
  lists [a; b]              ->  python list            tuples (a, b) -> python tuple
  strings "a""b"            ->  python str             integers -> int;  (a # b) -> Fraction
"""
from __future__ import annotations

import re
from fractions import Fraction

TOKEN = re.compile(r'\s*(?:("(?:[^"]|"")*")|(-?\d+)|([A-Za-z_][A-Za-z0-9_\'.]*)|([()\[\];,#%]|:=|\{\||\|\}))')


def tokenize(text: str):
    pos, out = 0, []
    n = len(text)
    while pos < n:
        if text[pos:].strip() == "":
            break
        m = TOKEN.match(text, pos)
        if not m:
            raise ValueError(f"cannot tokenize at {pos}: {text[pos:pos+40]!r}")
        pos = m.end()
        s, num, ident, punct = m.groups()
        if s is not None:
            out.append(("str", s[1:-1].replace('""', '"')))
        elif num is not None:
            out.append(("int", int(num)))
        elif ident is not None:
            out.append(("id", ident))
        else:
            out.append(("p", punct))
    return out


class Parser:
    def __init__(self, toks):
        self.t, self.i = toks, 0

    def peek(self):
        return self.t[self.i] if self.i < len(self.t) else ("eof", None)

    def eat(self, kind=None, val=None):
        tok = self.peek()
        if (kind and tok[0] != kind) or (val is not None and tok[1] != val):
            raise ValueError(f"expected {kind} {val}, got {tok} at token {self.i}")
        self.i += 1
        return tok

    def atom(self):
        k, v = self.peek()
        if k == "str" or k == "int":
            self.i += 1
            return v
        if k == "id":
            self.i += 1
            return (v, [])
        if (k, v) == ("p", "["):
            self.i += 1
            items = []
            if self.peek() != ("p", "]"):
                items.append(self.term())
                while self.peek() == ("p", ";"):
                    self.i += 1
                    items.append(self.term())
            self.eat("p", "]")
            return items
        if (k, v) == ("p", "("):
            self.i += 1
            first = self.term()
            if self.peek() == ("p", "#"):
                self.i += 1
                den = self.term()
                first = Fraction(first, den)
            items = [first]
            while self.peek() == ("p", ","):
                self.i += 1
                items.append(self.term())
            self.eat("p", ")")
            if self.peek() == ("p", "%"):  # scope delimiter
                self.i += 1
                self.eat("id")
            return items[0] if len(items) == 1 else tuple(items)
        raise ValueError(f"unexpected token {k} {v} at {self.i}")

    def term(self):
        head = self.atom()
        if isinstance(head, tuple) and len(head) == 2 and isinstance(head[0], str) and head[1] == [] \
                and self.peek()[0] in ("str", "int", "id") or (isinstance(head, tuple) and len(head) == 2
                                                                 and isinstance(head[0], str) and head[1] == []
                                                                 and self.peek() in (("p", "("), ("p", "["))):
            args = []
            while self.peek()[0] in ("str", "int", "id") or self.peek() in (("p", "("), ("p", "[")):
                args.append(self.atom())
            return (head[0], args)
        return head


def parse_value(text: str):
    """text: the part after '= ' and before the final ': type' of an Eval output."""
    p = Parser(tokenize(text))
    v = p.term()
    if p.peek()[0] != "eof":
        raise ValueError(f"trailing tokens at {p.i}: {p.t[p.i:p.i+5]}")
    return v


def eval_outputs(coqc_stdout: str) -> list[str]:
    """Split coqc output into the value texts of successive Eval commands."""
    outs = []
    for chunk in re.split(r"^\s*= ", coqc_stdout, flags=re.M)[1:]:
        # value ends at the last "\n     : " type annotation
        idx = chunk.rfind("\n     : ")
        outs.append(chunk[:idx] if idx >= 0 else chunk)
    return outs
