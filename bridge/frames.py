"""Independent helicity-frame evaluator for C07, written from the documentation only.

Conventions taken from the docs (ampform usage/kinematics, get_boost_chain_suffix,
is_opposite_helicity_state, doctest of compute_helicity_angles) — NOT from angles.py:

* The helicity frame of a subsystem with four-momentum P (given in the current frame) has
  z' along the flight direction of P,  y' = z x P / |z x P|  (z the current z axis),
  x' = y' x z', and is at rest with respect to P (pure boost along z').  This is the frame
  one reaches by "rotate about z by -phi(P), rotate about y by -theta(P), boost along z".
  If P is along the z axis, phi(P) = atan2(0, 0) = 0 is used, i.e. y' = y.
* phi = atan2(p_y, p_x), theta = arccos(p_z / |p|) of a momentum in its current frame.
* Invariant mass = sqrt(E^2 - |p|^2) of the summed momenta.

No rotation matrices are used here: momenta are projected on the axes (x', y', z') and the
component along z' is boosted, which is a different computational route from the code's
BoostZ * RotationY * RotationZ products.  Everything is done in numpy.longdouble so that the
oracle's own rounding error is negligible against the float64 implementation.

Momenta: arrays of shape (n_events, 4) = (E, px, py, pz).
"""
from __future__ import annotations

import numpy as np

LD = np.longdouble


def as_ld(p):
    return np.asarray(p, dtype=LD)


def minkowski_norm2(p):
    p = as_ld(p)
    return p[:, 0] ** 2 - (p[:, 1] ** 2 + p[:, 2] ** 2 + p[:, 3] ** 2)


def phi_of(p):
    p = as_ld(p)
    return np.arctan2(p[:, 2], p[:, 1])


def theta_of(p):
    p = as_ld(p)
    n = np.sqrt(p[:, 1] ** 2 + p[:, 2] ** 2 + p[:, 3] ** 2)
    return np.arccos(np.clip(p[:, 3] / n, -1, 1))


def helicity_axes(P):
    """(x', y', z') unit vectors, each (n, 3), of the helicity frame of P."""
    P = as_ld(P)
    v = P[:, 1:]
    n = np.sqrt((v ** 2).sum(axis=1))
    z1 = v / n[:, None]
    # y' = z x P / |z x P| = (-Py, Px, 0) / pT
    pt = np.sqrt(v[:, 0] ** 2 + v[:, 1] ** 2)
    y1 = np.zeros_like(v)
    ok = pt > 0
    y1[ok, 0] = -v[ok, 1] / pt[ok]
    y1[ok, 1] = v[ok, 0] / pt[ok]
    y1[~ok, 1] = 1  # phi = atan2(0, 0) = 0
    x1 = np.cross(y1, z1)
    return x1, y1, z1


def into_helicity_frame(P, q):
    """Momentum q (n, 4) expressed in the helicity frame of P (n, 4)."""
    P, q = as_ld(P), as_ld(q)
    x1, y1, z1 = helicity_axes(P)
    qx = (q[:, 1:] * x1).sum(axis=1)
    qy = (q[:, 1:] * y1).sum(axis=1)
    qz = (q[:, 1:] * z1).sum(axis=1)
    pn = np.sqrt((P[:, 1:] ** 2).sum(axis=1))
    beta = pn / P[:, 0]
    gamma = 1 / np.sqrt((1 - beta) * (1 + beta))
    E2 = gamma * (q[:, 0] - beta * qz)
    z2 = gamma * (qz - beta * q[:, 0])
    return np.stack([E2, qx, qy, z2], axis=1)


def angles_in_chain(momenta: dict, target_ids, frames):
    """(phi, theta) of sum_{i in target_ids} p_i after the chain of helicity frames.

    frames: list of id lists, outermost first; frame k is the helicity frame of the summed
    momenta of frames[k], taken in frame k-1 (frame -1 = the frame the momenta are given in).
    """
    cur = {i: as_ld(p) for i, p in momenta.items()}
    for ids in frames:
        P = sum(cur[i] for i in ids)
        cur = {i: into_helicity_frame(P, cur[i]) for i in ids}
    q = sum(cur[i] for i in target_ids)
    return phi_of(q), theta_of(q)


def invariant_mass2(momenta: dict, ids):
    return minkowski_norm2(sum(as_ld(momenta[i]) for i in ids))
