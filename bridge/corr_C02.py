"""C02 correspondence: the Gallina helicity formula (coq/theories/Helicity.v) against the implementation.

phase 1:  corr_C02.py gen <seed> <n> <prefix> <nshards>      (writes <prefix>_<k>.v and <prefix>_<k>.pkl)
   draws (reaction, configuration) cases, formulates the model with the CURRENT /repo, extracts the
   plain data of the helicity formula INDEPENDENTLY from the qrules transitions (own child ordering,
   own identical-particle symmetrisation, own grouping), writes them as Gallina literals.
phase 2:  corr_C02.py cmp <state.pkl> <coqc-output>
   parses the trees computed by `Eval vm_compute`, rebuilds them through SymPy's constructors and
   compares with model.amplitudes / model.components / model.expression by `==`.
Prints one JSON line.
"""
from __future__ import annotations

import collections
import itertools
import json
import os
import pickle
import random
import sys
from fractions import Fraction

import common  # noqa: F401
import modelgen as mg
import reactions
import sympy as sp

common.assert_repo_import()


# ---------------------------------------------------------------- independent data extraction
def attached(topology, edge_id):
    edge = topology.edges[edge_id]
    if edge.ending_node_id is None:
        return [edge_id]
    out = []
    for e in topology.get_edge_ids_outgoing_from_node(edge.ending_node_id):
        out += attached(topology, e)
    return sorted(out)


def ordered_children(topology, node_id):
    """helicity child first: the child whose attached final-state ids come first lexicographically"""
    a, b = sorted(topology.get_edge_ids_outgoing_from_node(node_id))
    if tuple(attached(topology, a)) > tuple(attached(topology, b)):
        a, b = b, a
    return a, b


def outer_ids(topology):
    return sorted(topology.incoming_edge_ids) + sorted(topology.outgoing_edge_ids)


def symmetrised(transition):
    """All distinct relabelings that exchange identical final-state particles sitting at different nodes."""
    from qrules.topology import FrozenTransition

    topo = transition.topology
    fs = sorted(topo.outgoing_edge_ids)
    groups = collections.defaultdict(list)
    for i in fs:
        groups[transition.states[i].particle.name].append(i)
    perms_per_group = [list(itertools.permutations(g)) for g in groups.values() if len(g) > 1]
    group_ids = [g for g in groups.values() if len(g) > 1]
    seen, out = set(), []
    for combo in itertools.product(*perms_per_group) if perms_per_group else [()]:
        mapping = {}
        for g, perm in zip(group_ids, combo):
            mapping.update(dict(zip(g, perm)))
        mapping = {k: v for k, v in mapping.items() if k != v}
        new_topo = topo.relabel_edges(mapping) if mapping else topo
        if mapping and new_topo == topo:
            # the exchanged particles hang on the same node(s) in the same way: the relabelled transition is this
            # decay chain with another helicity assignment (a transition of its own), not a second chain
            continue
        new_states = {mapping.get(i, i): s for i, s in transition.states.items()}
        key = (new_topo, tuple(sorted((i, s.particle.name, s.spin_projection) for i, s in new_states.items())))
        if key in seen:
            continue
        seen.add(key)
        out.append(FrozenTransition(new_topo, new_states, transition.interactions))
    return out


def z2(x) -> int:
    f = Fraction(x) * 2
    assert f.denominator == 1, x
    return int(f)


class Tables:
    def __init__(self, full=False):
        self.key2obj = {}
        self.alias = {}
        self.dyn = []
        self.full = full  # full: real symbol keys and lineshape trees (for the in-Coq tie)

    def sym(self, s):
        full = mg.key_of(s)
        if self.full:
            return full
        if full not in self.alias:
            self.alias[full] = f"s{len(self.alias)}"
        k = self.alias[full]
        self.key2obj[k] = s
        return k

    def placeholder(self, expr):
        if self.full:
            return "$tree:" + mg.ser_struct(expr)
        k = f"$dyn{len(self.dyn)}"
        self.dyn.append(expr)
        self.key2obj[k] = expr
        return k


def extract(cfg, reaction, builder, tables, style="physical"):
    """-> (groups, chain_labels); groups = list of (outer projections, [(amp symbol, [chain dict])]).

    style "physical": a chain obtained by exchanging identical final-state particles contributes to the
        amplitude of ITS OWN outer spin projections (only amplitudes of one final state interfere);
    style "pinned":   it is added to the amplitude of the transition it was derived from (what the
        pinned implementation does; differs only when the exchanged particles have different helicities).
    """
    from ampform.dynamics.builder import TwoBodyKinematicVariableSet
    from ampform.helicity.decay import TwoBodyDecay
    from ampform.helicity.naming import create_amplitude_base, get_helicity_angle_symbols

    canonical = reaction.formalism == "canonical-helicity"
    naming = builder.naming
    mapping = getattr(naming, "parity_partner_coefficient_mapping", {})

    def outer_of(t):
        return tuple(sp.Rational(t.states[i].spin_projection) for i in outer_ids(t.topology))

    def unordered_key(t):
        ini = sorted((t.states[i].particle.name, t.states[i].spin_projection) for i in t.topology.incoming_edge_ids)
        fin = sorted((t.states[i].particle.name, t.states[i].spin_projection) for i in t.topology.outgoing_edge_ids)
        return ("unordered", tuple(ini), tuple(fin))

    by_outer = collections.OrderedDict()
    first_outer = {}
    if style == "physical":
        for t in reaction.transitions:  # fixes the order of groups and of topologies inside a group
            by_outer.setdefault(outer_of(t), collections.OrderedDict()).setdefault(t.topology, [])
        for t in reaction.transitions:
            for pt in symmetrised(t):
                by_outer.setdefault(outer_of(pt), collections.OrderedDict()).setdefault(t.topology, []).append(pt)
    else:
        # the pinned implementation collects, per topology, the transitions with the same UNORDERED outer projections into one
        # amplitude, names it after the first of them, and adds amplitudes of different topologies coherently when those
        # NAMES carry the same index values (for thinned helicity sets the first transitions of two topologies may differ)
        for t in reaction.transitions:
            first_outer.setdefault((unordered_key(t), t.topology), outer_of(t))
        for t in reaction.transitions:
            fo = first_outer[(unordered_key(t), t.topology)]
            by_outer.setdefault(fo, collections.OrderedDict()).setdefault(t.topology, []).extend(symmetrised(t))
    groups, chain_labels = [], {}
    for outer, by_topo in by_outer.items():
        amps = []
        for topo, pts in by_topo.items():
            base = create_amplitude_base(topo)
            amp_symbol = base[outer]
            chains = []
            for pt in pts:
                nodes = []
                pref = Fraction(1)
                for node_id in sorted(pt.topology.nodes):
                    (parent_id,) = pt.topology.get_edge_ids_ingoing_to_node(node_id)
                    a, b = ordered_children(pt.topology, node_id)
                    P, A, B = pt.states[parent_id], pt.states[a], pt.states[b]
                    phi, theta = get_helicity_angle_symbols(pt.topology, a)
                    inter = pt.interactions[node_id]
                    ls = None
                    if canonical:
                        ls = (z2(inter.l_magnitude), z2(inter.s_magnitude))
                    hsym = None
                    suffix = naming.generate_two_body_decay_suffix(pt, node_id)
                    if cfg["couplings"]:
                        hsym = tables.sym(sp.Symbol(f"H_{{{suffix}}}"))
                    if inter.parity_prefactor is not None and suffix in mapping and mapping[suffix] != suffix:
                        pref *= Fraction(inter.parity_prefactor)
                    dyn = None
                    decay = TwoBodyDecay.from_transition(pt, node_id)
                    if decay in builder.dynamics:
                        dyn_builder = builder.dynamics[decay]
                        # the node's OWN variables, built here from the qrules data (not by ampform):
                        # invariant masses of the decaying state and of its two daughters, L of this node
                        mass = lambda e: sp.Symbol("m_" + "".join(map(str, attached(pt.topology, e))), nonnegative=True)  # noqa: E731
                        L = inter.l_magnitude
                        if L is None and Fraction(P.particle.spin).denominator == 1:
                            L = int(P.particle.spin)
                        vs = TwoBodyKinematicVariableSet(incoming_state_mass=mass(parent_id), outgoing_state_mass1=mass(a),
                                                         outgoing_state_mass2=mass(b), helicity_theta=theta, helicity_phi=phi,
                                                         angular_momentum=L)
                        expr, _ = dyn_builder(decay.parent.particle, vs)
                        if expr != 1:
                            dyn = tables.placeholder(expr)
                    nodes.append({"J": z2(P.particle.spin), "M": z2(P.spin_projection),
                                  "as": z2(A.particle.spin), "al": z2(A.spin_projection),
                                  "bs": z2(B.particle.spin), "bl": z2(B.spin_projection),
                                  "phi": tables.sym(phi), "theta": tables.sym(theta),
                                  "LS": ls, "H": hsym, "dyn": dyn})
                csym = None
                if not cfg["couplings"]:
                    csym = tables.sym(sp.Symbol(f"C_{{{naming.generate_sequential_amplitude_suffix(pt)}}}"))
                chain = {"C": csym, "pref": None if pref == 1 else pref, "nodes": nodes}
                chains.append(chain)
                chain_labels.setdefault("A_{" + naming.generate_amplitude_name(pt) + "}", []).append(chain)
            amps.append((amp_symbol, chains))
        groups.append((outer, amps))
    return groups, chain_labels


# ---------------------------------------------------------------- Gallina literals
def cs(s):
    return "None" if s is None else "(Some " + mg.cstr(s) + ")"


def qlit(q):
    q = Fraction(q)
    return f"(({q.numerator}) # {q.denominator})"


def node_lit(n):
    ls = "None" if n["LS"] is None else f"(Some (({n['LS'][0]})%Z, ({n['LS'][1]})%Z))"
    if n["dyn"] is None:
        dyn = "None"
    elif n["dyn"].startswith("$tree:"):
        dyn = "(Some " + n["dyn"][6:] + ")"
    else:
        dyn = "(Some (Sym " + mg.cstr(n["dyn"]) + "))"
    return ("{| nJ := (%d)%%Z; nM := (%d)%%Z; na_s := (%d)%%Z; na_l := (%d)%%Z; nb_s := (%d)%%Z; nb_l := (%d)%%Z; "
            "nphi := %s; ntheta := %s; nLS := %s; nH := %s; ndyn := %s |}") % (
        n["J"], n["M"], n["as"], n["al"], n["bs"], n["bl"], mg.cstr(n["phi"]), mg.cstr(n["theta"]), ls, cs(n["H"]), dyn)


def chain_lit(c):
    pref = "None" if c["pref"] is None else f"(Some {qlit(c['pref'])})"
    return "{| cC := %s; cpref := %s; cnodes := [%s] |}" % (cs(c["C"]), pref, "; ".join(node_lit(n) for n in c["nodes"]))


# ---------------------------------------------------------------- rebuild
def rebuild(v, key2obj):
    from sympy.physics.quantum.cg import CG
    from sympy.physics.quantum.spin import WignerD

    tag, args = v
    if tag == "Sym":
        return key2obj[args[0]]
    if tag == "Num":
        q = args[0]
        return sp.Rational(q.numerator, q.denominator) if isinstance(q, Fraction) else sp.Integer(q)
    assert tag == "App", tag
    head, items = args
    xs = [rebuild(x, key2obj) for x in items]
    h = head[0]
    if h == "HMul":
        return sp.Mul(*xs)
    if h == "HAdd":
        return sp.Add(*xs)
    if h == "HPow":
        return sp.Pow(*xs)
    if h == "HAbs":
        return sp.Abs(*xs)
    if h == "HOther":
        name = head[1][0]
        if name == "WignerD":
            return WignerD(*xs)
        if name == "CG":
            return CG(*xs)
    raise ValueError(f"cannot rebuild head {head}")


def gen(seed, n, cases_prefix, nshards):
    rng = random.Random(seed * 104729 + 7)
    names = reactions.names()
    fixed = [mg.default_cfg(nm) for nm in names]
    fixed += [mg.default_cfg("jpsi_gpipi_f2_can", dyn="bwff", dyn_names=["J/psi(1S)", "f(2)(1270)"]),
              mg.default_cfg("jpsi_gpipi_hel", dyn="bwff"), mg.default_cfg("jpsi_ksp1750_hel", couplings=True),
              mg.default_cfg("lc_pkpi_can", dyn="bw"), mg.default_cfg("d0_k3pi_hel", dyn="bw"),
              mg.default_cfg("jpsi_ksp1750_can", ins_parent=True), mg.default_cfg("jpsi_ksp_hel", ins_child=False)]
    cfgs = list(fixed[: max(1, n)]) if n < len(fixed) else list(fixed)
    while len(cfgs) < n:
        c = mg.random_cfg(rng, rng.choice(names), unaligned=True)
        c["align"] = "none"
        c["permutate"] = False
        if mg.same_node_identical_spinful(c["reaction"]):
            c["keep"] = None  # (see modelgen.same_node_identical_spinful)
        cfgs.append(c)
    gen_cfgs(cfgs, cases_prefix, nshards)


def gen_cfgs(cfgs, cases_prefix, nshards):
    HEAD = "From AV Require Import Helicity.\nSet Printing Width 1000000.\nSet Printing Depth 1000000.\nOpen Scope string_scope.\n"
    all_lines = [[HEAD] for _ in range(nshards)]
    all_state = [[] for _ in range(nshards)]
    for ci, cfg in enumerate(cfgs):
        lines, state = all_lines[ci % nshards], all_state[ci % nshards]
        try:
            r, b, model = mg.build(cfg)
        except ValueError as e:
            if "Angular momentum is not defined" in str(e):
                continue
            raise
        tables = Tables()
        variants = {}
        for style in ("physical", "pinned"):
            groups, chain_labels = extract(cfg, r, b, tables, style)
            gl = []
            for outer, amps in groups:
                gl.append("[" + "; ".join("[" + "; ".join(chain_lit(c) for c in chains) + "]" for _, chains in amps) + "]")
            variants[style] = (groups, chain_labels, f"[{'; '.join(gl)}]")
        same = variants["physical"][2] == variants["pinned"][2]
        entry = {"ci": ci, "cfg": cfg, "key2obj": tables.key2obj, "variants": {},
                 "model": {"expression": model.expression, "amplitudes": dict(model.amplitudes),
                           "components": dict(model.components)}}
        for style in ("physical",) if same else ("physical", "pinned"):
            groups, chain_labels, lit = variants[style]
            nm = f"case{ci}_{style}"
            lines.append(f"Definition {nm} : list hgroup := {lit}.")
            lines.append(f'Eval vm_compute in ("{nm}", intensity_expr {nm}, map group_expr {nm}, '
                         f"map (map amp_expr) {nm}, map (map (map chain_expr)) {nm}).")
            entry["variants"][style] = {
                "amp_symbols": [[a for a, _ in amps] for _, amps in groups],
                "n_chains": sum(len(ch) for _, amps in groups for _, ch in amps),
                "chain_labels": {lab: [(gi, ai, chi) for gi, (_, amps) in enumerate(groups)
                                       for ai, (_, chains) in enumerate(amps)
                                       for chi, c in enumerate(chains) if any(c is x for x in cl)]
                                 for lab, cl in chain_labels.items()}}
        state.append(entry)
    for k in range(nshards):
        flush(all_lines[k], all_state[k], f"{cases_prefix}_{k}.v", f"{cases_prefix}_{k}.pkl")
    print(json.dumps({"cases": sum(len(s) for s in all_state)}))


def flush(lines, state, cases_path, state_path):
    with open(cases_path, "w") as f:
        f.write("\n".join(lines) + "\n")
    with open(state_path, "wb") as f:
        pickle.dump(state, f)


def cmp(state_path, coq_out_path):
    import coqio
    from ampform.helicity.naming import generate_transition_label  # noqa: F401

    state = pickle.load(open(state_path, "rb"))
    outs = coqio.eval_outputs(open(coq_out_path).read())
    failures, samples = [], []
    kinds = collections.Counter()
    n_objects = 0
    n_out = sum(len(st["variants"]) for st in state)
    if len(outs) != n_out:
        print(json.dumps({"error": f"{len(outs)} Coq outputs for {n_out} evaluations"}))
        return
    it = iter(outs)
    for st in state:
        k2o, model, cfg = st["key2obj"], st["model"], st["cfg"]
        tag = f"{cfg['reaction']}|couplings={cfg['couplings']}|dyn={cfg['dyn']}|thin={cfg['keep'] is not None}"
        kinds[cfg["reaction"].rsplit("_", 1)[-1]] += 1
        kinds["couplings" if cfg["couplings"] else "coefficients"] += 1
        kinds[f"dyn={cfg['dyn']}"] += 1
        results = {}
        for style, var in st["variants"].items():
            name, inten, groups, amps, chains = coqio.parse_value(next(it))
            assert name == f"case{st['ci']}_{style}", name
            fails = []

            def fail(sig, what):
                fails.append((sig, what))

            n_objects += 1
            if rebuild(inten, k2o) != model["expression"]:
                fail("expression_differs_from_formula", "model.expression != helicity formula over the transitions")
            defined = set()
            for gi, row in enumerate(amps):
                for ai, a in enumerate(row):
                    symb = var["amp_symbols"][gi][ai]
                    defined.add(symb)
                    n_objects += 1
                    ra = rebuild(a, k2o)
                    if symb not in model["amplitudes"]:
                        if ra != 0:
                            fail("amplitude_missing", f"{symb} not in model.amplitudes")
                    elif ra != model["amplitudes"][symb]:
                        fail("amplitude_differs_from_formula", f"{symb} is not the coherent sum of its chains")
            for symb, val in model["amplitudes"].items():
                if symb not in defined and val != 0:
                    fail("amplitude_without_transition_nonzero", f"{symb} = {str(val)[:80]} has no transition")
            for lab, locs in var["chain_labels"].items():
                n_objects += 1
                if lab not in model["components"]:
                    fail("component_missing", f"{lab} not in model.components")
                    continue
                cands = [rebuild(chains[gi][ai][chi], k2o) for gi, ai, chi in locs]
                if not any(c == model["components"][lab] for c in cands):
                    fail("chain_component_differs_from_formula", f"{lab} is not the chain term of the formula")
            icomps = [v for k, v in model["components"].items() if k.startswith("I_")]
            nz_groups = [rebuild(g, k2o) for g in groups]
            nz_groups = [g for g in nz_groups if g != 0]
            if len(icomps) != len(nz_groups):
                fail("intensity_component_count", f"{len(icomps)} I_ components for {len(nz_groups)} outer-projection groups")
            for ge in nz_groups:
                n_objects += 1
                if not any(ge == v for v in icomps):
                    fail("intensity_component_differs_from_formula", "an I_{...} component is not |coherent sum|^2 of its group")
            results[style] = fails
        if results["physical"]:
            if "pinned" in results and not results["pinned"]:
                failures.append({"signature": "identical_particle_exchange_mixes_final_states",
                                 "what": f"{tag}: chains obtained by exchanging identical final-state particles with different "
                                         "helicities are added to the amplitude of the original outer projections "
                                         f"({results['physical'][0][1]})", "case": {"cfg": cfg}})
            else:
                for sig, what in results["physical"]:
                    failures.append({"signature": sig, "what": f"{tag}: {what}", "case": {"cfg": cfg}})
        if len(samples) < 3:
            samples.append({"cfg": cfg, "chains": st["variants"]["physical"]["n_chains"]})
    print(json.dumps({"evaluations": n_objects, "distinct": len(state), "samples": samples, "kinds": dict(kinds),
                      "failures": failures}))


def replay(path):
    """Re-run the correspondence for the one stored configuration; still fails iff the stored signature reproduces."""
    import contextlib
    import io
    import shutil
    import subprocess
    import tempfile

    doc = json.load(open(path))
    cfg = doc["replay"]["case"]["cfg"]
    want = doc["signature"].split(":")[0]
    verif = os.path.dirname(os.path.dirname(os.path.abspath(__file__)))
    tmp = tempfile.mkdtemp(prefix="C02_replay_", dir=os.path.join(verif, "build"))
    try:
        prefix = os.path.join(tmp, "Cases_C02")
        with contextlib.redirect_stdout(io.StringIO()):
            gen_cfgs([cfg], prefix, 1)
        p = subprocess.run(["coqc", "-Q", os.path.join(verif, "coq", "theories"), "AV", "-Q", ".", "AVchk", "Cases_C02_0.v"],
                           cwd=tmp, capture_output=True, text=True, timeout=1500)
        if p.returncode != 0:
            print(json.dumps({"still_fails": True, "fails": [["coqc", p.stderr[-300:]]]}))
            return
        with open(os.path.join(tmp, "out_0.txt"), "w") as f:
            f.write(p.stdout)
        buf = io.StringIO()
        with contextlib.redirect_stdout(buf):
            cmp(prefix + "_0.pkl", os.path.join(tmp, "out_0.txt"))
        res = json.loads([l for l in buf.getvalue().splitlines() if l.startswith("{")][-1])
        fails = [[f["signature"], f["what"][:200]] for f in res["failures"] if f["signature"] == want]
        print(json.dumps({"still_fails": bool(fails), "fails": fails[:5]}))
    finally:
        shutil.rmtree(tmp, ignore_errors=True)


if __name__ == "__main__":
    if sys.argv[1] == "--replay":
        replay(sys.argv[2])
    elif sys.argv[1] == "gen":
        gen(int(sys.argv[2]), int(sys.argv[3]), sys.argv[4], int(sys.argv[5]))
    else:
        cmp(sys.argv[2], sys.argv[3])
