"""C09 model regeneration: the T-matrices of NonRelativisticKMatrix / RelativisticKMatrix as
trees in the symbols K[i, j], rho_i (formulate(..., parametrize=False)), and the two pole
parametrisations with SYMBOLIC n_poles (a sp.Sum), regenerated from /repo on every run.

usage: symgen_C09.py <out.v> [n1,n2,...]      (default sizes 1,2)
"""
import sys
import time

import common  # noqa: F401
import sympy as sp
from ser import count_nodes, ser

common.assert_repo_import()
from ampform.dynamics import EnergyDependentWidth  # noqa: E402
from ampform.dynamics.kmatrix import NonRelativisticKMatrix, RelativisticKMatrix  # noqa: E402

out = sys.argv[1]
sizes = [int(x) for x in sys.argv[2].split(",")] if len(sys.argv) > 2 else [1, 2]
NPARAM = 3  # channel indices 0..NPARAM-1 for the parametrisation entries


def mat(m: sp.Matrix) -> str:
    rows = []
    for i in range(m.rows):
        rows.append("[" + ";\n    ".join(ser(m[i, j]) for j in range(m.cols)) + "]")
    return "[" + ";\n   ".join(rows) + "]"


lines = ["(* GENERATED on every run from /repo by bridge/symgen_C09.py - do not edit *)",
         "From AV Require Import Ast.", "Open Scope string_scope.", ""]
report = {}
for n in sizes:
    t0 = time.time()
    t_nr = NonRelativisticKMatrix.formulate(n, 1, parametrize=False)
    t_rel = RelativisticKMatrix.formulate(n, 1, parametrize=False)
    t_hat = RelativisticKMatrix.formulate(n, 1, parametrize=False, return_t_hat=True)
    for tag, m in (("nr_T", t_nr), ("rel_T", t_rel), ("rel_That", t_hat)):
        assert m.shape == (n, n), (tag, m.shape)
        lines.append(f"Definition gen_{tag}{n} : list (list expr) :=\n  {mat(m)}.\n")
        report[f"{tag}{n}"] = sum(count_nodes(e) for e in m)
    report[f"t{n}"] = round(time.time() - t0, 1)

if sizes != [3]:
    s = sp.Symbol("s", nonnegative=True)
    kw = dict(
        s=s,
        pole_position=sp.IndexedBase("m", nonnegative=True),
        pole_width=sp.IndexedBase("Gamma", nonnegative=True),
        residue_constant=sp.IndexedBase("gamma", nonnegative=True),
        n_poles=sp.Symbol("n_poles", integer=True, positive=True),
        pole_id=sp.Symbol("R", integer=True, positive=True),
    )
    m_a = sp.IndexedBase("m_a", nonnegative=True)
    m_b = sp.IndexedBase("m_b", nonnegative=True)
    L, d = sp.Symbol("L"), sp.Symbol("d")
    rhoX = sp.Function("rhoX")
    nr, rel = [], []
    for i in range(NPARAM):
        for j in range(NPARAM):
            a = NonRelativisticKMatrix.parametrization(i=i, j=j, **kw)
            b = NonRelativisticKMatrix.parametrization(i=j, j=i, **kw)
            nr.append(f"(({i}%nat, {j}%nat), {ser(a)}, {ser(b)})")
            a = RelativisticKMatrix.parametrization(i=i, j=j, m_a=m_a, m_b=m_b, angular_momentum=L,
                                                    meson_radius=d, phsp_factor=rhoX, **kw)
            b = RelativisticKMatrix.parametrization(i=j, j=i, m_a=m_a, m_b=m_b, angular_momentum=L,
                                                    meson_radius=d, phsp_factor=rhoX, **kw)
            rel.append(f"(({i}%nat, {j}%nat), {ser(a)}, {ser(b)})")
    lines.append("Definition gen_nr_param : list ((nat * nat) * expr * expr) :=\n  ["
                 + ";\n   ".join(nr) + "].\n")
    lines.append("Definition gen_rel_param : list ((nat * nat) * expr * expr) :=\n  ["
                 + ";\n   ".join(rel) + "].\n")
    report["param"] = len(nr) + len(rel)

    # the energy-dependent width, one level of evaluate(): phase space and form factor stay opaque
    s0, m0, g0, ma0, mb0 = sp.symbols("s m0 g0 ma mb")
    edw = EnergyDependentWidth(s0, m0, g0, ma0, mb0, L, d, phsp_factor=rhoX).evaluate()
    lines.append(f"Definition gen_edw : expr :=\n  {ser(edw)}.\n")

    # RelativisticKMatrix.formulate with MARKER arguments (argument forwarding, cf. C10)
    Lx, dx = sp.Symbol("Lx"), sp.Symbol("dx")
    npoles = sp.Symbol("n_poles", integer=True, positive=True)
    marked = []
    for hat in (False, True):
        for n in (1, 2):
            m = RelativisticKMatrix.formulate(n, npoles, parametrize=True, return_t_hat=hat, phsp_factor=rhoX,
                                              angular_momentum=Lx, meson_radius=dx)
            marked.append(f'("return_t_hat={hat}/n={n}", [' + "; ".join(ser(e) for e in m) + "])")
    lines.append("Definition gen_marked_rel : list (string * list expr) :=\n  ["
                 + ";\n   ".join(marked) + "].\n")
    report["marked"] = len(marked)

    # the same with the marker given as a plain FUNCTION, after a call with ANOTHER function of the same
    # qualified name (closures of one factory): widths unfolded one level, so that the phase-space
    # function actually used inside them is visible
    def make_phsp(head):
        def rho(s_, m_a_, m_b_):
            return head(s_, m_a_, m_b_)
        return rho

    def unfold_widths(e):
        return e.replace(lambda x: isinstance(x, EnergyDependentWidth), lambda x: x.evaluate())

    f_decoy, f_marker = make_phsp(sp.Function("rhoDecoy")), make_phsp(rhoX)
    assert f_decoy.__qualname__ == f_marker.__qualname__ and f_decoy is not f_marker
    hist = []
    for hat in (False, True):
        for n in (1, 2):
            kw = dict(parametrize=True, return_t_hat=hat, angular_momentum=Lx, meson_radius=dx)
            RelativisticKMatrix.formulate(n, npoles, phsp_factor=f_decoy, **kw)
            m = RelativisticKMatrix.formulate(n, npoles, phsp_factor=f_marker, **kw)
            hist.append(f'("return_t_hat={hat}/n={n}", [' + "; ".join(ser(unfold_widths(e)) for e in m) + "])")
    lines.append("Definition gen_marked_hist : list (string * list expr) :=\n  ["
                 + ";\n   ".join(hist) + "].\n")

with open(out, "w") as f:
    f.write("\n".join(lines))
print("ok", report)
