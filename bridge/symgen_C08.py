"""C08 model regeneration.

For every matrix class: (a) the entries of as_explicit(), (b) the per-event symbolic
meaning of the NumPy code generated from expr.doit() with cse on and off (symexec).
All entries are SymPy scalars over the momentum components / angles.
"""
import sys

import common  # noqa: F401
import numpy as np
import sympy as sp
from ser import ser
from symexec import clean_scalar, four_vector, symexec

common.assert_repo_import()
from ampform.kinematics.lorentz import (  # noqa: E402
    BoostMatrix,
    BoostZMatrix,
    FourMomentumSymbol,
    MinkowskiMetric,
    NegativeMomentum,
    RotationYMatrix,
    RotationZMatrix,
)

out = sys.argv[1]
p = FourMomentumSymbol("p", shape=[])
P, (E, px, py, pz) = four_vector("")
b = sp.Symbol("b", real=True)
a = sp.Symbol("a", real=True)
B1 = np.array([b], dtype=object)
A1 = np.array([a], dtype=object)


def scalarise(entry, args, inputs):
    """Meaning of one as_explicit() entry, through the numpy code of entry.doit()."""
    entry = sp.sympify(entry)
    if not entry.free_symbols:
        return entry
    val, _ = symexec(args, entry.doit(), inputs, cse=False)
    val = np.asarray(val, dtype=object).reshape(-1)
    assert val.shape == (1,), val.shape
    return clean_scalar(val[0])


def mat_explicit(M, args, inputs):
    ex = M.as_explicit()
    return [[scalarise(ex[i, j], args, inputs) for j in range(4)] for i in range(4)]


def mat_numpy(M, args, inputs, cse):
    val, src = symexec(args, M.doit(), inputs, cse=cse)
    val = np.asarray(val, dtype=object)
    assert val.shape == (1, 4, 4), val.shape
    return [[clean_scalar(val[0, i, j]) for j in range(4)] for i in range(4)]


def vec_numpy(V, args, inputs, cse):
    val, src = symexec(args, V.doit(), inputs, cse=cse)
    val = np.asarray(val, dtype=object)
    assert val.shape == (1, 4), val.shape
    return [clean_scalar(val[0, i]) for i in range(4)]


def coq_mat(m):
    return "[" + ";\n   ".join("[" + "; ".join(ser(e) for e in row) + "]" for row in m) + "]"


defs = {}
for name, M, args, inputs in [
    ("boost", BoostMatrix(p), [p], [P]),
    ("boostz", BoostZMatrix(b, n_events=sp.Symbol("n")), [b, sp.Symbol("n")], [B1, 1]),
    ("roty", RotationYMatrix(a, n_events=sp.Symbol("n")), [a, sp.Symbol("n")], [A1, 1]),
    ("rotz", RotationZMatrix(a, n_events=sp.Symbol("n")), [a, sp.Symbol("n")], [A1, 1]),
]:
    defs[f"{name}_explicit"] = mat_explicit(M, args, inputs)
    defs[f"{name}_numpy_cse"] = mat_numpy(M, args, inputs, True)
    defs[f"{name}_numpy_nocse"] = mat_numpy(M, args, inputs, False)
# rotations whose angle argument is a compound expression (sum, difference, multiple, negative)
c2 = sp.Symbol("c", real=True)
C1 = np.array([c2], dtype=object)
nsym = sp.Symbol("n")
for tag, ang in (("sum", a + c2), ("diff", a - c2), ("triple", 3 * a), ("neg", -a)):
    for name, cls in (("roty", RotationYMatrix), ("rotz", RotationZMatrix)):
        for cse in (True, False):
            defs[f"{name}_{tag}_numpy_{'cse' if cse else 'nocse'}"] = mat_numpy(
                cls(ang, n_events=nsym), [a, c2, nsym], [A1, C1, 1], cse)
defs["metric_numpy"] = mat_numpy(MinkowskiMetric(p), [p], [P], False)
defs["metric_explicit"] = [[sp.sympify(v) for v in row] for row in MinkowskiMetric(p).as_explicit().tolist()]
negp = {f"negp_{'cse' if c else 'nocse'}": vec_numpy(NegativeMomentum(p), [p], [P], c) for c in (True, False)}

with open(out, "w") as f:
    f.write("(* GENERATED on every run from /repo by bridge/symgen_C08.py *)\n"
            "From AV Require Import Ast.\nOpen Scope string_scope.\n\n")
    for k, m in defs.items():
        f.write(f"Definition {k} : list (list expr) :=\n  {coq_mat(m)}.\n\n")
    for k, v in negp.items():
        f.write(f"Definition {k} : list expr :=\n  [" + "; ".join(ser(e) for e in v) + "].\n\n")
print("ok", {k: sum(len(str(e)) for r in m for e in r) for k, m in defs.items()})
