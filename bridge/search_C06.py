"""C06 driver: T2 correspondence over operation histories + failing-input search.

  search_C06.py <seed> <n_histories> [--maxops K]
  search_C06.py --replay <file>

For every generated history (1..K ops, 1..3 builders sharing a reaction, all alignments, config
and naming flags, dynamics, extra topologies, permutate):
  * the Coq model (coq/theories/Purity.v, evaluated with vm_compute under the skeleton observed in
    this run, build/C06/Skel_C06.vo) says which (reaction, configuration) each Formulate refers
    to; an independent Python transcription must agree (else: model-disagreement);
  * the implementation executes the history in one process (under PYTHONHASHSEED in
    {0, 1, 4711, r}); the digest of every returned model (srepr of the six attributes, in
    dictionary order) must equal the digest obtained for that configuration by a canonical
    build in a FRESH interpreter under the same hash seed (purity clause); the fresh builds
    under the other seeds must equal the one under the reference seed 0 (seed clause);
  * every functools-memoised value is snapshotted around every operation (seed-0 run).
A disagreement is shrunk by delta debugging to a minimal op list.  Last stdout line: JSON.
"""
from __future__ import annotations

import json
import os
import random
import re
import subprocess
import sys
from concurrent.futures import ThreadPoolExecutor

HERE = os.path.dirname(os.path.abspath(__file__))
VERIF = os.path.dirname(HERE)
PY = "/venv/bin/python"
REPO = os.environ.get("VERIF_REPO", "/repo")
WORKER = os.path.join(HERE, "purity_C06.py")
REACTIONS = [
    ("jpsi_ksp_hel", 5), ("lc_pkpi_hel", 5), ("jpsi_gpipi_hel", 4), ("jpsi_3pi_hel", 3), ("d0_kkk_hel", 3),
    ("jpsi_ksp_can", 2), ("jpsi_gpipi_f2_hel", 2), ("psi2s_jpsipipi_hel", 2), ("jpsi_gkk_hel", 2),
    ("jpsi_3pi_can", 1), ("jpsi_gpipi_can", 1), ("d0_kkk_can", 1), ("lc_pkpi_can", 1),
]
NAMES = [n for n, _ in REACTIONS]
REF_SEED = 0
NPROC = min(16, os.cpu_count() or 4)


def env_for(seed):
    env = dict(os.environ)
    env["PYTHONPATH"] = os.path.join(REPO, "src") + ":" + HERE
    env["VERIF_REPO"] = REPO
    env["PYTHONDONTWRITEBYTECODE"] = "1"
    env["PYTHONHASHSEED"] = str(seed)
    return env


INFO_TABLES = {}


def call_worker(mode, payload, seed, args=(), timeout=600):
    if mode in ("fresh", "freshbatch", "hist"):
        names = set()
        if "cfg" in payload:
            names.add(payload["cfg"]["reaction"])
        names |= {c["reaction"] for _, c in payload.get("cfgs", [])}
        names |= {h["reaction"] for h in payload.get("histories", [])}
        payload = dict(payload, info={n: INFO_TABLES[n] for n in names if n in INFO_TABLES})
    p = subprocess.run([PY, WORKER, mode, *args], input=json.dumps(payload), env=env_for(seed),
                       capture_output=True, text=True, timeout=timeout)
    lines = [l for l in p.stdout.splitlines() if l.startswith("{")]
    if not lines:
        return [{"crash": (p.stderr or p.stdout)[-600:]}]
    return [json.loads(l) for l in lines]


# ---------------------------------------------------------------------------------------
# Python transcription of Purity.step (configuration part only)
class Tracker:
    def __init__(self, name, info):
        self.name, self.info = name, info[name]
        self.builders = []

    def new(self, v):
        canon = self.info["canonical"]
        self.builders.append({"variant": v, "align": 0, "scalar": False, "stable": None, "helcoup": False,
                              "parent": False, "child": not canon, "ls": canon, "dyn": {},
                              "topos": sorted(self.info["base"][v])})

    def apply(self, op):
        if op[0] == "new":
            self.new(op[1])
            return None
        i = op[1]
        if not (0 <= i < len(self.builders)):
            return None
        b = self.builders[i]
        k = op[0]
        if k == "align":
            b["align"] = op[2]
        elif k == "scalar":
            b["scalar"] = bool(op[2])
        elif k == "stable":
            b["stable"] = None if op[2] is None else sorted(set(op[2]))
        elif k == "helcoup":
            b["helcoup"] = bool(op[2])
        elif k == "naming":
            b[op[2]] = bool(op[3])
        elif k == "assign":  # by name: every decay node of that resonance
            for d in self.info["decays_of"][b["variant"]][op[2]]:
                b["dyn"][d] = op[3]
        elif k == "assigndecay":
            b["dyn"][op[2]] = op[3]
        elif k == "regtopo":
            b["topos"] = sorted(set(b["topos"]) | {op[2]})
        elif k == "permutate":
            s = set(b["topos"])
            for t in list(s):
                s |= set(self.info["perms"][b["variant"]][t])
            b["topos"] = sorted(s)
        elif k == "formulate":
            return self.cfg(i)
        return None

    def cfg(self, i):
        b = self.builders[i]
        return {"reaction": self.name, "variant": b["variant"], "align": b["align"], "scalar": b["scalar"],
                "stable": b["stable"], "helcoup": b["helcoup"], "parent": b["parent"], "child": b["child"],
                "ls": b["ls"], "dyn": sorted([s, d] for s, d in b["dyn"].items()), "topos": list(b["topos"])}


def track(hist, info):
    t = Tracker(hist["reaction"], info)
    out = []
    for op in hist["ops"]:
        c = t.apply(op)
        if c is not None:
            out.append(c)
    return out


def ckey(cfg):
    return json.dumps(cfg, sort_keys=True)


# ---------------------------------------------------------------------------------------
def gen_history(rng, info, hid, maxops):
    name = rng.choices(NAMES, weights=[w for _, w in REACTIONS])[0]
    inf = info[name]
    nb = rng.randint(1, 3)
    main_v = rng.choice([0, 1, 1])
    twins = rng.random() < 0.4   # builders over TWIN reactions (same physics, other resonance names) in one process
    if twins:
        nb = max(nb, 2)
    n = rng.randint(1, maxops)
    tr = Tracker(name, info)
    ops = []

    def add(op):
        ops.append(op)
        tr.apply(op)

    add(["new", main_v + (2 if twins and rng.random() < 0.5 else 0)])
    while len(ops) < n:
        nbld = len(tr.builders)
        kinds = ["align", "scalar", "stable", "helcoup", "naming", "assign", "regtopo", "permutate", "formulate"]
        wts = [18, 7, 14, 8, 10, 10, 6, 3, 30]
        if nbld < nb:
            kinds.append("new")
            wts.append(14)
        k = rng.choices(kinds, weights=wts)[0]
        if k == "new":
            add(["new", (main_v if rng.random() < 0.8 else 1 - main_v) + (2 if twins and rng.random() < 0.5 else 0)])
            continue
        b = rng.randrange(nbld)
        v = tr.builders[b]["variant"]
        if k == "align":
            if v % 2 == 1:
                code = rng.choices([11, 12, 13, 0, 1], weights=[25, 25, 25, 20, 5])[0]
            else:
                code = rng.choices([0, 1, 11, 12], weights=[45, 45, 5, 5])[0]
            add(["align", b, code])
        elif k == "scalar":
            add(["scalar", b, rng.random() < 0.6])
        elif k == "stable":
            if rng.random() < 0.3:
                add(["stable", b, None])
            else:
                ids = list(range(v % 2, v % 2 + inf["n_final"]))
                sub = [i for i in ids if rng.random() < 0.5] or [rng.choice(ids)]
                rng.shuffle(sub)
                add(["stable", b, sub])
        elif k == "helcoup":
            add(["helcoup", b, rng.random() < 0.6])
        elif k == "naming":
            flags = ["parent", "child"] + (["ls"] if inf["canonical"] else [])
            if rng.random() < 0.5:
                add(["naming", b, rng.choice(flags), rng.random() < 0.5])
            else:
                # a walk through the flag space that returns to an earlier flag assignment (often the
                # default one) by a different route, then formulates: the final configuration is one a
                # fresh builder reaches with other (or no) setter calls
                start = {f: tr.builders[b][f] for f in flags}
                for _ in range(rng.randint(1, 3)):
                    f = rng.choice(flags)
                    add(["naming", b, f, not tr.builders[b][f] if rng.random() < 0.8 else tr.builders[b][f]])
                back = [f for f in flags if tr.builders[b][f] != start[f]]
                rng.shuffle(back)
                for f in back:
                    add(["naming", b, f, start[f]])
                add(["formulate", b, []])
        elif k == "assign":
            if inf["n_res"] == 0:
                continue
            nd = inf.get("n_dyn", 4)
            bld = rng.choices(range(nd), weights=([3, 4, 2, 2, 2, 4, 2, 2, 2, 2, 3, 2] + [1] * nd)[:nd])[0]
            if rng.random() < 0.5:
                add(["assign", b, rng.randrange(inf["n_res"]), bld])
            else:  # by node, through either overload; preferably a resonance node
                res_nodes = [d for ds in inf["decays_of"][v] for d in ds]
                d = rng.choice(res_nodes) if res_nodes and rng.random() < 0.8 else rng.randrange(inf["n_decays"][v])
                add(["assigndecay", b, d, bld, rng.choice(["decay", "tuple"])])
        elif k == "regtopo":
            add(["regtopo", b, rng.randrange(inf["n_topos"][v])])
        elif k == "permutate":
            add(["permutate", b])
        else:
            order = list(tr.builders[b]["topos"])
            rng.shuffle(order)
            add(["formulate", b, order if rng.random() < 0.6 else []])
    if rng.random() < 0.35:
        # formulate, extend the adapter of the SAME builder, formulate again: the second model must be the one a fresh
        # builder with the extended adapter returns (a result cached at the first formulate() must not survive)
        b = rng.randrange(len(tr.builders))
        v = tr.builders[b]["variant"]
        add(["formulate", b, []])
        if rng.random() < 0.6:
            add(["permutate", b])
        else:
            add(["regtopo", b, rng.randrange(inf["n_topos"][v])])
    if ops[-1][0] != "formulate":
        b = ops[-1][1] if ops[-1][0] in ("permutate", "regtopo") else rng.randrange(len(tr.builders))
        add(["formulate", b, []])
    return {"id": hid, "reaction": name, "ops": ops}


# ---------------------------------------------------------------------------------------
# Coq side
def coq_bool(x):
    return "true" if x else "false"


def coq_list(xs):
    return "[" + "; ".join(str(x) for x in xs) + "]"


def coq_ops(hist, info):
    idx = NAMES.index(hist["reaction"])
    canon = 1 if info[hist["reaction"]]["canonical"] else 0
    variants = []
    out = []
    for op in hist["ops"]:
        k = op[0]
        if k == "new":
            variants.append(op[1])
            out.append("NewBuilder %d" % (8 * idx + 2 * op[1] + canon))
            continue
        b = op[1]
        v = variants[b] if 0 <= b < len(variants) else 0
        gid = lambda t: 100 * idx + 10 * v + t  # noqa: E731
        if k == "align":
            a = {0: "NoAlign", 1: "AxisAngle"}.get(op[2], "(DPD %d)" % (op[2] - 10))
            out.append("SetConfig %d (FAlign %s)" % (b, a))
        elif k == "scalar":
            out.append("SetConfig %d (FScalar %s)" % (b, coq_bool(op[2])))
        elif k == "stable":
            out.append("SetConfig %d (FStable %s)" % (b, "None" if op[2] is None else "(Some %s)" % coq_list(op[2])))
        elif k == "helcoup":
            out.append("SetConfig %d (FHelCoup %s)" % (b, coq_bool(op[2])))
        elif k == "naming":
            out.append("SetNaming %d %s %s" % (b, {"parent": "NParent", "child": "NChild", "ls": "NLs"}[op[2]], coq_bool(op[3])))
        elif k == "assign":
            out.append("Assign %d %d %d" % (b, op[2], op[3]))
        elif k == "assigndecay":
            out.append("AssignDecay %d %d %d" % (b, op[2], op[3]))
        elif k == "regtopo":
            out.append("RegisterTopo %d %d" % (b, gid(op[2])))
        elif k == "permutate":
            out.append("Permutate %d" % b)
        elif k == "formulate":
            out.append("Formulate %d %s" % (b, coq_list([gid(t) for t in op[2]])))
    return "[" + "; ".join(out) + "]"


def write_cases(path, hists, info):
    bt, po, dk = [], [], []
    for idx, name in enumerate(NAMES):
        inf = info[name]
        canon = 1 if inf["canonical"] else 0
        for v in range(4):
            for sel, ds in enumerate(inf["decays_of"][v]):
                dk.append("  | %d, %d => %s" % (8 * idx + 2 * v + canon, sel, coq_list(ds)))
            bt.append("  | %d => %s" % (8 * idx + 2 * v + canon, coq_list([100 * idx + 10 * v + t for t in inf["base"][v]])))
            for t, ps in enumerate(inf["perms"][v]):
                po.append("  | %d => %s" % (100 * idx + 10 * v + t, coq_list([100 * idx + 10 * v + p for p in ps])))
    with open(path, "w") as fh:
        fh.write("From Coq Require Import List.\nFrom AV Require Import Purity.\nFrom AVchk Require Import Skel_C06.\n"
                 "Import ListNotations.\nSet Printing Width 1000000.\n")
        fh.write("Definition bt (r : nat) : list nat :=\n  match r with\n%s\n  | _ => []\n  end.\n" % "\n".join(bt))
        fh.write("Definition po (t : nat) : list nat :=\n  match t with\n%s\n  | _ => []\n  end.\n" % "\n".join(po))
        fh.write("Definition dk (r sel : nat) : list nat :=\n  match r, sel with\n%s\n  | _, _ => []\n  end.\n" % "\n".join(dk))
        for h in hists:
            fh.write("Eval vm_compute in (%d, Toy.t_show bt po dk observed %s).\n" % (h["id"], coq_ops(h, info)))


def decode_enc(enc, info):
    it = iter(enc)
    r = next(it)
    idx, v = r // 8, (r % 8) // 2
    name = NAMES[idx]
    align, scalar = next(it), bool(next(it))
    sflag, n = next(it), next(it)
    ids = [next(it) for _ in range(n)]
    helcoup, parent, child, ls = (bool(next(it)) for _ in range(4))
    nd = next(it)
    dyn = [[next(it), next(it)] for _ in range(nd)]
    nt = next(it)
    topos = [next(it) - 100 * idx - 10 * v for _ in range(nt)]
    return {"reaction": name, "variant": v, "align": align, "scalar": scalar, "stable": ids if sflag else None,
            "helcoup": helcoup, "parent": parent, "child": child, "ls": ls, "dyn": dyn, "topos": topos}


def run_coq(hists, info, workdir):
    """{history id: [(cfg, toy_model_equals_spec)]} or None when the model cannot be evaluated."""
    if not os.path.exists(os.path.join(workdir, "Skel_C06.vo")):
        return None, "Skel_C06.vo missing (skeleton or proofs did not compile)"
    res = {}
    for c in range(0, len(hists), 400):
        fn = "Cases_C06_%d.v" % (c // 400)
        write_cases(os.path.join(workdir, fn), hists[c:c + 400], info)
        p = subprocess.run(["timeout", "600", "coqc", "-Q", os.path.join(VERIF, "coq", "theories"), "AV",
                            "-Q", ".", "AVchk", fn], cwd=workdir, capture_output=True, text=True)
        if p.returncode != 0:
            return None, "coqc %s failed: %s" % (fn, (p.stdout + p.stderr)[-400:])
        txt = p.stdout.replace("\n", " ")
        for m in re.finditer(r"=\s*\((\d+),\s*(\[.*?\])\)\s*:\s*nat \* list", txt):
            body = m.group(2).replace(";", ",").replace("true", "True").replace("false", "False")
            items = eval(body, {"__builtins__": {}})  # noqa: S307  (digits, brackets, booleans only)
            res[int(m.group(1))] = [(decode_enc(list(enc), info), ok) for enc, ok in items]
    return res, ""


# ---------------------------------------------------------------------------------------
def diff_digest(a, b):
    """None when equal, else (attribute, description)."""
    if a == b:
        return None
    if a is None or b is None:
        return ("crash", "no digest")
    for attr in sorted(set(a) | set(b)):
        if attr.startswith("_"):
            continue
        x, y = a.get(attr), b.get(attr)
        if x == y:
            continue
        if x is None or y is None:
            return (attr, "%s present on one side only (%s)" % (attr, a.get("_exc") or b.get("_exc") or ""))
        kx, ky = [k for k, _ in x], [k for k, _ in y]
        if kx != ky:
            only = [k for k in kx if k not in ky][:2] + [k for k in ky if k not in kx][:2]
            return (attr, "keys/order differ: %s" % (only or "same keys, different order"))
        for (k, hx), (_, hy) in zip(x, y):
            if hx != hy:
                return (attr, "value of %r differs" % k)
    return None


class Fresh:
    """Digests of canonical builds in fresh interpreters, cached per (config, seed)."""

    def __init__(self):
        self.cache = {}
        self.count = 0

    def need(self, cfgs, seed, pool, truly_fresh=False):
        todo = {}
        for c in cfgs:
            k = (ckey(c), seed)
            if k not in self.cache and k not in todo:
                todo[k] = c
        if not todo:
            return
        if truly_fresh:
            futs = {k: pool.submit(call_worker, "fresh", {"cfg": c}, seed, (), 300) for k, c in todo.items()}
            for k, f in futs.items():
                r = f.result()[-1]
                self.store(k, r)
            return
        items = list(todo.items())
        nw = max(1, min(NPROC, len(items) // 5))
        chunks = [items[i::nw] for i in range(nw)]
        chunks = [c for c in chunks if c]
        futs = [pool.submit(call_worker, "freshbatch", {"cfgs": [[k[0], c] for k, c in ch]}, seed, (), 1200)
                for ch in chunks]
        for ch, f in zip(chunks, futs):
            try:
                rs = f.result()
            except Exception as e:  # noqa: BLE001
                rs = [{"crash": str(e)[:200]}]
            got = {r.get("key"): r for r in rs}
            for k, _ in ch:
                self.store(k, got.get(k[0], {"crash": "no result: " + str(rs[-1].get("crash"))[:200]}))

    def store(self, k, r):
        self.cache[k] = r["digest"] if r.get("digest") is not None else {"error": [["", "crash:" + str(r.get("crash"))[:200]]]}
        self.count += 1

    def get(self, cfg, seed):
        k = (ckey(cfg), seed)
        # a configuration not built under this seed: the reference-seed build stands in (the seed clause,
        # checked on the builds that exist under both seeds, says they are equal)
        return self.cache[k] if k in self.cache else self.cache[(ckey(cfg), REF_SEED)]


def run_histories(hists, seed, monitor, pool):
    nw = max(1, min(NPROC, len(hists) // 4))
    chunks = [hists[i::nw] for i in range(nw)]
    chunks = [c for c in chunks if c]
    futs = [pool.submit(call_worker, "hist", {"histories": c, "monitor": monitor}, seed, (), 1500) for c in chunks]
    out = {}
    for c, f in zip(chunks, futs):
        try:
            rs = f.result()
        except Exception as e:  # noqa: BLE001
            rs = [{"crash": str(e)[:200]}]
        for r in rs:
            if "id" in r and r["id"] is not None:
                out[r["id"]] = r
        for h in c:
            out.setdefault(h["id"], {"crash": "worker produced no result: %s" % str(rs[-1].get("crash"))[:300],
                                     "formulates": []})
    return out


def mismatches(hist, result, cfgs, fresh, ref_seed=REF_SEED):
    """[(formulate index, attr, description)] for one executed history."""
    bad = []
    forms = result.get("formulates", [])
    if "crash" in result or len(forms) != len(cfgs):
        return [(-1, "crash", "history did not execute: %s" % str(result.get("crash"))[:200])]
    for i, (f, cfg) in enumerate(zip(forms, cfgs)):
        d = diff_digest(f["digest"], fresh.get(cfg, ref_seed))
        if d:
            bad.append((i, d[0], d[1]))
    return bad


def shrink(hist, seed, attr, info, fresh, pool, monitor_fn=None):
    """Greedy one-op-at-a-time delta debugging; keeps a failure of the same kind."""
    def fails(ops):
        h = {"id": 0, "reaction": hist["reaction"], "ops": ops}
        cfgs = track(h, info)
        if not cfgs:
            return False
        r = run_histories([h], seed, monitor_fn is not None, pool)[0]
        if monitor_fn is not None:
            return monitor_fn(r)
        fresh.need(cfgs, seed, pool)
        return any(a == attr for _, a, _ in mismatches(h, r, cfgs, fresh, seed))

    ops = list(hist["ops"])
    changed = True
    while changed and len(ops) > 1:
        changed = False
        cands = [ops[:i] + ops[i + 1:] for i in range(len(ops))]
        results = list(pool.map(fails, cands))
        for c, bad in zip(cands, results):
            if bad:
                ops, changed = c, True
                break
    return ops


# ---------------------------------------------------------------------------------------
def main_search(seed, n, maxops, workdir, full_seed_matrix=False):
    rng = random.Random(1000003 * seed + 6)
    info = call_worker("info", {"reactions": NAMES}, REF_SEED)[-1]
    INFO_TABLES.update({k: v for k, v in info.items() if isinstance(v, dict)})
    if "crash" in info:
        print(json.dumps({"evaluations": 0, "distinct": 0, "samples": [], "kinds": {},
                          "failures": [{"signature": "harness:info", "what": "worker failed: " + info["crash"][-300:],
                                        "case": {"kind": "crash"}}]}))
        return
    seeds = [0, 1, 4711, rng.randrange(2, 2 ** 32 - 1)]
    hists = [gen_history(rng, info, i, maxops) for i in range(n)]
    # the pinned defect's shape and its two-builder variant are always part of the run
    fixed = [
        {"reaction": "jpsi_ksp_hel", "ops": [["new", 1], ["align", 0, 11], ["formulate", 0, []],
                                            ["stable", 0, [1, 2]], ["formulate", 0, []]]},
        {"reaction": "lc_pkpi_hel", "ops": [["new", 1], ["new", 1], ["align", 0, 12], ["align", 1, 12],
                                           ["stable", 1, [2, 1]], ["formulate", 0, []], ["formulate", 1, []],
                                           ["scalar", 0, True], ["formulate", 0, []]]},
        {"reaction": "jpsi_ksp_can", "ops": [["new", 0], ["helcoup", 0, True], ["assign", 0, 0, 2], ["formulate", 0, []],
                                            ["helcoup", 0, False], ["naming", 0, "parent", True], ["assign", 0, 0, 0],
                                            ["formulate", 0, []], ["new", 0], ["align", 1, 1], ["permutate", 1],
                                            ["formulate", 1, []], ["formulate", 0, []]]},
    ]
    fixed.append({"reaction": "jpsi_ksp_hel", "ops": [["new", 0], ["naming", 0, "parent", True], ["formulate", 0, []],
                                                     ["naming", 0, "child", False], ["naming", 0, "parent", False],
                                                     ["formulate", 0, []], ["new", 0], ["naming", 1, "child", False],
                                                     ["formulate", 1, []]]})
    # naming-flag walks that end in the default flags with the setter under test called LAST, and
    # a fixed-width form-factor Breit-Wigner followed by plain ones (same / other builder)
    fixed.append({"reaction": "jpsi_gpipi_hel", "ops": [["new", 0], ["naming", 0, "child", False], ["naming", 0, "parent", False],
                                                       ["naming", 0, "child", True], ["formulate", 0, []],
                                                       ["new", 0], ["naming", 1, "parent", True], ["naming", 1, "child", True],
                                                       ["naming", 1, "parent", False], ["formulate", 1, []]]})
    fixed.append({"reaction": "jpsi_gpipi_hel", "ops": [["new", 0], ["assign", 0, 0, 5], ["formulate", 0, []], ["assign", 0, 0, 1],
                                                       ["formulate", 0, []], ["new", 0], ["assign", 1, 0, 10], ["assign", 1, 1, 9],
                                                       ["formulate", 1, []], ["assign", 1, 1, 11], ["assign", 1, 0, 6],
                                                       ["formulate", 1, []]]})
    # dynamics re-assigned by node (both overloads) AFTER a formulate, no by-name assign in between
    # a formulate() that raises half-way (form factor without angular momentum in the helicity formalism),
    # then a different, valid configuration on the same builder
    fixed.append({"reaction": "jpsi_ksp_hel", "ops": [["new", 0], ["helcoup", 0, True], ["assign", 0, 0, 1], ["assign", 0, 1, 4],
                                                     ["formulate", 0, []], ["helcoup", 0, False], ["assign", 0, 1, 0],
                                                     ["assign", 0, 0, 0], ["formulate", 0, []]]})
    # twin reactions: formulate r1, then its renamed twin r2 (and back), couplings + dynamics so that names show
    fixed.append({"reaction": "jpsi_gpipi_hel", "ops": [["new", 0], ["assign", 0, 0, 1], ["formulate", 0, []],
                                                       ["new", 2], ["assign", 1, 0, 1], ["formulate", 1, []],
                                                       ["helcoup", 1, True], ["formulate", 1, []], ["helcoup", 0, True],
                                                       ["formulate", 0, []]]})
    fixed.append({"reaction": "jpsi_ksp_hel", "ops": [["new", 3], ["align", 0, 12], ["formulate", 0, []], ["new", 1],
                                                     ["align", 1, 12], ["stable", 1, [1, 2]], ["formulate", 1, []]]})
    _dk = info["jpsi_ksp_hel"]["decays_of"][0]
    fixed.append({"reaction": "jpsi_ksp_hel", "ops": [["new", 0], ["formulate", 0, []],
                                                     ["assigndecay", 0, _dk[0][0], 1, "decay"], ["formulate", 0, []],
                                                     ["assigndecay", 0, _dk[1][0], 11, "tuple"], ["formulate", 0, []],
                                                     ["new", 0], ["assigndecay", 1, _dk[1][0], 1, "tuple"],
                                                     ["formulate", 1, []], ["assigndecay", 0, _dk[0][0], 0, "tuple"],
                                                     ["formulate", 0, []]]})
    # formulate, extend the adapter of the SAME builder (permutate / register), formulate again; a second builder takes
    # the direct route to the same configuration
    fixed.append({"reaction": "jpsi_gpipi_hel", "ops": [["new", 0], ["stable", 0, [0, 1, 2]], ["formulate", 0, []],
                                                       ["permutate", 0], ["formulate", 0, []], ["new", 0],
                                                       ["stable", 1, [0, 1, 2]], ["permutate", 1], ["formulate", 1, []]]})
    fixed.append({"reaction": "lc_pkpi_hel", "ops": [["new", 0], ["formulate", 0, []], ["permutate", 0], ["formulate", 0, []],
                                                    ["align", 0, 1], ["formulate", 0, []]]})
    for k, h in enumerate(fixed):
        h["id"] = n + k
        hists.append(h)
    failures, kinds = [], {}
    cfgs = {h["id"]: track(h, info) for h in hists}
    n_form = sum(len(c) for c in cfgs.values())

    # --- Coq model vs Python transcription
    coq, why = run_coq(hists, info, workdir)
    coq_checked = 0
    model_disagreements = []
    predicts_impure = []
    if coq is not None:
        for h in hists:
            got = coq.get(h["id"])
            want = cfgs[h["id"]]
            if got is None or [g for g, _ in got] != want:
                model_disagreements.append({"history": h, "coq": got, "python": want})
            else:
                if not all(ok for _, ok in got):
                    predicts_impure.append(h["id"])  # only possible when the observed skeleton is not well behaved
                coq_checked += len(want)
                cfgs[h["id"]] = [g for g, _ in got]  # the model's prediction is what is compared below

    with ThreadPoolExecutor(max_workers=NPROC) as pool:
        fresh = Fresh()
        allcfg = [c for cs in cfgs.values() for c in cs]
        uniq = {ckey(c): c for c in allcfg}
        # fresh interpreters under every hash seed; seed clause: fresh(s) == fresh(reference)
        seed_cmp = 0
        fresh.need(uniq.values(), REF_SEED, pool)
        ulist = list(uniq.values())
        share = {s: (ulist if full_seed_matrix else ulist[j::3]) for j, s in enumerate(seeds[1:])}
        for s in seeds[1:]:
            fresh.need(share[s], s, pool)
        for s in seeds:
            if s == REF_SEED:
                continue
            for c in share[s]:
                seed_cmp += 1
                d = diff_digest(fresh.get(c, s), fresh.get(c, REF_SEED))
                if d and not any(f["signature"] == "seed:" + d[0] for f in failures):
                    failures.append({"signature": "seed:" + d[0],
                                     "what": "fresh-process model of one configuration depends on PYTHONHASHSEED (%d vs %d): %s: %s [%s]"
                                             % (s, REF_SEED, d[0], d[1], c["reaction"]),
                                     "case": {"kind": "seed", "cfg": c, "seeds": [REF_SEED, s]}})
        # a sample of configurations additionally in truly fresh interpreters (one process per build)
        pure = Fresh()
        sample = list(uniq.values())[:: max(1, len(uniq) // (8 if n <= 60 else 40))]
        pure.need(sample, REF_SEED, pool, truly_fresh=True)
        for c in sample:
            seed_cmp += 1
            d = diff_digest(pure.get(c, REF_SEED), fresh.get(c, REF_SEED))
            if d and not any(f["signature"] == "fresh-process:" + d[0] for f in failures):
                failures.append({"signature": "fresh-process:" + d[0],
                                 "what": "model built in a new interpreter differs from the one built in a forked child of an "
                                         "interpreter that only imported ampform: %s: %s" % d,
                                 "case": {"kind": "seed", "cfg": c, "seeds": [REF_SEED, REF_SEED], "truly_fresh": True}})
        # histories under every seed
        n_cmp = 0
        memo_fn_seen = {}
        for s in seeds:
            res = run_histories(hists, s, s == 0, pool)
            for h in hists:
                r = res[h["id"]]
                bad = mismatches(h, r, cfgs[h["id"]], fresh, s)
                if bad and s != REF_SEED:
                    fresh.need(cfgs[h["id"]], s, pool)  # classify against builds under the SAME seed
                    bad = mismatches(h, r, cfgs[h["id"]], fresh, s)
                    for c in cfgs[h["id"]]:
                        d = diff_digest(fresh.get(c, s), fresh.get(c, REF_SEED))
                        if d and not any(f["signature"] == "seed:" + d[0] for f in failures):
                            failures.append({"signature": "seed:" + d[0],
                                             "what": "fresh-process model of one configuration depends on PYTHONHASHSEED (%d vs %d): %s: %s [%s]"
                                                     % (s, REF_SEED, d[0], d[1], c["reaction"]),
                                             "case": {"kind": "seed", "cfg": c, "seeds": [REF_SEED, s]}})
                n_cmp += len(cfgs[h["id"]])
                for fi, attr, desc in bad[:1]:
                    sig = "impure:" + attr
                    if any(f["signature"] == sig for f in failures):
                        continue
                    ops = shrink(h, s, attr, info, fresh, pool) if attr != "crash" else h["ops"]
                    hmin = {"id": 0, "reaction": h["reaction"], "ops": ops}
                    failures.append({"signature": sig,
                                     "what": "formulate() #%d of a history differs from the fresh-process model of the same "
                                             "(reaction, configuration): %s: %s [reaction %s, PYTHONHASHSEED=%d, %d ops after shrinking]"
                                             % (fi, attr, desc, h["reaction"], s, len(ops)),
                                     "case": {"kind": "history", "history": hmin, "hashseed": s, "attr": attr,
                                              "original_ops": h["ops"]}})
                for f in r.get("formulates", []):
                    for attr in ((f.get("digest") or {}).get("_ties") or []):
                        sig = "order:tie:" + attr
                        if not any(x["signature"] == sig for x in failures):
                            failures.append({"signature": sig,
                                             "what": "two keys of model.%s have the same sort key: the sorting converter "
                                                     "leaves their order to insertion order" % attr,
                                             "case": {"kind": "history", "history": {"id": 0, "reaction": h["reaction"], "ops": h["ops"]},
                                                      "hashseed": s, "attr": attr, "tie": True}})
                if s == 0:
                    for k, fn in r.get("memo_written", []):
                        sig = "memo-write:" + fn
                        if not any(f["signature"] == sig for f in failures):
                            ops = shrink(h, 0, None, info, fresh, pool,
                                         monitor_fn=lambda rr, fn=fn: any(w[1] == fn for w in rr.get("memo_written", [])))
                            failures.append({"signature": sig,
                                             "what": "a value memoised by %s was written after insertion (first seen after op %d)" % (fn, k),
                                             "case": {"kind": "memo", "field": "memo_written", "function": fn,
                                                      "history": {"id": 0, "reaction": h["reaction"], "ops": ops}}})
                    for fn in r.get("memo_stale", []):
                        sig = "memo-stale:" + fn
                        if not any(f["signature"] == sig for f in failures):
                            ops = shrink(h, 0, None, info, fresh, pool,
                                         monitor_fn=lambda rr, fn=fn: fn in rr.get("memo_stale", []))
                            failures.append({"signature": sig,
                                             "what": "%s is not a function of its arguments: recomputation differs from the memoised value" % fn,
                                             "case": {"kind": "memo", "field": "memo_stale", "function": fn,
                                                      "history": {"id": 0, "reaction": h["reaction"], "ops": ops}}})
                    for fn, cnt in (r.get("memo_functions") or {}).items():
                        a = memo_fn_seen.setdefault(fn, [0, 0])
                        a[0] += cnt[0]
                        a[1] += cnt[1]
    for h in hists:
        kinds[h["reaction"]] = kinds.get(h["reaction"], 0) + 1
    opk = {}
    for h in hists:
        for op in h["ops"]:
            opk[op[0]] = opk.get(op[0], 0) + 1
    aligns = {}
    for c in uniq.values():
        aligns[str(c["align"])] = aligns.get(str(c["align"]), 0) + 1
    out = {
        "evaluations": n_cmp + seed_cmp,
        "distinct": len(uniq),
        "samples": [{"reaction": h["reaction"], "ops": h["ops"]} for h in hists[:3]]
                   + [{"config": c} for c in list(uniq.values())[:3]],
        "kinds": {"histories_per_reaction": kinds, "ops": opk, "configs_per_alignment_code": aligns,
                  "hash_seeds": seeds, "fresh_processes": fresh.count, "formulates_per_seed": n_form,
                  "memo_entries_seen(total,mutable)": memo_fn_seen},
        "coq_cases": coq_checked, "coq_unavailable": why,
        "model_disagreements": model_disagreements[:3],
        "model_predicts_impurity": len(predicts_impure),
        "failures": failures,
    }
    print(json.dumps(out, default=str))


def main_replay(path):
    doc = json.load(open(path))
    case = doc["replay"]["case"]
    info = call_worker("info", {"reactions": NAMES}, REF_SEED)[-1]
    INFO_TABLES.update({k: v for k, v in info.items() if isinstance(v, dict)})
    still = False
    detail = ""
    with ThreadPoolExecutor(max_workers=NPROC) as pool:
        fresh = Fresh()
        if case["kind"] == "seed" and case.get("truly_fresh"):
            pure = Fresh()
            pure.need([case["cfg"]], REF_SEED, pool, truly_fresh=True)
            fresh.need([case["cfg"]], REF_SEED, pool)
            d = diff_digest(pure.get(case["cfg"], REF_SEED), fresh.get(case["cfg"], REF_SEED))
            still, detail = bool(d), str(d)
        elif case["kind"] == "seed":
            for s in case["seeds"]:
                fresh.need([case["cfg"]], s, pool)
            d = diff_digest(fresh.get(case["cfg"], case["seeds"][1]), fresh.get(case["cfg"], case["seeds"][0]))
            still, detail = bool(d), str(d)
        elif case["kind"] == "history":
            h = case["history"]
            cfgs = track(h, info)
            fresh.need(cfgs, case["hashseed"], pool)
            r = run_histories([h], case["hashseed"], False, pool)[h["id"]]
            bad = mismatches(h, r, cfgs, fresh, case["hashseed"])
            if case.get("tie"):
                bad = [f for f in r.get("formulates", []) if case["attr"] in ((f.get("digest") or {}).get("_ties") or [])]
            still, detail = bool(bad), str(bad[:2])[:300]
        elif case["kind"] == "memo":
            h = case["history"]
            r = run_histories([h], 0, True, pool)[h["id"]]
            if case["field"] == "memo_written":
                still = any(w[1] == case["function"] for w in r.get("memo_written", []))
            else:
                still = case["function"] in r.get("memo_stale", [])
            detail = str(r.get(case["field"]))
        elif case["kind"] == "skeleton":
            facts = call_worker("skeleton", {}, 0, (os.devnull,), 600)[-1]
            sk = facts.get("skeleton", {})
            still = sk.get(case["field"]) != case["expected"]
            detail = str(sk)
        else:
            still, detail = True, "not replayable: " + case["kind"]
    print(json.dumps({"still_fails": bool(still), "detail": detail[:400]}))


if __name__ == "__main__":
    if sys.argv[1] == "--replay":
        main_replay(sys.argv[2])
    else:
        mo = 12
        if "--maxops" in sys.argv:
            mo = int(sys.argv[sys.argv.index("--maxops") + 1])
        main_search(int(sys.argv[1]), int(sys.argv[2]), mo, os.getcwd(), "--full-seed-matrix" in sys.argv)
