"""C18 exact differential harness on the IMPLEMENTATION (independent of the Gallina model).

The oracle is written from the property text: a PoolSum is the sum, over itertools.product of its
pools, of the summand with the indices bound (properly scoped: an inner index shadows an outer one,
pool values are read outside the sum).  Everything is evaluated exactly (fractions) at a random
rational point with a fixed rational interpretation of the function symbols f, g, h.

usage: search_C18.py <seed> <n>            -> JSON {evaluations, distinct, samples, kinds, failures}
       search_C18.py --replay <json-file>  -> JSON {still_fails: bool}
"""
import itertools
import json
import random
import sys
import zlib
from fractions import Fraction as Fr

import common  # noqa: F401
import model_C18 as M
import sympy as sp
from sympy.core.function import AppliedUndef

from ampform.helicity import HelicityModel
from ampform.sympy import PoolSum


class Undefined(Exception):
    pass


# ------------------------------------------------------------------ exact evaluation (oracle)
def sym_value(name, env_seed):
    h = zlib.crc32(f"{name}#{env_seed}".encode())
    return Fr(h % 11 - 5, 1 + (h >> 8) % 3) + Fr(1, 7)  # never 0, never an integer


def fun_value(name, args):
    res = Fr(sum(map(ord, name)) % 7 + 1, 3)
    for k, a in enumerate(args):
        res = res * Fr(3, 2) + a * (k + 2) + a * a * Fr(1, k + 3)
    return res


def ev(e, env, env_seed):
    """value of a SymPy expression; PoolSum by brute force with proper scoping"""
    if isinstance(e, PoolSum):
        body = e.args[0]
        idx = [(t[0].name, [ev(v, env, env_seed) for v in t[1]]) for t in e.args[1:]]
        total = Fr(0)
        for combo in itertools.product(*[vals for _, vals in idx]):
            inner = dict(env)
            for (name, _), val in zip(idx, combo):
                inner[name] = val
            total += ev(body, inner, env_seed)
        return total
    if isinstance(e, sp.Symbol):
        return env[e.name] if e.name in env else sym_value(e.name, env_seed)
    if isinstance(e, sp.Rational):
        return Fr(int(e.p), int(e.q))
    if isinstance(e, sp.Add):
        return sum((ev(a, env, env_seed) for a in e.args), Fr(0))
    if isinstance(e, sp.Mul):
        r = Fr(1)
        for a in e.args:
            r *= ev(a, env, env_seed)
        return r
    if isinstance(e, sp.Pow):
        b, x = ev(e.args[0], env, env_seed), ev(e.args[1], env, env_seed)
        if x.denominator != 1 or abs(x) > 6 or (b == 0 and x <= 0):
            raise Undefined(str(e))
        return b ** int(x)
    if isinstance(e, sp.Abs):
        return abs(ev(e.args[0], env, env_seed))
    if isinstance(e, AppliedUndef):
        return fun_value(type(e).__name__, [ev(a, env, env_seed) for a in e.args])
    if isinstance(e, sp.Indexed):
        return fun_value("I" + str(e.base), [ev(a, env, env_seed) for a in e.indices])
    raise Undefined(f"{type(e).__name__}")


def oracle_free(e):
    """free symbols as the property states them"""
    if isinstance(e, PoolSum):
        s = set(oracle_free(e.args[0]))
        for t in e.args[1:]:
            for v in t[1]:
                s |= oracle_free(v)
        return s - {t[0].name for t in e.args[1:]}
    if isinstance(e, sp.Symbol):
        return {e.name}
    if isinstance(e, sp.Indexed):
        return set().union(*[oracle_free(a) for a in e.indices]) | {str(e.base)}
    out = set()
    for a in e.args:
        out |= oracle_free(a)
    return out


def impl_expression(intensity, amplitudes=None):
    fake = object.__new__(HelicityModel)
    object.__setattr__(fake, "intensity", intensity)
    object.__setattr__(fake, "amplitudes", amplitudes or {})
    return HelicityModel.expression.fget(fake)


def free_tree(t):
    """free symbols of a case description, as the property states them"""
    k = t[0]
    if k == "S":
        return {t[1]}
    if k == "N":
        return set()
    if k in ("A", "M"):
        return set().union(*[free_tree(a) for a in t[1]]) if t[1] else set()
    if k == "P":
        return free_tree(t[1]) | free_tree(t[2])
    if k == "F":
        return set().union(*[free_tree(a) for a in t[2]]) if t[2] else set()
    if k == "PS":
        s = set(free_tree(t[1]))
        for _, vals in t[2]:
            for v in vals:
                s |= free_tree(v)
        return s - {n for n, _ in t[2]}
    raise ValueError(k)


def binders_tree(t):
    k = t[0]
    if k in ("S", "N"):
        return set()
    if k in ("A", "M"):
        return set().union(*[binders_tree(a) for a in t[1]]) if t[1] else set()
    if k == "P":
        return binders_tree(t[1]) | binders_tree(t[2])
    if k == "F":
        return set().union(*[binders_tree(a) for a in t[2]]) if t[2] else set()
    out = {n for n, _ in t[2]} | binders_tree(t[1])
    for _, vals in t[2]:
        for v in vals:
            out |= binders_tree(v)
    return out


def all_binders(e):
    return {t[0].name for ps in e.atoms(PoolSum, M.SpecSum) for t in ps.args[1:]}


# ------------------------------------------------------------------ the checks
def load_expr(c, problems=None):
    if "sympy" in c:  # outside the JSON grammar (Abs / Indexed): rebuilt from srepr
        return eval(c["sympy"], {**vars(sp), "PoolSum": PoolSum})  # noqa: S307
    return M.build(c["expr"], c.get("supplier"), problems)


def ev_tree(t, env, env_seed):
    """the oracle value read off the INPUT description (JSON tree), never touching a PoolSum object"""
    k = t[0]
    if k == "S":
        return env[t[1]] if t[1] in env else sym_value(t[1], env_seed)
    if k == "N":
        return Fr(int(t[1]), int(t[2]))
    if k == "A":
        return sum((ev_tree(a, env, env_seed) for a in t[1]), Fr(0))
    if k == "M":
        r = Fr(1)
        for a in t[1]:
            r *= ev_tree(a, env, env_seed)
        return r
    if k == "P":
        b, x = ev_tree(t[1], env, env_seed), ev_tree(t[2], env, env_seed)
        if x.denominator != 1 or abs(x) > 6 or (b == 0 and x <= 0):
            raise Undefined(str(t))
        return b ** int(x)
    if k == "F":
        return fun_value(t[1], [ev_tree(a, env, env_seed) for a in t[2]])
    if k == "PS":
        idx = [(n, [ev_tree(v, env, env_seed) for v in vals]) for n, vals in t[2]]
        total = Fr(0)
        for combo in itertools.product(*[vals for _, vals in idx]):
            inner = dict(env)
            inner.update({name: val for (name, _), val in zip(idx, combo)})
            total += ev_tree(t[1], inner, env_seed)
        return total
    raise Undefined(str(k))


def run_case(c):
    """-> (list of (signature, what), n_checks) ; raises Undefined when the point is singular"""
    problems = []
    e = load_expr(c, problems)
    seed = c["env_seed"]
    env = {}
    fails = []
    n = 1
    for pr in problems[:1]:
        fails.append(("constructor_pools_wrong", pr))
    S = ev_tree(c["expr"], env, seed) if "sympy" not in c else ev(e, env, seed)
    top = isinstance(e, PoolSum)

    # 1. doit
    d = e.doit()
    n += 1
    if M.has_poolsum(d):
        fails.append(("doit_leaves_poolsum", f"{e}.doit() = {d} still contains a PoolSum"))
    elif ev(d, env, seed) != S:
        fails.append(("doit_not_sum", f"{e}.doit() = {d} has value {ev(d, env, seed)}, the sum over the pools is {S}"))
    if top:
        # 2. evaluate
        n += 1
        v = e.evaluate()
        if ev(v, env, seed) != S:
            fails.append(("evaluate_not_sum", f"{e}.evaluate() = {v} has value {ev(v, env, seed)}, the sum is {S}"))
    # 3. free symbols
    n += 1
    got = {s.name for s in e.free_symbols}
    want = free_tree(c["expr"]) if "sympy" not in c else oracle_free(e)
    if got != want and not e.atoms(sp.Indexed):  # SymPy counts an Indexed itself as a free symbol
        fails.append(("free_symbols_wrong", f"{e}.free_symbols = {sorted(got)}, expected {sorted(want)}"))
    # 4. cleanup
    if top:
        n += 1
        cl = e.cleanup()
        vc = ev(cl, env, seed)
        if vc != S:
            # the known finding covers ONLY an index that is absent from the ORIGINAL summand (as written in
            # the case description) with a pool of size != 1, dropped without its multiplicity
            sig = "cleanup_changes_value"
            if "sympy" not in c:
                tree = c["expr"]
                bfree = free_tree(tree[1])
                unused = [ix for ix in tree[2] if ix[0] not in bfree and len(ix[1]) != 1]
                if unused:
                    rest = [ix for ix in tree[2] if ix not in unused]
                    if vc == ev_tree(["PS", tree[1], rest], env, seed):
                        sig = "cleanup_drops_unused_index"
            fails.append((sig, f"{e}.cleanup() = {cl} has value {vc}, the sum is {S}"))
    # 5./6. substitutions: value level (free, bound and shadowed targets alike)
    for x, vt in c.get("subs", []):
        n += 1
        v = M.build(vt)
        xs = sp.Symbol(x)
        env2 = {x: ev(v, env, seed)}
        want_v = ev(e, env2, seed)
        a = e.subs(xs, v)
        if ev(a, env, seed) != want_v:
            fails.append(("subs_value_wrong", f"{e}.subs({x},{v}) = {a}: value {ev(a, env, seed)}, expected {want_v}"))
        b1, b2 = a.doit(), e.doit().subs(xs, v)
        if ev(b1, env, seed) != ev(b2, env, seed) or ev(b2, env, seed) != want_v:
            fails.append(("subs_free_not_commuting",
                          f"{e}: subs({x},{v}).doit() = {b1} vs doit().subs = {b2} (expected value {want_v})"))
        xr = e.xreplace({xs: v})
        if ev(xr, env, seed) != want_v:
            fails.append(("xreplace_value_wrong", f"{e}.xreplace({{{x}: {v}}}) = {xr}: value {ev(xr, env, seed)}, expected {want_v}"))
        if top and x in {t[0].name for t in e.args[1:]}:
            if a != e:
                fails.append(("subs_bound_changed", f"{e}.subs({x},{v}) = {a} rewrote a summation index"))
            if xr != e:
                fails.append(("xreplace_bound_changed", f"{e}.xreplace({{{x}: {v}}}) = {xr} rewrote a summation index"))
    if c.get("xmap"):
        n += 1
        rule = {sp.Symbol(x): M.build(vt) for x, vt in c["xmap"]}
        env2 = {x: ev(M.build(vt), env, seed) for x, vt in c["xmap"]}
        xr = e.xreplace(rule)
        if ev(xr, env, seed) != ev(e, env2, seed):
            fails.append(("xreplace_value_wrong", f"{e}.xreplace({rule}) = {xr}: value {ev(xr, env, seed)}, expected {ev(e, env2, seed)}"))
    # 8. HelicityModel.expression
    if c.get("unfold"):
        n += 1
        ex = impl_expression(e)
        if M.has_poolsum(ex):
            fails.append(("expression_leaves_poolsum", f"HelicityModel.expression of intensity {e} = {ex}"))
        elif ev(ex, env, seed) != S:
            fails.append(("expression_not_sum", f"HelicityModel.expression of {e} = {ex}: value {ev(ex, env, seed)}, sum {S}"))
    return fails, n


def fixed_cases():
    i, j, k, x = sp.symbols("i j k x")
    f = sp.Function("f")
    out = []
    for e, extra in [
        (M.SpecSum(x, (i, (0, 1, 2))), {}),                                   # cleanup doctest
        (M.SpecSum(x**i, (i, (0, 1, 2))), {}),
        (M.SpecSum(x**i, (i, (0,))), {}),
        (M.SpecSum(x), {}),
        (M.SpecSum(M.SpecSum(f(i), (i, (1, 2))), (i, (5,))), {"subs": [["i", ["N", "7", "1"]]]}),  # shadowed
        (M.SpecSum(f(i, j), (i, (1, 2)), (j, (3, 4))), {"subs": [["i", ["N", "5", "1"]], ["j", ["S", "x"]]]}),
        (M.SpecSum(f(i, j) * x, (i, (1, 2)), (j, (sp.Rational(1, 2),))), {"subs": [["x", ["N", "2", "1"]]]}),
        # a symbol free at this level and bound in a nested sum
        (M.SpecSum(j * M.SpecSum(x * i + j, (j, (1, 2))), (i, (3, 4))),
         {"subs": [["j", ["N", "7", "1"]], ["i", ["N", "5", "1"]]], "xmap": [["j", ["S", "x"]]]}),
        # depth 3: outer index used at depth 2 and re-bound at depth 3
        (M.SpecSum(M.SpecSum((i * j + x) * M.SpecSum(i * sp.Symbol("y"), (i, (1, 2))), (j, (1, sp.Rational(1, 2)))), (i, (10, 20))),
         {"subs": [["i", ["N", "3", "1"]], ["j", ["S", "x"]]]}),
        # repeated pool values count with their multiplicity; pool values merged by a substitution
        (M.SpecSum(x**i, (i, (1, 1))), {"subs": [["x", ["N", "3", "1"]]]}),
        (M.SpecSum(x**i, (i, (sp.Symbol("a"), sp.Symbol("b")))),
         {"subs": [["a", ["S", "b"]]], "xmap": [["a", ["S", "b"]]]}),
        (M.SpecSum(x**i * j, (i, (sp.Symbol("a"), sp.Symbol("b"), sp.Symbol("a"))), (j, (1, 1))),
         {"subs": [["b", ["S", "a"]]], "xmap": [["b", ["N", "2", "1"]], ["a", ["N", "2", "1"]]]}),
        # a singleton pool whose value cancels another index that DOES occur in the summand
        (M.SpecSum(x * i * j + sp.Symbol("y"), (i, (0,)), (j, (1, 2, 3))), {}),
        (M.SpecSum(j**i + sp.Symbol("y"), (i, (0,)), (j, (2, 3))), {}),
        (M.SpecSum((i - 1) * j + x, (j, (2, 3)), (i, (1,))), {}),
        # sibling sums: the index of one is free in the other
        (M.SpecSum(M.SpecSum(x * j, (j, (1, sp.Rational(1, 2)))) + M.SpecSum(j * sp.Symbol("k") + 1, (k, (2, 3))), (i, (1, 1))),
         {"subs": [["j", ["N", "7", "1"]], ["k", ["N", "2", "1"]]]}),
    ]:
        out.append({"kind": "fixed", "expr": M.ser(e), "env_seed": 3, **extra})
    # the same sum with its pools handed over through every kind of iterable
    e = M.SpecSum(x**i + j * i, (i, (0, 1, 1)), (j, (sp.Rational(1, 2), 3)))
    for sup in sorted(M.SUPPLIERS):
        out.append({"kind": "fixed", "expr": M.ser(e), "env_seed": 5, "supplier": sup,
                    "subs": [["x", ["N", "2", "1"]], ["i", ["N", "4", "1"]]]})
    return out


def structural_fixed():
    """exact structural expectations from the property text"""
    i, x = sp.symbols("i x")
    f = sp.Function("f")
    fails = []
    sh = PoolSum(PoolSum(f(i), (i, (1, 2))), (i, (5,)))
    if sh.doit() != f(1) + f(2):
        fails.append(("shadowed_index_wrong", f"{sh}.doit() = {sh.doit()}, expected f(1) + f(2)"))
    if sh.evaluate() != PoolSum(f(i), (i, (1, 2))):
        fails.append(("shadowed_index_wrong", f"{sh}.evaluate() = {sh.evaluate()}"))
    j = sp.Symbol("j")
    fb = PoolSum(j * PoolSum(x * i + j, (j, (1, 2))), (i, (3, 4)))
    got = sp.expand(fb.subs(j, 7).doit())
    if got != 98 * x + 42:
        fails.append(("subs_free_here_bound_deeper", f"{fb}.subs(j, 7).doit() = {got}, expected 98*x + 42"))
    a, b, y = sp.symbols("a b y")
    if PoolSum(x**i, (i, (1, 1))).doit() != 2 * x:
        fails.append(("pool_multiplicity_lost", f"PoolSum(x**i, (i, (1, 1))).doit() = {PoolSum(x**i, (i, (1, 1))).doit()}, expected 2*x"))
    mg = PoolSum(x**i, (i, (a, b)))
    if mg.xreplace({a: b}).doit() != mg.doit().xreplace({a: b}) or mg.subs(a, b).doit() != 2 * x**b:
        fails.append(("pool_multiplicity_lost", f"{mg}: xreplace(a->b).doit() = {mg.xreplace({a: b}).doit()}, doit().xreplace = {mg.doit().xreplace({a: b})}"))
    cc = PoolSum(x * i * j + y, (i, (0,)), (j, (1, 2, 3)))
    if sp.expand(cc.cleanup().doit()) != 3 * y:
        fails.append(("cleanup_changes_value", f"{cc}.cleanup() = {cc.cleanup()}, but doit() = {cc.doit()}"))
    for name, sup in M.SUPPLIERS.items():
        vals = [sp.Integer(0), sp.Integer(1), sp.Integer(2)]
        node = PoolSum(x**i, (i, sup(vals)))
        if tuple(node.args[1][1]) != tuple(vals):
            fails.append(("constructor_pools_wrong", f"PoolSum(x**i, (i, <{name} of 0,1,2>)).indices = {node.args[1:]}"))
    try:
        PoolSum(x, (i, ()))
        fails.append(("empty_pool_accepted", "PoolSum(x, (i, ())) did not raise"))
    except ValueError:
        pass
    return fails


def gen_cases(seed, n):
    rng = random.Random(seed * 104729 + 18)
    cases = fixed_cases()
    tries = 0
    while len(cases) < n + 26 and tries < 30 * n + 100:
        tries += 1
        kind = rng.choice(["plain"] * 4 + ["shadow"] * 3 + ["cancel"] * 2 + ["builder"] * 2 + ["wrapped", "absnest"])
        try:
            c = {"kind": kind, "env_seed": rng.randint(0, 10**6), "supplier": rng.choice(sorted(M.SUPPLIERS))}
            if kind == "builder":
                e = M.gen_builder_nest(rng)
                c["unfold"] = True
            elif kind == "absnest":
                e = M.gen_builder_nest(rng)
                A = sp.IndexedBase("A")
                inner = e.args[0].args[0].args[0]  # h(amp)**2 -> amp
                e = PoolSum(sp.Abs(inner * A[tuple(t[0] for t in e.args[1:])]) ** 2,
                            *[(t[0], tuple(t[1])) for t in e.args[1:]])
                c["unfold"] = True
                c["sympy"] = sp.srepr(e)
            elif kind == "shadow":
                e = M.gen_shadow_nest(rng)
                c["unfold"] = False
            elif kind == "cancel":
                e = M.gen_cancel(rng)
                c["unfold"] = False
            else:
                e = M.gen_poolsum(rng, [], M.FREE, rng.randint(1, 3), rng.randint(0, 2), [64])
                c["unfold"] = rng.random() < 0.5 and M.ps_depth(e) <= 2
            if kind == "wrapped":
                w = rng.choice([lambda t: t + sp.Symbol("i"), lambda t: 2 * t * sp.Symbol("i"),
                                lambda t: sp.Function("f")(t, sp.Symbol("j")), lambda t: t ** 2])
                e = w(e)
                c["unfold"] = False
            if kind != "absnest":
                # generators return SpecSum trees: the description never passes through ampform's constructor
                c["expr"] = M.ser(e)
                if M.ser(M.spec_build(c["expr"])) != c["expr"]:
                    continue
                binders = sorted(binders_tree(c["expr"]))
                free = sorted(free_tree(c["expr"])) or ["a"]
            else:
                binders = sorted(all_binders(e))
                free = sorted(oracle_free(e) - {"A"} - set(binders)) or ["a"]
            subs = []
            for _ in range(rng.choice([1, 2, 2, 3])):
                r = rng.random()
                x = rng.choice(binders) if (r < 0.45 and binders) else rng.choice(free) if r < 0.9 else "zz"
                v = rng.choice([M.rnd_rational(rng), sp.Symbol(rng.choice(M.FREE)),
                                sp.Symbol(rng.choice(M.FREE)) + 1, 2 * sp.Symbol(rng.choice(M.FREE))])
                safe = [f for f in free if f not in binders]  # a value naming a bound index would be captured
                if len(safe) > 1 and rng.random() < 0.2:
                    x, v = rng.sample(safe, 2)  # merge two free symbols (pool values may coincide afterwards)
                    v = sp.Symbol(v)
                subs.append([x, M.ser(sp.sympify(v))])
            c["subs"] = subs
            keys = list(dict.fromkeys(rng.choice(binders + free) for _ in range(rng.randint(1, 3))))
            c["xmap"] = [[k, M.ser(sp.sympify(rng.choice([M.rnd_rational(rng), sp.Symbol(rng.choice(M.FREE)) * 3])))]
                         for k in keys]
            cases.append(c)
        except M.Unsupported:
            continue
    return cases


run = run_case


def main():
    if sys.argv[1] == "--replay":
        doc = json.load(open(sys.argv[2]))
        case = doc["replay"]["case"]
        sig = doc.get("signature")
        try:
            fails, _ = run(case)
            fails += structural_fixed() if case.get("kind") == "structural" else []
        except Undefined:
            fails = []
        except Exception as exc:  # noqa: BLE001
            fails = [("exception_" + type(exc).__name__, str(exc))]
        hit = [f for f in fails if sig is None or f[0] == sig]
        print(json.dumps({"still_fails": bool(hit), "fails": [list(f) for f in fails][:5]}))
        return
    seed, n = int(sys.argv[1]), int(sys.argv[2])
    cases = gen_cases(seed, n)
    failures, distinct, samples, kinds = [], set(), [], {}
    evaluations = 0
    for sig, what in structural_fixed():
        failures.append({"signature": sig, "what": what, "case": {"kind": "structural", "expr": ["N", "0", "1"], "env_seed": 0}})
    evaluations += 7
    for c in cases:
        try:
            fails, nchk = run(c)
        except Undefined:
            kinds["skipped_singular_point"] = kinds.get("skipped_singular_point", 0) + 1
            continue
        except Exception as exc:  # noqa: BLE001  the implementation raised on a valid input
            fails, nchk = [("exception_" + type(exc).__name__, f"{type(exc).__name__}: {exc}")], 1
        evaluations += nchk
        distinct.add(json.dumps(c, sort_keys=True))
        kinds[c["kind"]] = kinds.get(c["kind"], 0) + 1
        if len(samples) < 5 and c["kind"] not in [s["kind"] for s in samples]:
            samples.append({"kind": c["kind"], "expr": str(load_expr(c))[:160],
                            "subs": str(c.get("subs"))[:100]})
        for sig, what in fails:
            failures.append({"signature": sig, "what": what[:700], "case": c})
    # one failure per signature is enough for the protocol, keep the smallest case
    best = {}
    for f in failures:
        k = f["signature"]
        if k not in best or len(json.dumps(f["case"])) < len(json.dumps(best[k]["case"])):
            best[k] = f
    print(json.dumps({"evaluations": evaluations, "distinct": len(distinct), "samples": samples,
                      "kinds": kinds, "failures": list(best.values())[:20]}))


main()
