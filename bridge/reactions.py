"""Reaction corpus: qrules reactions cached as JSON under /verif/corpus (qrules is slow, 2-60 s each).

  python reactions.py build [name...]   regenerate corpus entries with qrules (offline, deterministic)
  load(name) / load_all()               -> qrules.ReactionInfo
"""
from __future__ import annotations

import json
import os
import sys

import common  # noqa: F401

CORPUS = os.path.join(os.path.dirname(os.path.dirname(os.path.abspath(__file__))), "corpus")

SPECS = {
    # name: (initial, final, intermediates, interaction types, formalism, extra kwargs)
    "jpsi_gpipi_hel": (("J/psi(1S)", [-1, 1]), ["gamma", "pi0", "pi0"], ["f(0)(980)", "f(0)(1500)"], "strong", "helicity"),
    "jpsi_gpipi_can": (("J/psi(1S)", [-1, 1]), ["gamma", "pi0", "pi0"], ["f(0)(980)", "f(0)(1500)"], "strong", "canonical-helicity"),
    "jpsi_gpipi_f2_hel": (("J/psi(1S)", [-1, 1]), ["gamma", "pi0", "pi0"], ["f(0)(980)", "f(2)(1270)"], ["strong", "EM"], "helicity"),
    "jpsi_gpipi_f2_can": (("J/psi(1S)", [-1, 1]), ["gamma", "pi0", "pi0"], ["f(0)(980)", "f(2)(1270)"], ["strong", "EM"], "canonical-helicity"),
    "jpsi_ksp_hel": (("J/psi(1S)", [-1, 1]), ["K0", "Sigma+", "p~"], ["Sigma(1660)", "N(1650)"], ["strong"], "helicity"),
    "jpsi_ksp_can": (("J/psi(1S)", [-1, 1]), ["K0", "Sigma+", "p~"], ["Sigma(1660)", "N(1650)"], ["strong"], "canonical-helicity"),
    "jpsi_ksp1750_hel": (("J/psi(1S)", [-1, 1]), ["K0", "Sigma+", "p~"], ["Sigma(1750)", "N(1700)"], ["strong"], "helicity"),
    "jpsi_ksp1750_can": (("J/psi(1S)", [-1, 1]), ["K0", "Sigma+", "p~"], ["Sigma(1750)", "N(1700)"], ["strong"], "canonical-helicity"),
    "etac_ll_hel": ("eta(c)(1S)", ["Lambda", "Lambda~"], None, ["strong"], "helicity"),
    "etac_ll_can": ("eta(c)(1S)", ["Lambda", "Lambda~"], None, ["strong"], "canonical-helicity"),
    "jpsi_3pi_hel": (("J/psi(1S)", [-1, 0, 1]), ["pi0", "pi+", "pi-"], ["rho(770)"], ["strong", "EM"], "helicity"),
    "jpsi_3pi_can": (("J/psi(1S)", [-1, 0, 1]), ["pi0", "pi+", "pi-"], ["rho(770)"], ["strong", "EM"], "canonical-helicity"),
    "lc_pkpi_hel": ("Lambda(c)+", ["p", "K-", "pi+"], ["Lambda(1520)", "Delta(1232)++", "K*(892)0"], None, "helicity"),
    "lc_pkpi_can": ("Lambda(c)+", ["p", "K-", "pi+"], ["Lambda(1520)", "Delta(1232)++", "K*(892)0"], None, "canonical-helicity"),
    "d0_kkk_hel": ("D0", ["K~0", "K+", "K-"], ["a(0)(980)", "phi(1020)"], None, "helicity"),
    "d0_kkk_can": ("D0", ["K~0", "K+", "K-"], ["a(0)(980)", "phi(1020)"], None, "canonical-helicity"),
    "psi2s_jpsipipi_hel": (("psi(2S)", [-1, 0, 1]), ["J/psi(1S)", "pi+", "pi-"], ["f(0)(500)", "f(0)(980)"], ["strong"], "helicity"),
    "jpsi_pipi_2body_hel": (("J/psi(1S)", [-1, 0, 1]), ["pi+", "pi-"], None, ["strong", "EM"], "helicity"),
    "jpsi_ppbar_hel": (("J/psi(1S)", [-1, 0, 1]), ["p", "p~"], None, ["strong"], "helicity"),
    "jpsi_ppbar_can": (("J/psi(1S)", [-1, 0, 1]), ["p", "p~"], None, ["strong"], "canonical-helicity"),
    "jpsi_4pi_hel": (("J/psi(1S)", [-1, 1]), ["pi0", "pi0", "pi+", "pi-"], ["rho(770)", "a(1)(1260)"], ["strong"], "helicity"),
    "d0_k3pi_hel": ("D0", ["K-", "pi+", "pi+", "pi-"], ["K*(892)0", "rho(770)0", "a(1)(1260)+"], None, "helicity"),
    "b0_dsdpi_hel": ("B0", ["D*(2010)-", "D+", "pi0"], ["D*(2007)0", "D(2)*(2460)0"], None, "helicity"),
    "psi2s_ggjpsi_hel": (("psi(2S)", [-1, 1]), ["gamma", "gamma", "J/psi(1S)"], ["chi(c1)(1P)"], ["EM"], "helicity"),
    "jpsi_kstkst_hel": (("J/psi(1S)", [-1, 0, 1]), ["K+", "pi-", "K-", "pi+"], ["K*(892)0", "K*(892)~0"], ["strong"], "helicity"),
    # two topologies whose isobars both contain final state 0 (helicity states); spin-1/2 recoilers (C04)
    "jpsi_ppbarpi0_hel": (("J/psi(1S)", [-1, 0, 1]), ["pi0", "p", "p~"], ["N(1440)+", "N(1440)~-"], ["strong"], "helicity"),
    "chic0_kstkst_hel": ("chi(c0)(1P)", ["K+", "pi-", "K-", "pi+"], ["K*(892)0", "K*(892)~0"], ["strong"], "helicity"),
    "chic0_omegaomega_hel": ("chi(c0)(1P)", ["pi0", "gamma", "pi0", "gamma"], ["omega(782)"], ["EM", "strong"], "helicity"),
    "jpsi_gkk_hel": (("J/psi(1S)", [-1, 1]), ["gamma", "K+", "K-"], ["f(2)(1270)", "f(0)(1500)"], ["strong", "EM"], "helicity"),
    # parity-conserving node decaying to two IDENTICAL spin-1 particles with unequal helicities, eta = -1 (C03)
    "eta2_rhorho_hel": (("eta(2)(1645)", [-1, 1]), ["rho(770)0", "rho(770)0"], None, ["strong"], "helicity"),
    "eta2_rhorho_can": (("eta(2)(1645)", [-1, 1]), ["rho(770)0", "rho(770)0"], None, ["strong"], "canonical-helicity"),
    "jpsi_geta2_rhorho_hel": (("J/psi(1S)", [1]), [("gamma", [1]), "rho(770)0", "rho(770)0"], ["eta(2)(1645)"], ["strong", "EM"], "helicity"),
    "jpsi_geta2_rhorho_can": (("J/psi(1S)", [1]), [("gamma", [1]), "rho(770)0", "rho(770)0"], ["eta(2)(1645)"], ["strong", "EM"], "canonical-helicity"),
}


# reactions used by ONE property only (not returned by names(), so the other checks' corpora do not change)
EXTRA = {
    # massive spin-1 FINAL state behind a node whose helicity state is massless (C05, axis-angle alignment)
    "tau_nurhopi_hel": ("tau-", ["nu(tau)", "rho(770)0", "pi-"], ["a(1)(1260)-"], ["weak"], "helicity"),
}


def generate(name: str):
    import qrules

    ini, fin, inter, itypes, formalism = {**SPECS, **EXTRA}[name]
    kw = {}
    if inter is not None:
        kw["allowed_intermediate_particles"] = inter
    if itypes is not None:
        kw["allowed_interaction_types"] = itypes
    return qrules.generate_transitions(initial_state=[ini] if isinstance(ini, tuple) else ini,
                                       final_state=fin, formalism=formalism, **kw)


def path(name: str) -> str:
    return os.path.join(CORPUS, name + ".json")


def load(name: str):
    import qrules

    return qrules.io.load(path(name))


def names() -> list[str]:
    return sorted(n for n in SPECS if os.path.exists(path(n)))


def load_all() -> dict:
    return {n: load(n) for n in names()}


if __name__ == "__main__":
    import qrules

    if sys.argv[1] == "build":
        for n in sys.argv[2:] or {**SPECS, **EXTRA}:
            try:
                r = generate(n)
            except Exception as e:  # noqa: BLE001
                print(n, "FAILED", repr(e)[:200], flush=True)
                continue
            qrules.io.write(r, path(n))
            back = load(n)
            assert back == r, n
            print(n, "transitions", len(r.transitions), "topologies", len({t.topology for t in r.transitions}), flush=True)
