"""Shared helpers of C14/C15: class discovery, SymPy <-> IR <-> Gallina (AV.Uneval.expr), attribute pool.

IR (plain tuples/lists, JSON-able):
  ("Y", srepr)                      Symbol (name + assumptions = srepr string)
  ("N", p, q)                       Integer / Rational
  ("A", head, [args])               any other Basic (head = module.qualname | "atom:<srepr>" | "fn:<name>")
  ("U", cls, [args], [attrs])       instance of a decorated class; attrs: ("n",) ("s",str) ("c",qual) ("o",qual) ("u",str)
Fail-closed: anything that cannot be represented raises IRError.
"""
from __future__ import annotations

import dataclasses
import fractions
import importlib
import inspect
import pkgutil
import re

import common  # noqa: F401
import sympy as sp


class IRError(Exception):
    pass


class ModelError(Exception):
    """The model returned one of its ERROR nodes."""


# ---------------------------------------------------------------- class discovery
def qual(c) -> str:
    return f"{c.__module__}.{c.__qualname__}"


def is_decorated(c) -> bool:
    from ampform.sympy import _decorator as D

    return (inspect.isclass(c) and issubclass(c, sp.Basic) and dataclasses.is_dataclass(c)
            and "__getnewargs__" in _mro_dict(c) and getattr(c, "__new__", None) is not sp.Expr.__new__
            and getattr(c, "_hashable_content", None) is D._hashable_content_method)


def _mro_dict(c):
    d = {}
    for k in reversed(c.__mro__):
        d.update(vars(k))
    return d


_CLASSES = None


def discover():
    """All sp.Basic subclasses defined in the ampform package (walks every module)."""
    global _CLASSES
    if _CLASSES is not None:
        return _CLASSES
    import ampform

    common.assert_repo_import()
    seen = {}
    failed = []
    for m in pkgutil.walk_packages(ampform.__path__, "ampform."):
        try:
            mod = importlib.import_module(m.name)
        except Exception as e:  # noqa: BLE001
            failed.append((m.name, repr(e)[:100]))
            continue
        for o in vars(mod).values():
            if inspect.isclass(o) and issubclass(o, sp.Basic) and o.__module__.startswith("ampform"):
                seen[qual(o)] = o
    if failed:
        raise IRError(f"cannot import ampform modules: {failed}")
    _CLASSES = dict(sorted(seen.items()))
    return _CLASSES


def decorated():
    return {q: c for q, c in discover().items() if is_decorated(c)}


def helpers():
    """Non-decorated expression classes of the package (PoolSum, array helpers, ComplexSqrt ...)."""
    skip = {"ampform.sympy.NumPyPrintable", "ampform.sympy.deprecated.UnevaluatedExpression",
            "ampform.sympy._array_expressions._ArrayExpr"}
    return {q: c for q, c in discover().items() if not is_decorated(c) and q not in skip}


def sym_fields(c):
    return [f for f in dataclasses.fields(c) if f.metadata.get("sympify")]


def attr_fields(c):
    return [f for f in dataclasses.fields(c) if not f.metadata.get("sympify")]


# ---------------------------------------------------------------- attribute pool
def pool_function(s, m1, m2):
    """A user callable usable as phsp_factor (natural: builds an expression from its arguments)."""
    return sp.sqrt(s - (m1 + m2) ** 2) / s


def pool_function2(*args):
    return sp.Function("g")(*args)


class PoolClass:
    """A plain (non-SymPy) class used as attribute value."""


class ValueObj:
    """A hand-written callable with VALUE semantics (__eq__/__hash__ on its field) and the default
    `<... object at 0x...>` repr: usable as phsp_factor.  Module-level, so it pickles; a round trip or a
    second construction gives a different object that is == to the first."""

    def __init__(self, k):
        self.k = fractions.Fraction(k)

    def __eq__(self, other):
        return type(other) is ValueObj and other.k == self.k

    def __hash__(self):
        return hash(("ValueObj", self.k))

    def __call__(self, s, m1, m2):
        return sp.Rational(self.k.numerator, self.k.denominator) * sp.sqrt(s - (m1 + m2) ** 2) / s


def value_obj_name(v):
    return f"uneval_ir.ValueObj({v.k.numerator}/{v.k.denominator})"


def named_obj(name):
    """object for an IR name: registry, ValueObj(p/q) (a NEW object each time), or an importable qualname"""
    if name in NAMED:
        return NAMED[name]
    if name.startswith("uneval_ir.ValueObj("):
        return ValueObj(fractions.Fraction(name[len("uneval_ir.ValueObj("):-1]))
    return _import_obj(name)


def make_closure(power):
    """Factory of phase-space-factor-like callables: DISTINCT function objects that share module and
    qualname (`make_closure.<locals>.rho`).  Equality of attributes is equality of Python objects."""
    def rho(s, m1, m2):
        return (s - (m1 + m2) ** 2) ** sp.Rational(power, 2) / s
    return rho


CLOSURE_A = make_closure(1)
CLOSURE_B = make_closure(3)
LAMBDA_A = (lambda s, m1, m2: sp.sqrt(s) * m1, lambda s, m1, m2: s * sp.sqrt(m2))
# objects that have no importable qualified name of their own: IR name -> object
NAMED = {"uneval_ir.CLOSURE_A": CLOSURE_A, "uneval_ir.CLOSURE_B": CLOSURE_B,
         "uneval_ir.LAMBDA_A[0]": LAMBDA_A[0], "uneval_ir.LAMBDA_A[1]": LAMBDA_A[1]}


class Marker:
    def __init__(self, j):
        self.j = j

    def __call__(self, *args):
        return sp.Function(f"__call_{self.j}")(*args)


UNHASHABLE = {"['a', 'b']": ["a", "b"], "{'k': 1}": {"k": 1}}


def attr_ir(v):
    if v is None:
        return ("n",)
    if isinstance(v, str):
        return ("s", v)
    if inspect.isclass(v):
        return ("c", qual(v))
    if isinstance(v, Marker):
        return ("m", v.j)
    if isinstance(v, sp.Basic):
        return ("e", to_ir(v))   # a SymPy object in a sympify=False field (e.g. phsp_factor=sp.Lambda(...))
    for name, o in NAMED.items():
        if o is v:
            return ("o", name)
    if isinstance(v, ValueObj):
        return ("o", value_obj_name(v))
    try:
        hash(v)
    except TypeError:
        s = str(v)
        if s not in UNHASHABLE:
            raise IRError(f"unknown unhashable attribute {s}")
        return ("u", s)
    if callable(v) and hasattr(v, "__qualname__"):
        return ("o", qual(v))
    raise IRError(f"attribute value {v!r} not representable")


def _import_obj(q):
    mod, _, name = q.rpartition(".")
    parts = q.split(".")
    for i in range(len(parts) - 1, 0, -1):
        try:
            o = importlib.import_module(".".join(parts[:i]))
        except ImportError:
            continue
        for p in parts[i:]:
            o = getattr(o, p)
        return o
    raise IRError(f"cannot import {q}")


def attr_py(a):
    k = a[0]
    if k == "n":
        return None
    if k == "s":
        return a[1]
    if k == "e":
        return from_ir(a[1])
    if k == "o":
        return named_obj(a[1])
    if k == "c":
        return _import_obj(a[1])
    if k == "u":
        return type(UNHASHABLE[a[1]])(UNHASHABLE[a[1]])
    raise IRError(f"attr {a}")


# ---------------------------------------------------------------- SymPy -> IR
def head_of(e) -> str:
    t = type(e)
    if isinstance(e, sp.core.function.AppliedUndef):
        return "fn:" + t.__name__
    return qual(t)


def to_ir(e):
    if isinstance(e, sp.Symbol):  # incl. Dummy: srepr carries the dummy_index
        return ("Y", sp.srepr(e))
    if isinstance(e, sp.Integer):
        return ("N", int(e), 1)
    if isinstance(e, sp.Rational):
        return ("N", int(e.p), int(e.q))
    if not isinstance(e, sp.Basic):
        raise IRError(f"non-Basic node {type(e)}: {e!r}")
    if is_decorated(type(e)):
        c = type(e)
        sf = [getattr(e, f.name) for f in sym_fields(c)]
        if tuple(sf) != tuple(e.args):
            raise IRError(f"fields and args of {c.__name__} disagree: {sf} vs {e.args}")
        return ("U", qual(c), [to_ir(a) for a in sf], [attr_ir(getattr(e, f.name)) for f in attr_fields(c)])
    if not e.args:
        return ("A", "atom:" + sp.srepr(e), [])
    return ("A", head_of(e), [to_ir(a) for a in e.args])


_NS = None


def _ns():
    global _NS
    if _NS is None:
        _NS = {}
        exec("from sympy import *", _NS)  # noqa: S102
        from sympy.tensor.array.expressions.array_expressions import ArraySymbol
        from sympy.core.symbol import Str

        _NS.update({"ArraySymbol": ArraySymbol, "Str": Str, "NoneToken": __import__("sympy.codegen.ast", fromlist=["NoneToken"]).NoneToken})
        for q, c in discover().items():
            _NS[c.__name__] = c
    return _NS


def from_ir(t):
    k = t[0]
    if k == "Y":
        return eval(t[1], _ns())  # noqa: S307
    if k == "N":
        return sp.Rational(t[1], t[2])
    if k == "A":
        h = t[1]
        if h.startswith("ERROR:"):
            raise ModelError(h)
        if h.startswith("atom:"):
            return eval(h[5:], _ns())  # noqa: S307
        args = [from_ir(a) for a in t[2]]
        if h.startswith("fn:"):
            return sp.Function(h[3:])(*args)
        if h.startswith("call:"):
            return named_obj(h[5:])(*args)
        if h.startswith("py:"):
            raise ModelError(h)
        return _import_obj(h)(*args)
    if k == "U":
        c = _import_obj(t[1])
        se = iter([from_ir(a) for a in t[2]])
        at = iter([attr_py(a) for a in t[3]])
        # SymPy fields positionally, non-SymPy fields by keyword (the way users call the constructors), so
        # that the all-positional path of func(*args) / unpickling is a DIFFERENT path from construction
        pos, kw, seen_attr = [], {}, False
        for f in dataclasses.fields(c):
            if f.metadata.get("sympify") and not seen_attr:
                pos.append(next(se))
            elif f.metadata.get("sympify"):
                kw[f.name] = next(se)
            else:
                seen_attr = True
                kw[f.name] = next(at)
        return c(*pos, **kw)
    raise IRError(f"bad IR {t!r}")


def norm(e):
    """Rebuild bottom-up through SymPy's constructors (what from_ir does to a model result): removes
    evaluate=False artefacts on the implementation side so that both sides are normalised alike."""
    return from_ir(to_ir(e))


class Undecided(Exception):
    pass


class TimeLimit(BaseException):
    pass


class time_limit:
    """with time_limit(s): ... raises TimeLimit inside the block after s seconds; the timer keeps firing
    every 50 ms until the block is left (SymPy/mpmath swallow a single exception in bare excepts)."""

    def __init__(self, seconds):
        self.s = seconds

    def __enter__(self):
        import signal

        def _al(*_):
            raise TimeLimit

        signal.signal(signal.SIGALRM, _al)
        signal.setitimer(signal.ITIMER_REAL, self.s, 0.05)

    def __exit__(self, *exc):
        import signal

        # a tick may arrive while we are leaving: keep trying until the timer is really off
        while True:
            try:
                signal.setitimer(signal.ITIMER_REAL, 0)
                signal.signal(signal.SIGALRM, signal.SIG_IGN)
                break
            except TimeLimit:
                continue
        return False


def same(a, b, limit=6) -> bool:
    """Equality modulo SymPy's own normalisation: rebuild both sides bottom-up; if they still differ
    (sign extraction / number distribution depend on construction history) compare after sp.expand."""
    import signal

    a1, b1 = canon_dummies(norm(a)), canon_dummies(norm(b))
    if a1 == b1:
        return True

    try:
        with time_limit(limit):
            return sp.expand(a1) == sp.expand(b1)
    except TimeLimit:
        raise Undecided from None


def numeric_equal(a, b, limit=8):
    """Values of two expressions at 3 rational points, 30-digit arithmetic.  None = cannot decide."""
    import signal

    import numpy as np

    syms = sorted((a.free_symbols | b.free_symbols), key=str)
    rng = np.random.default_rng(11)

    try:
      with time_limit(limit):
        for _ in range(3):
            pt = {s: sp.Rational(int(rng.integers(11, 97)), int(rng.integers(7, 23))) for s in syms}
            x = complex(a.xreplace(pt).doit().evalf(30))
            y = complex(b.xreplace(pt).doit().evalf(30))
            if not (np.isfinite(x) and np.isfinite(y)):
                return None
            # both sides are the same function evaluated with 30 digits: only rounding remains
            if abs(x - y) > 1e-9 * max(1.0, abs(x)):
                return False
        return True
    except TimeLimit:
        return None
    except Exception:  # noqa: BLE001
        return None


def canon_dummies(e):
    """evaluate() creates a fresh Dummy (bound summation index) on every call, so two unfoldings of
    the same expression are never `==`.  Compare modulo the identity of Dummies: every Dummy is renamed
    to a plain symbol carrying its name and assumptions (the model's templates use one fixed symbol)."""
    ds = {n for n in sp.preorder_traversal(e) if isinstance(n, sp.Dummy)}
    if not ds:
        return e
    return e.xreplace({d: sp.Symbol(f"_Dummy_{d.name}", **d.assumptions0) for d in ds})


def ir_size(t):
    if t[0] in "YN":
        return 1
    return 1 + sum(ir_size(a) for a in t[2])


# ---------------------------------------------------------------- IR -> Gallina
def cstr(s: str) -> str:
    if any(ord(ch) > 126 or ord(ch) < 32 or ch == "@" for ch in s):
        raise IRError(f"non-ascii string {s!r}")
    return '"' + s.replace('"', '""') + '"'


def attr_coq(a):
    k = a[0]
    if k == "n":
        return "ANone"
    if k == "e":
        raise IRError("SymPy object in a non-SymPy field: outside the Coq model (search harness only)")
    return {"s": "AStr", "c": "ACls", "o": "AObj", "u": "AUnh"}[k] + " " + cstr(a[1])


def coq(t):
    k = t[0]
    if k == "Y":
        return f"Sym {cstr(t[1])}"
    if k == "N":
        return f"Num (Qmake ({t[1]})%Z {t[2]}%positive)"
    if k == "A":
        return f"App {cstr(t[1])} [" + "; ".join("(" + coq(a) + ")" for a in t[2]) + "]"
    if k == "U":
        return (f"Unev {cstr(t[1])} [" + "; ".join("(" + coq(a) + ")" for a in t[2]) + "] ["
                + "; ".join("(" + attr_coq(a) + ")" for a in t[3]) + "]")
    raise IRError(f"bad IR {t!r}")


# ---------------------------------------------------------------- parse `show` output
def parse_show(s: str):
    pos = 0

    def lp():
        nonlocal pos
        j = s.index(":", pos)
        n = int(s[pos:j])
        r = s[j + 1:j + 1 + n]
        pos = j + 1 + n
        return r

    def num(term):
        nonlocal pos
        j = s.index(term, pos)
        n = int(s[pos:j])
        pos = j + 1
        return n

    def attr():
        nonlocal pos
        k = s[pos]
        pos += 1
        if k == "n":
            return ("n",)
        return (k, lp())

    def ex():
        nonlocal pos
        k = s[pos]
        pos += 1
        if k == "Y":
            return ("Y", lp())
        if k == "N":
            p = num("/")
            q = num(";")
            return ("N", p, q)
        if k == "A":
            h = lp()
            n = num(";")
            return ("A", h, [ex() for _ in range(n)])
        if k == "U":
            c = lp()
            n = num(";")
            args = [ex() for _ in range(n)]
            m = num(";")
            return ("U", c, args, [attr() for _ in range(m)])
        raise IRError(f"parse error at {pos}: {s[pos - 1:pos + 20]!r}")

    r = ex()
    if pos != len(s):
        raise IRError("trailing garbage in show output")
    return r


def coq_outputs(out: str):
    """Results of `Eval vm_compute in (...)` lines: strings (unescaped) / bools / other, in order."""
    res = []
    for m in re.finditer(r'^\s*= (.*?)\n\s*: (string|bool)\s*$', out, re.M | re.S):
        body, ty = m.group(1), m.group(2)
        if ty == "bool":
            res.append(body.strip() == "true")
        else:
            b = body.strip()
            assert b.startswith('"') and b.endswith('"'), b[:50]
            res.append(b[1:-1].replace('""', '"'))
    return res
