"""C11 model regeneration, keyword constructions: every phase-space class (and BreakupMomentumSquared)
built from keyword arguments in every order, with and without name=, and with a leading positional
argument; each is unfolded exactly like the positional trees of symgen_C11.py.  Gen_C11kw.v lists
(label, keyword-built tree, positionally-built tree); C11_keyword.v proves them syntactically equal
and equal to the gen_* trees the other theorems are about."""
import itertools
import sys

import common  # noqa: F401
import sympy as sp
from ser import HEADER, coq_string, ser

common.assert_repo_import()
from ampform.dynamics.phasespace import (  # noqa: E402
    BreakupMomentumSquared,
    EqualMassPhaseSpaceFactor,
    PhaseSpaceFactor,
    PhaseSpaceFactorAbs,
    PhaseSpaceFactorComplex,
    PhaseSpaceFactorSWave,
)
from ampform.sympy.math import ComplexSqrt  # noqa: E402

out = sys.argv[1]
s, m1, m2 = sp.symbols("s m1 m2")
VAL = {"s": s, "m1": m1, "m2": m2}


def unfold(e):
    e = e.doit()
    return e.replace(lambda t: isinstance(t, ComplexSqrt), lambda t: t.get_definition())


def constructions():
    """(label, kwargs in call order, positional prefix)"""
    for perm in itertools.permutations(("s", "m1", "m2")):
        yield "kw:" + ",".join(perm), [(k, VAL[k]) for k in perm], ()
        for pos in range(4):
            order = list(perm)
            order.insert(pos, "name")
            yield "kw+name:" + ",".join(order), [(k, VAL.get(k, "f")) for k in order], ()
    for perm in itertools.permutations(("m1", "m2")):
        yield "pos s, kw:" + ",".join(perm), [(k, VAL[k]) for k in perm], (s,)
        yield "pos s, kw+name:name," + ",".join(perm), [("name", "f"), *[(k, VAL[k]) for k in perm]], (s,)
    yield "pos s,m1, kw:name,m2", [("name", "f"), ("m2", m2)], (s, m1)


CLASSES = [BreakupMomentumSquared, PhaseSpaceFactor, PhaseSpaceFactorAbs, PhaseSpaceFactorComplex,
           PhaseSpaceFactorSWave, EqualMassPhaseSpaceFactor]
rows, positional = [], []
for cls in CLASSES:
    pos_tree = unfold(cls(s, m1, m2))
    positional.append(ser(pos_tree))
    for label, kw, prefix in constructions():
        obj = cls(*prefix, **dict(kw))  # dict preserves the call order
        rows.append(f"({coq_string(cls.__name__ + ' ' + label)}, {ser(unfold(obj))}, {ser(pos_tree)})")
with open(out, "w") as f:
    f.write(HEADER.format(gen="bridge/symgen_C11kw.py"))
    f.write("Definition gen_kw : list (string * expr * expr) :=\n  [" + ";\n   ".join(rows) + "].\n\n")
    f.write("Definition gen_kw_positional : list expr :=\n  [" + ";\n   ".join(positional) + "].\n")
print("ok", len(rows), "constructions")
