"""C20 numeric/exact harness on the implementation: supporting exploration and the
failing-input search.  All arithmetic is exact (SymPy rationals / square roots of
rationals); the PDG limits are written here independently of the code.

usage: search_C20.py <seed> <n>            -> JSON {evaluations, distinct, samples, failures}
       search_C20.py --replay <json-file>  -> JSON {still_fails: bool}
"""
import json
import random
import sys
from fractions import Fraction as F

import common  # noqa: F401
import sympy as sp

common.assert_repo_import()
from ampform.kinematics.phasespace import (  # noqa: E402
    Kallen,
    Kibble,
    compute_third_mandelstam,
    is_within_phasespace,
)

R = sp.Rational


def rq(rng, lo, hi, den=20):
    return R(rng.randint(int(lo * den), int(hi * den)), den)


def mink(p):
    return p[0] ** 2 - p[1] ** 2 - p[2] ** 2 - p[3] ** 2


def add(p, q):
    return tuple(a + b for a, b in zip(p, q))


def check_kallen(x, y, z, a, b):
    fails = []
    v = Kallen(x, y, z).doit()
    for perm in [(y, x, z), (x, z, y), (z, y, x), (y, z, x), (z, x, y)]:
        if Kallen(*perm).doit() != v:
            fails.append(("kallen_symmetric", f"Kallen{(x, y, z)} != Kallen{perm}"))
    if v != x**2 + y**2 + z**2 - 2 * x * y - 2 * y * z - 2 * z * x:
        fails.append(("kallen_value", f"Kallen{(x, y, z)} = {v}"))
    lhs = Kallen(x, a**2, b**2).doit()
    rhs = (x - (a + b) ** 2) * (x - (a - b) ** 2)
    if sp.expand(lhs - rhs) != 0:
        fails.append(("kallen_factor", f"Kallen({x},{a}^2,{b}^2)={lhs} != {rhs}"))
    return fails


def check_event(E, P2, P3):
    """E = (E1,E2,E3); P2, P3 three-momenta; p1 = -(p2+p3)."""
    p2 = (E[1], *P2)
    p3 = (E[2], *P3)
    p1 = (E[0], *[-(a + b) for a, b in zip(P2, P3)])
    msq = [mink(p) for p in (p1, p2, p3)]
    if min(msq) < 0:
        return None
    m1, m2, m3 = [sp.sqrt(v) for v in msq]
    m0 = E[0] + E[1] + E[2]
    s1, s2, s3 = mink(add(p2, p3)), mink(add(p1, p3)), mink(add(p1, p2))
    fails = []
    t = sp.expand(compute_third_mandelstam(s1, s2, m0, m1, m2, m3))
    if sp.simplify(t - s3) != 0:
        fails.append(("third_mandelstam", f"third={t} expected {s3}"))
    k = sp.expand(Kibble(s1, s2, s3, m0, m1, m2, m3).doit())
    if not (k <= 0):
        fails.append(("kibble_event_nonpos", f"Kibble={k} > 0 on a physical event"))
    ind = is_within_phasespace(s1, s2, m0, m1, m2, m3, outside_value=sp.Integer(-7)).doit()
    if ind != 1:
        fails.append(("indicator_event", f"indicator={ind} on a physical event"))
    return fails


def pdg_limits(s1, m0, m1, m2, m3):
    r = sp.sqrt(s1)
    E1 = (m0**2 - s1 - m1**2) / (2 * r)
    E3 = (s1 - m2**2 + m3**2) / (2 * r)
    u = sp.sqrt(E1**2 - m1**2)
    v = sp.sqrt(E3**2 - m3**2)
    return (E1 + E3) ** 2 - (u + v) ** 2, (E1 + E3) ** 2 - (u - v) ** 2


def check_box(s1, s2, m0, m1, m2, m3):
    lo, hi = pdg_limits(s1, m0, m1, m2, m3)
    lo_f, hi_f = sp.N(lo, 50), sp.N(hi, 50)
    if abs(sp.N(s2 - lo, 50)) < 1e-25 or abs(sp.N(s2 - hi, 50)) < 1e-25:
        return None  # on the boundary: decided by the theorem, not by floating comparison
    inside = bool(lo_f <= s2 <= hi_f)
    ind = is_within_phasespace(s1, s2, m0, m1, m2, m3, outside_value=sp.Integer(-7)).doit()
    want = 1 if inside else -7
    fails = []
    if ind != want:
        fails.append(("indicator_box", f"indicator={ind} expected {want} (limits {float(lo_f):.6g}..{float(hi_f):.6g})"))
    # lambdified route (float), away from the boundary only
    if min(abs(float(s2 - lo_f)), abs(float(s2 - hi_f))) > 1e-6:
        sy = sp.symbols("a b c d e f")
        fn = sp.lambdify(sy, is_within_phasespace(*sy, outside_value=sp.Integer(-7)).doit(), "numpy")
        val = float(fn(*[float(v) for v in (s1, s2, m0, m1, m2, m3)]))
        if val != float(want):
            fails.append(("indicator_box_numpy", f"lambdified indicator={val} expected {want}"))
    return fails


KW_ORDERS = [("m0", "m1", "m2", "m3", "sigma1", "sigma2", "sigma3"), ("sigma3", "sigma2", "sigma1", "m3", "m2", "m1", "m0"),
             ("m2", "sigma1", "m0", "sigma3", "m3", "sigma2", "m1")]


def check_keywords(s1, s2, m0, m1, m2, m3, order):
    """The expression classes built through keywords in any order are the positionally built ones."""
    fails = []
    s3 = compute_third_mandelstam(s1, s2, m0, m1, m2, m3)
    vals = {"sigma1": s1, "sigma2": s2, "sigma3": s3, "m0": m0, "m1": m1, "m2": m2, "m3": m3}
    ref = sp.expand(Kibble(s1, s2, s3, m0, m1, m2, m3).doit())
    kw = sp.expand(Kibble(**{k: vals[k] for k in KW_ORDERS[order]}).doit())
    if kw != ref:
        fails.append(("kibble_keyword_order", f"Kibble(**{{{', '.join(KW_ORDERS[order])}}}) = {kw}, positional {ref}"))
    mixed = sp.expand(Kibble(s1, s2, s3, m2=m2, m0=m0, m3=m3, m1=m1).doit())
    if mixed != ref:
        fails.append(("kibble_keyword_order", f"Kibble(s1,s2,s3,m2=,m0=,m3=,m1=) = {mixed}, positional {ref}"))
    if sp.expand(Kallen(z=m1, x=s1, y=s2).doit()) != sp.expand(Kallen(s1, s2, m1).doit()):
        fails.append(("kallen_keyword_order", "Kallen(z=,x=,y=) differs from Kallen(x,y,z)"))
    return fails


def check_cached(s1, s2, m0, m1, m2, m3, outs):
    """The indicator unfolded through the library's disk cache (perform_cached_doit), one outside value after the other
    in ONE cache directory, with the hash-seed mode of this process: each returns the caller's own outside value."""
    import shutil
    import tempfile

    from ampform.sympy import perform_cached_doit

    fails = []
    d = tempfile.mkdtemp(prefix="c20cache_")
    try:
        lo, hi = pdg_limits(s1, m0, m1, m2, m3)
        inside = bool(sp.N(lo, 50) <= s2 <= sp.N(hi, 50))
        sy = sp.symbols("a b c d e f")
        for o in outs:
            ov = sp.sympify(o)
            folded = is_within_phasespace(*sy, outside_value=ov)
            got = perform_cached_doit(folded, d).xreplace(dict(zip(sy, (s1, s2, m0, m1, m2, m3))))
            want = 1 if inside else ov
            if not (got == want or sp.simplify(got - want) == 0):  # == first: nan is structurally equal to itself
                fails.append(("indicator_cached_doit", f"outside_value={o} after {outs[:outs.index(o)]} in one cache directory: "
                              f"indicator = {got}, expected {want}"))
    finally:
        shutil.rmtree(d, ignore_errors=True)
    return fails


def gen_cases(seed, n):
    rng = random.Random(seed)
    cases = []
    for i in range(n):
        kind = i % 3
        if kind == 0:
            xyz = [rq(rng, -5, 5) for _ in range(3)]
            if rng.random() < 0.4:  # vanishing arguments (massless particles, sigma = 0) in every slot
                for slot in rng.sample(range(3), rng.choice([1, 1, 2])):
                    xyz[slot] = R(0)
            ab = [rq(rng, 0, 3), rq(rng, 0, 3)]
            if rng.random() < 0.2:
                ab[rng.randrange(2)] = R(0)
            cases.append({"kind": "kallen", "x": str(xyz[0]), "y": str(xyz[1]),
                          "z": str(xyz[2]), "a": str(ab[0]), "b": str(ab[1])})
        elif kind == 1:
            P2 = [rq(rng, -2, 2) for _ in range(3)]
            P3 = [rq(rng, -2, 2) for _ in range(3)]
            if rng.random() < 0.25:  # collinear event: Kibble = 0 exactly (boundary of the region)
                lam = rq(rng, -2, 2)
                P3 = [lam * c for c in P2]
            pair_massless = rng.random() < 0.12
            if pair_massless:  # two massless particles flying collinearly: sigma_1 = 0 exactly
                t = rq(rng, 0.05, 1)
                P2 = [t * c for c in rng.choice([(1, 2, 2), (2, 3, 6), (0, 3, 4), (0, 0, 1)])]
                lam = rq(rng, 0.05, 2)
                P3 = [lam * c for c in P2]
            P1 = [-(a + b) for a, b in zip(P2, P3)]
            Es = []
            for P in (P1, P2, P3):
                pp = sum(c * c for c in P)
                massless = rng.random() < 0.15 or (pair_massless and P is not P1)
                # E rational with E^2 >= |p|^2 ; massless only when |p| is rational
                if massless and sp.sqrt(pp).is_rational:
                    Es.append(sp.sqrt(pp))
                else:
                    Es.append(sp.ceiling(sp.sqrt(pp) * 20) / 20 + rq(rng, 0, 2))
            cases.append({"kind": "event", "E": [str(e) for e in Es], "P2": [str(c) for c in P2],
                          "P3": [str(c) for c in P3]})
        else:
            m1, m2, m3 = [rq(rng, 0, 1.5) for _ in range(3)]
            if rng.random() < 0.2:
                m2 = m3
            if rng.random() < 0.15:
                m1 = R(0)
            m0 = m1 + m2 + m3 + rq(rng, 0.05, 3)
            lo1, hi1 = (m2 + m3) ** 2, (m0 - m1) ** 2
            lo2, hi2 = (m1 + m3) ** 2, (m0 - m2) ** 2
            s1 = lo1 + (hi1 - lo1) * R(rng.randint(1, 39), 40)
            s2 = lo2 + (hi2 - lo2) * R(rng.randint(0, 40), 40)
            if s1 <= 0:
                continue
            cases.append({"kind": "box", "s1": str(s1), "s2": str(s2), "m": [str(v) for v in (m0, m1, m2, m3)]})
            if i % 9 == 2:
                cases.append({"kind": "keywords", "s1": str(s1), "s2": str(s2), "m": [str(v) for v in (m0, m1, m2, m3)],
                              "order": rng.randrange(3)})
            if i % 30 == 5:
                cases.append({"kind": "cached", "s1": str(s1), "s2": str(s2), "m": [str(v) for v in (m0, m1, m2, m3)],
                              "outs": rng.choice([["-1", "-2"], ["-2", "-1"], ["-1.0", "-2.0", "0"], ["nan", "-1", "-2"], ["0", "0.0"]])})
    return cases


def run_case(c):
    S = sp.sympify
    if c["kind"] == "kallen":
        return check_kallen(*(S(c[k]) for k in "xyzab"))
    if c["kind"] == "event":
        return check_event([S(e) for e in c["E"]], [S(v) for v in c["P2"]], [S(v) for v in c["P3"]])
    if c["kind"] == "keywords":
        return check_keywords(S(c["s1"]), S(c["s2"]), *[S(v) for v in c["m"]], c["order"])
    if c["kind"] == "cached":
        return check_cached(S(c["s1"]), S(c["s2"]), *[S(v) for v in c["m"]], c["outs"])
    if c["kind"] == "box":
        return check_box(S(c["s1"]), S(c["s2"]), *[S(v) for v in c["m"]])
    raise ValueError(c)


def main():
    if sys.argv[1] == "--replay":
        doc = json.load(open(sys.argv[2]))
        case = doc["replay"]["case"]
        fails = run_case(case)
        print(json.dumps({"still_fails": bool(fails), "fails": fails}))
        return
    seed, n = int(sys.argv[1]), int(sys.argv[2])
    cases = gen_cases(seed, n)
    failures, distinct, nontrivial, samples = [], set(), 0, []
    kinds = {}
    for c in cases:
        try:
            fails = run_case(c)
        except Exception as exc:  # the implementation raised on a valid input
            fails = [("exception", f"{type(exc).__name__}: {exc}")]
        if fails is None:
            continue
        key = json.dumps(c, sort_keys=True)
        if key not in distinct:
            distinct.add(key)
            nontrivial += 1
        kinds[c["kind"]] = kinds.get(c["kind"], 0) + 1
        if len(samples) < 4 and c["kind"] not in [s["kind"] for s in samples]:
            samples.append(c)
        for sig, what in fails:
            failures.append({"signature": sig, "what": what, "case": c})
        if len(failures) >= 20:  # enough to report; do not spend the failing-input search budget on more
            break
    print(json.dumps({"evaluations": sum(kinds.values()), "distinct": nontrivial, "samples": samples,
                      "kinds": kinds, "failures": failures[:20]}))


main()
