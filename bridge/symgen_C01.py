"""C01 model regeneration: formulate models over the (reaction, configuration) lattice with the
CURRENT /repo and serialise what the property talks about into Gen_C01.v (AV.Closure.model).

usage: symgen_C01.py <out.v> <seed> <n_random>
Prints one JSON line: {"models": [{"name":..., "cfg":..., "nodes":...}], "tie_failures": [...]}
"""
import json
import random
import sys
import time

import common  # noqa: F401
import modelgen as mg
import reactions

common.assert_repo_import()

out, seed, n_random = sys.argv[1], int(sys.argv[2]), int(sys.argv[3])
rng = random.Random(seed)
names = reactions.names()

# fixed part: every corpus reaction in its default configuration + the configurations that
# exposed defects on the pinned tree (kept as a regression corpus, run first)
fixed = [mg.default_cfg(n) for n in names]
fixed += [
    mg.default_cfg("etac_ll_hel", dyn="none"),
    mg.default_cfg("jpsi_ksp_hel", align="dpd1", stable=[1, 2]),
    mg.default_cfg("jpsi_ksp_hel", align="dpd1", stable=[1, 2, 3], scalar_m0=True),
    mg.default_cfg("jpsi_gpipi_hel", align="aa", dyn="bwff"),
    mg.default_cfg("jpsi_gpipi_hel", scalar_m0=True, stable=[0, 1, 2], dyn="abw", couplings=True),
    mg.default_cfg("lc_pkpi_hel", align="dpd2", dyn="bw"),
    mg.default_cfg("d0_k3pi_hel", dyn="bwff"),
    mg.default_cfg("jpsi_3pi_hel", permutate=True, dyn="custom"),
    # a SINGLE stable final state under DPD with mass-dependent lineshapes (m_i must not be parameter and variable at once)
    mg.default_cfg("jpsi_ksp_can", align="dpd1", stable=[2], dyn="bwff"),
    mg.default_cfg("jpsi_ksp_can", align="dpd2", stable=[3], dyn="bwff", scalar_m0=True),
    mg.default_cfg("jpsi_ksp_can", align="dpd3", stable=[1], dyn="bwff"),
    mg.default_cfg("jpsi_gpipi_can", dyn="bwff", stable=[1], dyn_names=["J/psi(1S)", "f(0)(980)"]),
    # axis-angle alignment with a MASSLESS final state below an isobar (its Wigner angles must be defined too)
    mg.default_cfg("chic0_omegaomega_hel", align="aa"),
    mg.default_cfg("psi2s_ggjpsi_hel", align="aa", keep=[0, 1]),
    # the model returned by rename_symbols: every stable mass of a DPD model renamed (they occur inside the zeta-angle definitions)
    mg.default_cfg("jpsi_ksp_hel", align="dpd1", stable=[1, 2, 3], scalar_m0=True, rename_nth={"par": list(range(12)), "kin": []}),
    mg.default_cfg("jpsi_ksp_can", align="dpd2", stable=[1, 3], dyn="bw", rename_nth={"par": list(range(40)), "kin": [0, 3]}),
]
small_for_aa = {"jpsi_gpipi_hel", "jpsi_gpipi_can", "etac_ll_hel", "etac_ll_can", "jpsi_ppbar_hel",
                "jpsi_pipi_2body_hel", "d0_kkk_hel", "psi2s_jpsipipi_hel", "jpsi_ksp_hel", "lc_pkpi_hel", "chic0_omegaomega_hel"}
cfgs = list(fixed)
while len(cfgs) < len(fixed) + n_random:
    n = rng.choice(names)
    c = mg.random_cfg(rng, n)
    if c["align"] == "aa" and n not in small_for_aa:
        c["align"] = "none"
    cfgs.append(c)

defs, meta, tie_failures, rejected = [], [], [], []
t0 = time.time()
for i, cfg in enumerate(cfgs):
    name = f"m{i}"
    try:
        r, b, model = mg.build(cfg)
        # tie on the implementation side: expression is the unfolded intensity with amplitudes inserted
        u = mg.unfolded_intensity(model)
        if model.expression != u.xreplace(model.amplitudes):
            tie_failures.append({"cfg": cfg, "what": "model.expression != unfolded.xreplace(amplitudes)"})
        lit = mg.model_literal(r, model)
    except mg.SerError as e:
        tie_failures.append({"cfg": cfg, "what": "not serialisable: " + str(e)[:200]})
        continue
    except ValueError as e:
        if "Angular momentum is not defined" in str(e):  # documented rejection: ff builder without L
            rejected.append(cfg)
            continue
        raise
    defs.append(f"Definition {name} : model :=\n  {lit}.\n")
    meta.append({"name": name, "cfg": cfg, "bytes": len(lit)})

# negative control: a custom builder that breaks its contract must be REJECTED by the checker
rh, bh, mh = mg.build(mg.default_cfg("jpsi_gpipi_hel", dyn="custom_hole"))
hole_lit = mg.model_literal(rh, mh)

# shards (compiled in parallel by the runner), balanced by size
nshards = int(sys.argv[4]) if len(sys.argv) > 4 else 8
shards = [[] for _ in range(nshards)]
sizes = [0] * nshards
for m, d in sorted(zip(meta, defs), key=lambda md: -md[0]["bytes"]):
    k = sizes.index(min(sizes))
    shards[k].append((m, d))
    sizes[k] += m["bytes"]
base = out[:-2]
HEAD = ("(* GENERATED on every run from /repo's working tree by bridge/symgen_C01.py - do not edit. *)\n"
        "From AV Require Import Closure.\nOpen Scope string_scope.\n\n")
for k, sh in enumerate(shards):
    with open(f"{base}_{k}.v", "w") as f:
        f.write(HEAD)
        f.write("\n".join(d for _, d in sh))
        f.write(f"\nDefinition gen_models_{k} : list (string * model) :=\n  ["
                + "; ".join(f'("{m["name"]}", {m["name"]})' for m, _ in sh) + "].\n")
with open(out, "w") as f:
    f.write(HEAD)
    import os
    stem = os.path.basename(base)
    f.write("From AVchk Require Import " + " ".join(f"{stem}_{k}" for k in range(nshards)) + ".\n")
    f.write("Definition gen_models : list (string * model) :=\n  ("
            + " ++ ".join(f"gen_models_{k}" for k in range(nshards)) + ")%list.\n")
    f.write(f"Definition hole_model : model :=\n  {hole_lit}.\n")
print(json.dumps({"models": meta, "tie_failures": tie_failures, "rejected": len(rejected),
                  "shards": nshards, "seconds": round(time.time() - t0, 1)}))
