"""C05 harness on the IMPLEMENTATION: the property as stated, on concrete inputs.

  search_C05.py <seed> <n>         n < 200: quick set, otherwise the full set
  search_C05.py --replay <file>

Checks (oracles written from the property text):
 A. create_spin_range(s, flag) == [-s, -s+1, ..., s] (without 0 when flag and s integer > 0);
    never raises for half-integer s >= 0.
 B. SymPy's Wigner-D is unitary over the complete range -j..j in both index positions (the named
    hypothesis of the Coq theorems): exact symbolic for small j, 40-digit numeric above.
 C. formulate() succeeds for NoAlignment / AxisAngleAlignment / DalitzPlotDecomposition(1,2,3) on
    every single-topology reaction (corpus restrictions, synthetic spins 0..5/2, massless 1/2).
 D. intensities of the aligned models equal the unaligned one event by event (random complex
    couplings, own sequential two-body phase-space generator).

Tolerance of D: the aligned amplitude is a unitary mixture of the unaligned amplitudes; unitarity
holds for ANY value of the rotation angles, so the ill-conditioned acos/atan2 of the Wigner angles
does not enter; the only error is the rounding of O(100) products/sums of numbers of modulus <= a
few: relative 1e-13.  rtol = 1e-9 leaves four orders of margin; genuine differences observed so
far are >= 1e-2.  Exception: DPD with a massless final-state particle.  The model computes the
particle's mass as InvariantMass(p_i) = sqrt(E^2 - p^2), which for a light-like momentum is
sqrt(O(eps) E^2) = O(1.5e-8 E), possibly imaginary; the zeta angle of that particle is then
O(1e-8) and possibly complex, its Wigner-d deviates from a unitary matrix by O(1e-8), and the
intensity by the same relative amount (observed 3e-9).  rtol = 1e-6 there.
"""
from __future__ import annotations

import json
import multiprocessing as mp
import signal
import sys
import time
import zlib
from fractions import Fraction

import common  # noqa: F401
import lib_C05 as L
import numpy as np
import sympy as sp

from ampform.helicity.align._spin import create_spin_range

RTOL = 1e-9
RTOL_MASSLESS_DPD = 1e-6


# ------------------------------------------------------------------ A. spin ranges
def oracle_range(s: Fraction, flag: bool):
    n = int(2 * s)
    vals = [-s + k for k in range(n + 1)]
    if flag and len(vals) > 1:
        vals = [v for v in vals if v != 0]
    return vals


def check_spin_case(s: Fraction, flag: bool):
    """None if fine, else (signature, what)."""
    try:
        got = create_spin_range(float(s), flag)
    except Exception as e:  # noqa: BLE001
        return ("spin_range_raises", f"create_spin_range({s}, no_zero_spin={flag}) raised {type(e).__name__}: {e}")
    want = [float(v) for v in oracle_range(s, flag)]
    if [float(v) for v in got] != want:
        return ("spin_range_wrong", f"create_spin_range({s}, no_zero_spin={flag}) = {got}, expected {want}")
    return None


def run_spin(seed, n, out):
    rng = np.random.default_rng(seed)
    cases = [(Fraction(k, 2), f) for k in range(0, 21) for f in (False, True)]
    cases += [(Fraction(int(k), 2), bool(f)) for k, f in zip(rng.integers(21, 400, size=max(4, n // 10)),
                                                            rng.integers(0, 2, size=max(4, n // 10)))]
    for s, f in cases:
        out["evaluations"] += 1
        out["kinds"]["spin_range"] = out["kinds"].get("spin_range", 0) + 1
        r = check_spin_case(s, f)
        if r:
            out["failures"].append({"signature": r[0], "what": r[1],
                                    "case": {"kind": "spin", "s_num": s.numerator, "s_den": s.denominator, "flag": f}})
    # second pass in the opposite order: the value must not depend on which calls came before (a result list that is
    # cached and then modified in place would show here)
    for s, f in reversed(cases[:42]):
        out["evaluations"] += 1
        out["kinds"]["spin_range_revisit"] = out["kinds"].get("spin_range_revisit", 0) + 1
        r = check_spin_case(s, f)
        if r and not any(x["case"].get("kind") == "spin_table" for x in out["failures"]):
            out["failures"].append({"signature": "spin_range_depends_on_history", "what": "after the table of calls for all "
                                    f"spins and both flags, create_spin_range({s}, no_zero_spin={f}): {r[1]}",
                                    "case": {"kind": "spin_table", "seed": int(seed), "n": int(n)}})
    out["distinct"] += len(set(cases))
    try:
        out["samples"].append({"create_spin_range": "5/2,True", "value": create_spin_range(2.5, True)})
    except Exception as e:  # noqa: BLE001
        out["samples"].append({"create_spin_range": "5/2,True", "raised": type(e).__name__})
    # garbage branch: non-half-integer magnitudes do not raise; record what comes back
    try:
        out["kinds"]["non_half_integer_0.3"] = str(create_spin_range(0.3))
        out["kinds"]["negative_-1"] = str(create_spin_range(-1))
    except Exception as e:  # noqa: BLE001
        out["kinds"]["non_half_integer_0.3"] = f"raised {type(e).__name__}"


# ------------------------------------------------------------------ B. Wigner-D unitarity
def _rng_j(j):
    return [-j + k for k in range(int(2 * j) + 1)]


def wigner_pair_symbolic(args):
    from sympy.physics.quantum.spin import Rotation

    j, x, y = args
    a, b, c = sp.symbols("alpha beta gamma", real=True)
    bad = []
    for pos in (0, 1):
        tot = 0
        for m in _rng_j(j):
            if pos == 0:
                tot += sp.conjugate(Rotation.D(j, m, x, a, b, c).doit()) * Rotation.D(j, m, y, a, b, c).doit()
            else:
                tot += sp.conjugate(Rotation.D(j, x, m, a, b, c).doit()) * Rotation.D(j, y, m, a, b, c).doit()
        r = sp.simplify(sp.expand(tot.rewrite(sp.cos), complex=True) - (1 if x == y else 0))
        if r != 0:
            r = sp.simplify(sp.expand_trig(r))
        if r != 0:
            bad.append((str(j), str(x), str(y), pos, str(r)[:80]))
    return bad


def wigner_numeric(j, seed):
    from sympy.physics.quantum.spin import Rotation

    rng = np.random.default_rng(seed)
    ang = [sp.Rational(int(v), 1000) for v in rng.integers(-3000, 3000, size=3)]
    Dm = {(m, mp): sp.N(Rotation.D(j, m, mp, *ang).doit(), 40) for m in _rng_j(j) for mp in _rng_j(j)}
    worst = 0
    for x in _rng_j(j):
        for y in _rng_j(j):
            s1 = sum(sp.conjugate(Dm[(m, x)]) * Dm[(m, y)] for m in _rng_j(j)) - (1 if x == y else 0)
            s2 = sum(sp.conjugate(Dm[(x, m)]) * Dm[(y, m)] for m in _rng_j(j)) - (1 if x == y else 0)
            worst = max(worst, abs(complex(s1)), abs(complex(s2)))
    return worst


def run_wigner(seed, n, out, pool):
    symbolic = [sp.Rational(1, 2), sp.Integer(1)] + ([sp.Rational(3, 2), sp.Integer(2)] if n >= 200 else [])
    numeric = [j for j in (sp.Rational(3, 2), sp.Integer(2), sp.Rational(5, 2)) if j not in symbolic]
    tasks = [(j, x, y) for j in symbolic for x in _rng_j(j) for y in _rng_j(j)]
    for bad in pool.map(wigner_pair_symbolic, tasks, chunksize=1):
        for b in bad:
            out["failures"].append({"signature": "wignerD_not_unitary", "what": f"SymPy Rotation.D not unitary: {b}",
                                    "case": {"kind": "wigner", "j": b[0], "x": b[1], "y": b[2]}})
    out["evaluations"] += 2 * len(tasks)
    out["distinct"] += 2 * len(tasks)
    out["kinds"]["wignerD_symbolic_pairs"] = 2 * len(tasks)
    for j in numeric:
        w = wigner_numeric(j, seed)
        out["evaluations"] += 1
        out["kinds"][f"wignerD_numeric_j{j}"] = f"{w:.1e}"
        if not w < 1e-30:
            out["failures"].append({"signature": "wignerD_not_unitary", "what": f"j={j}: residual {w}",
                                    "case": {"kind": "wigner", "j": str(j), "x": "num", "y": "num"}})


# ------------------------------------------------------------------ C/D. models
def reaction_by_label(label: str, tier: str):
    """label: '<corpus>/t<k>[+m0]' or 'synth_...'."""
    if label.startswith("synth_"):
        for lab, r in L.synthetic_reactions("thorough"):
            if lab == label:
                return r
        raise KeyError(label)
    base, _, extra = label.partition("+")
    name, tk = base.split("/t")
    for lab, r in L.corpus_single_topology([name]):
        if lab == base:
            return L.complete_initial_state(r) if extra == "m0" else r
    raise KeyError(label)


def massless_needs_wigner(reaction):
    top = reaction.transitions[0].topology
    (i0,) = top.incoming_edge_ids
    root = top.edges[i0].ending_node_id
    direct = set(top.get_edge_ids_outgoing_from_node(root))
    return any(p.mass == 0 and i not in direct for i, p in reaction.final_state.items())


def evaluate(model, dpd, events, couplings):
    """Two stages (never substitute the big angle expressions into the intensity: SymPy's Abs/
    signsimp then takes minutes): momenta -> kinematic variables -> intensity."""
    expr = model.expression.doit()
    syms = sorted(expr.free_symbols, key=str)
    kvs = model.kinematic_variables
    # only the kinematic variables the intensity really uses (Wigner angles of spin-0 particles
    # drop out with WignerD(0, ...) = 1 and are by far the most expensive ones), transitively
    todo, stack = {}, [x for x in syms if x in kvs]
    while stack:
        k = stack.pop()
        if k not in todo:
            todo[k] = kvs[k]
            stack += [x for x in kvs[k].free_symbols if x in kvs]
    known = {}
    for s in {x for v in todo.values() for x in v.free_symbols}:
        n = str(s)
        if n[0] == "p" and n[1:].isdigit():
            i = int(n[1:]) - (1 if dpd else 0)
            known[s] = np.array([ev[i] for ev in events])
    for s, d in model.parameter_defaults.items():
        known[s] = couplings.get(str(s), d)
    while todo:
        ready = [k for k, v in todo.items() if all(x in known for x in v.free_symbols)]
        if not ready:
            raise KeyError(f"kinematic variables with unknown symbols: {sorted(map(str, todo))[:5]}")
        args = sorted({x for k in ready for x in todo[k].free_symbols}, key=str)
        f = sp.lambdify(args, [todo[k].doit() for k in ready], cse=True)
        vals = f(*[known[a] for a in args])
        for k, v in zip(ready, vals):
            known[k] = np.broadcast_to(np.asarray(v), (len(events),)).copy()
            del todo[k]
    missing = [str(x) for x in syms if x not in known]
    if missing:
        raise KeyError(f"symbols {missing[:5]} are neither kinematic variables nor parameters")
    g = sp.lambdify(syms, expr, cse=True)
    val = np.asarray(g(*[known[x] for x in syms]), dtype=complex)
    return np.broadcast_to(val, (len(events),)).copy()


class CpuBudget(BaseException):
    """raised by the SIGVTALRM handler: the CPU budget of one model evaluation is used up"""


def _on_budget(*_):
    raise CpuBudget


def with_budget(seconds, fn, *args):
    """Run fn(*args) with a limit on the process' user CPU time (robust against machine load)."""
    signal.signal(signal.SIGVTALRM, _on_budget)
    signal.setitimer(signal.ITIMER_VIRTUAL, seconds)
    try:
        return fn(*args)
    finally:
        signal.setitimer(signal.ITIMER_VIRTUAL, 0)


def run_reaction(task):
    label, alignments, seed, nev, tier = task
    t0 = time.process_time()
    res = {"label": label, "failures": [], "evaluations": 0, "distinct": 0, "kinds": {}, "samples": []}

    def kind(k, v=1):
        res["kinds"][k] = res["kinds"].get(k, 0) + v

    try:
        reaction = reaction_by_label(label, tier)
    except Exception as e:  # noqa: BLE001
        res["failures"].append({"signature": "harness_reaction_error", "what": f"{label}: {e}", "case": {"kind": "model", "label": label}})
        return res
    top = reaction.transitions[0].topology
    rng = np.random.default_rng([seed, zlib.crc32(label.encode())])
    (i0,) = reaction.initial_state
    M0 = reaction.initial_state[i0].mass
    fm = {i: p.mass for i, p in reaction.final_state.items()}
    events = [L.generate_event(top, fm, M0, rng) for _ in range(nev)]
    numeric_ok = not massless_needs_wigner(reaction)
    models = {}
    for al in ("none", *alignments):
        if al.startswith("dpd") and len(fm) != 3:
            continue
        res["evaluations"] += 1
        try:
            models[al] = L.build_model(reaction, al)
            kind("formulate_ok")
        except Exception as e:  # noqa: BLE001
            sig = ("axisangle" if al == "axisangle" else "dpd" if al.startswith("dpd") else "noalign") + "_formulate_raises"
            res["failures"].append({"signature": sig, "what": f"{label}: formulate() with alignment {al} raised {type(e).__name__}: {str(e)[:150]}",
                                    "case": {"kind": "model", "label": label, "alignment": al, "seed": seed, "nev": nev}})
    # "formulating AND evaluating succeeds": every free symbol of the intensity is a parameter or a
    # kinematic variable (cheap, before any lambdify)
    for al, (model, _) in list(models.items()):
        res["evaluations"] += 1
        allowed = set(model.parameter_defaults) | set(model.kinematic_variables)
        stray = sorted(str(x) for x in model.expression.free_symbols if x not in allowed)
        if stray:
            res["failures"].append({
                "signature": "aligned_model_not_evaluable",
                "what": f"{label}: intensity formulated with alignment {al} contains symbols {stray[:4]} that are neither "
                        "parameters nor kinematic variables; the model cannot be evaluated",
                "case": {"kind": "model", "label": label, "alignment": al, "seed": seed, "nev": nev}})
            if al != "none":
                del models[al]
    if "none" not in models or not numeric_ok or nev == 0:
        if not numeric_ok:
            kind("numeric_skipped_massless_below_root")
        return res
    names = sorted(str(s) for s in models["none"][0].parameter_defaults)
    couplings = {n: complex(rng.normal(), rng.normal()) for n in names}
    budget = 90 if tier == "quick" else 150
    try:
        ref = with_budget(budget, evaluate, *models["none"], events, couplings).real
    except CpuBudget:
        kind("cpu_budget_exceeded")
        return res
    except Exception as e:  # noqa: BLE001
        res["failures"].append({"signature": "harness_eval_error", "what": f"{label}/none: {type(e).__name__}: {str(e)[:150]}",
                                "case": {"kind": "model", "label": label, "alignment": "none", "seed": seed, "nev": nev}})
        return res
    for al, (model, dpd) in models.items():
        if al == "none":
            continue
        cls = L.classify(reaction, al)
        try:
            val = with_budget(budget, evaluate, model, dpd, events, couplings)
        except CpuBudget:
            kind("cpu_budget_exceeded")
            continue
        except Exception as e:  # noqa: BLE001
            res["failures"].append({"signature": "aligned_model_not_evaluable", "what": f"{label}/{al}: {type(e).__name__}: {str(e)[:150]}",
                                    "case": {"kind": "model", "label": label, "alignment": al, "seed": seed, "nev": nev}})
            continue
        res["evaluations"] += nev
        good = np.isfinite(val) & np.isfinite(ref)
        kind("events_nonfinite", int((~good).sum()))
        rel = np.abs(val.real - ref) / np.maximum(np.abs(ref), 1e-300)
        relmax = float(np.max(rel[good])) if good.any() else float("nan")
        imag = float(np.max(np.abs(val.imag[good]))) if good.any() else 0.0
        rtol = RTOL_MASSLESS_DPD if (dpd and any(p.mass == 0 for p in reaction.final_state.values())) else RTOL
        differs = (not good.any()) or relmax > rtol or imag > rtol * float(np.max(np.abs(ref)))
        nontrivial = cls["max_spin2"] > 0
        if nontrivial:
            res["distinct"] += int(good.sum())
        k_first = int(np.argmax(np.where(good, rel, -1))) if good.any() else 0
        case = {"kind": "model", "label": label, "alignment": al, "seed": seed, "nev": nev, "event": k_first,
                "aligned": float(val.real[k_first]), "unaligned": float(ref[k_first]), "rtol": rtol}
        what = (f"{label}: intensity with alignment {al} = {val.real[k_first]:.12g} but unaligned = {ref[k_first]:.12g} "
                f"at event {k_first} (max rel diff {relmax:.3g} over {int(good.sum())} events)")
        if cls["thinned"]:
            kind("outside_incomplete_helicity_set_" + ("differs" if differs else "equal"))
        elif cls["massless_integer"]:
            kind("massless_integer_" + al + ("_differs" if differs else "_equal"))
            if differs:
                sig = "axisangle_massless_integer_spin" if al == "axisangle" else "dpd_massless_integer_spin"
                res["failures"].append({"signature": sig, "what": what, "case": case})
        else:
            kind("compared_" + ("massless_half_" if cls["massless_half"] else "") + al.rstrip("123"))
            if differs:
                res["failures"].append({"signature": "aligned_intensity_differs_" + al.rstrip("123"), "what": what, "case": case})
        if len(res["samples"]) < 2:
            res["samples"].append({"reaction": label, "alignment": al, "unaligned": float(ref[0]), "aligned": float(val.real[0]),
                                   "max_rel_diff": relmax})
    res["kinds"]["t_" + label] = round(time.process_time() - t0, 1)
    return res


QUICK_TASKS = [
    ("lc_pkpi_hel/t0", ("axisangle", "dpd1", "dpd2", "dpd3")),
    ("lc_pkpi_hel/t1", ("axisangle", "dpd1")),
    ("jpsi_gpipi_hel/t0", ("axisangle",)),          # photon: known finding
    ("jpsi_gpipi_hel/t0+m0", ("dpd2", "dpd3")),     # photon under DPD, complete J/psi helicities
    ("etac_ll_hel/t0", ("axisangle",)),
    ("jpsi_ppbar_hel/t0", ("axisangle",)),
    ("psi2s_jpsipipi_hel/t0", ("axisangle", "dpd2")),
    ("synth_2b_1_h_nu", ("axisangle",)),             # massless spin 1/2 (W -> e nu)
    ("synth_2b_h_1_h", ("axisangle",)),
    ("synth_3b_1_h_nu", ("axisangle", "dpd2")),      # massless spin 1/2 spectator
    ("synth_3b_h_1_h00", ("axisangle", "dpd3")),
    ("synth_4b_cascade_h_h", ("axisangle",)),        # 4-body cascade, spin 1/2 on the production node
    ("tau_nurhopi_hel/t0", ("axisangle",)),          # massive spin-1 final state behind a massless helicity state
]
THOROUGH_CAN = ["lc_pkpi_can", "jpsi_gpipi_can", "etac_ll_can", "jpsi_ppbar_can"]


def tasks_for(seed, n):
    tier = "thorough" if n >= 200 else "quick"
    if tier == "quick":
        return [(lab, als, seed, 3, tier) for lab, als in QUICK_TASKS], tier
    nev = 8
    tasks = []
    import reactions

    names = [x for x in reactions.names() if x.endswith("_hel")] + THOROUGH_CAN + ["tau_nurhopi_hel"]
    for label, r in L.corpus_single_topology(names):
        tasks.append((label, L.ALIGNMENTS[1:], seed, nev, tier))
        cls = L.classify(r, "dpd1")
        (i0,) = r.initial_state
        if len(r.final_state) == 3 and i0 in cls["thinned"] and label.split("/")[0] in (
                "jpsi_gpipi_hel", "jpsi_gpipi_f2_hel", "jpsi_ksp_hel", "jpsi_gkk_hel"):
            tasks.append((label + "+m0", ("dpd1", "dpd2", "dpd3"), seed, nev, tier))
    for label, _ in L.synthetic_reactions(tier):
        # spin 5/2 under DPD: d^{5/2} sums of 36 x 36 terms exceed the CPU budget; axis-angle only
        als = ("axisangle",) if label == "synth_3b_f_0_00_f" else L.ALIGNMENTS[1:]
        tasks.append((label, als, seed, nev, tier))
    # most expensive first
    heavy = ("synth_3b_2_0", "synth_3b_h_1_h0_1", "synth_3b_t_", "synth_3b_f_", "synth_3b_0_1", "d0_k3pi", "jpsi_ksp1750")
    tasks.sort(key=lambda t: (not t[0].startswith(heavy), not t[0].startswith(("synth_3b", "jpsi_ksp", "lc_pkpi_can", "synth_2b_0_ff", "synth_2b_2")), t[0]))
    return tasks, tier


def main(seed, n):
    out = {"evaluations": 0, "distinct": 0, "samples": [], "kinds": {}, "failures": []}
    t0 = time.time()
    run_spin(seed, n, out)
    tasks, tier = tasks_for(seed, n)
    with mp.get_context("fork").Pool(min(14, len(tasks))) as pool:
        async_models = pool.map_async(run_reaction, tasks, chunksize=1)
        run_wigner(seed, n, out, pool)
        results = async_models.get()
    seen = set()
    for r in results:
        out["evaluations"] += r["evaluations"]
        out["distinct"] += r["distinct"]
        for k, v in r["kinds"].items():
            if k.startswith("t_"):
                out["kinds"].setdefault("cpu_seconds_per_reaction", {})[k[2:]] = v
            else:
                out["kinds"][k] = out["kinds"].get(k, 0) + v
        for s in r["samples"]:
            if len(out["samples"]) < 10:
                out["samples"].append(s)
        for f in r["failures"]:
            key = (f["signature"], f["case"].get("label"), f["case"].get("alignment"))
            if key not in seen:
                seen.add(key)
                out["failures"].append(f)
    out["kinds"]["reactions"] = len(tasks)
    out["kinds"]["tier"] = tier
    out["kinds"]["wall_s"] = round(time.time() - t0, 1)
    # one failure per signature first (the runner keeps the first of each), known finding last
    out["failures"].sort(key=lambda f: f["signature"] == "axisangle_massless_integer_spin")
    print(json.dumps(out))


def replay(path):
    doc = json.load(open(path))
    case = doc["replay"]["case"]
    if case["kind"] == "spin_table":
        o = {"evaluations": 0, "distinct": 0, "samples": [], "kinds": {}, "failures": []}
        run_spin(case["seed"], case["n"], o)
        still = any(f["case"].get("kind") == "spin_table" for f in o["failures"])
    elif case["kind"] == "spin":
        still = check_spin_case(Fraction(case["s_num"], case["s_den"]), case["flag"]) is not None
    elif case["kind"] == "wigner":
        if case["x"] == "num":
            still = not wigner_numeric(sp.Rational(case["j"]), 0) < 1e-30
        else:
            still = bool(wigner_pair_symbolic((sp.Rational(case["j"]), sp.Rational(case["x"]), sp.Rational(case["y"]))))
    else:
        # a model comparison is replayed with the prefix it had in the run: the spin-range table (create_spin_range for all
        # spins and both flags) is evaluated first in the same process, as main() does before the workers are forked
        run_spin(case["seed"], 60, {"evaluations": 0, "distinct": 0, "samples": [], "kinds": {}, "failures": []})
        r = run_reaction((case["label"], (case["alignment"],), case["seed"], case["nev"], "thorough"))
        still = any(f["signature"] == doc["signature"] for f in r["failures"])
    print(json.dumps({"still_fails": bool(still)}))


if __name__ == "__main__":
    if sys.argv[1] == "--replay":
        replay(sys.argv[2])
    else:
        main(int(sys.argv[1]), int(sys.argv[2]))
