"""Fail-closed Python-`ast` translator: helpers of src/ampform/sympy/_decorator.py -> Gallina (AV.PyModel).

  python trans_decorator.py <out.v>        last stdout line: JSON {"translated": [...], "refused": {name: reason}}

Reads the CURRENT source text under $VERIF_REPO and emits, for every helper it can translate,
`Definition gen_<name> ...` over the object model of coq/theories/PyModel.v.  Only the statement and
expression forms listed below are recognised; anything else raises Refuse -> the helper is NOT emitted,
the proofs about it cannot compile and the runner reports `translator:<name>`.

Recognised: If/elif/else, For over a list / dict.items() (no break/continue/return inside), Try around
`hash(x)` with `except TypeError: return ...`, Return, Raise ValueError(msg), Assign/AnnAssign to names,
`d[k] = v`, `d[k] = kw.pop(n)`, `l.append(e)`, `setattr(o, n, v)`, tuple-unpacking of
`_extract_field_values(cls, *args, **kwargs)`, dict/generator comprehensions with one `for` (+ `if`s),
len, zip, dict, tuple, slices `x[len(y):]`, comparisons of lengths, `in`, `is (not) None/MISSING`,
and/or/not, the predicates isclass/isfunction/isroutine/callable/isinstance/hash/str, f-strings only as
the `module.qualname` key or as error messages.
"""
from __future__ import annotations

import ast
import json
import os
import sys

import common  # noqa: F401

SRC = os.path.join(common.REPO, "src", "ampform", "sympy", "_decorator.py")


class Refuse(Exception):
    pass


def refuse(node, why):
    raise Refuse(f"{why} (line {getattr(node, 'lineno', '?')}: {ast.unparse(node)[:80]})")


COQ_KEYWORDS = {"fix", "match", "end", "let", "in", "fun", "forall", "exists", "if", "then", "else", "return", "Type", "Prop"}
ISINSTANCE_KINDS = {"str": "KStrK", "int": "KNumK", "float": "KNumK", "complex": "KNumK", "Basic": "KSympyK",
                    "Expr": "KSympyK"}


def ident(name):
    return name + "_" if name in COQ_KEYWORDS else name


class Fn:
    """Translation of one function body (shallow embedding, continuation style)."""

    def __init__(self, name, kinds):
        self.name = name
        self.kinds = kinds          # variable name -> model type tag
        self.raises = 0
        self.msgs = {}              # name of a message variable -> names mentioned in its f-string
        self.loops = []             # emitted loop-body definitions
        self.nloop = 0

    # ------------------------------------------------------------ expressions
    def kind(self, e):
        if isinstance(e, ast.Name):
            return self.kinds.get(e.id)
        return None

    def expr(self, e):
        if isinstance(e, ast.Name):
            if e.id == "MISSING":
                return "VMissing"
            if e.id not in self.kinds:
                refuse(e, f"unknown variable {e.id}")
            return ident(e.id)
        if isinstance(e, ast.Constant):
            if e.value is True:
                return "true"
            if e.value is False:
                return "false"
            refuse(e, "constant")
        if isinstance(e, ast.Tuple):
            return "(" + ", ".join(self.expr(x) for x in e.elts) + ")"
        if isinstance(e, ast.Dict) and not e.keys:
            return "[]"
        if isinstance(e, ast.List) and not e.elts:
            return "[]"
        if isinstance(e, ast.Attribute):
            base = self.kind(e.value)
            if base == "field" and e.attr == "name":
                return f"(pf_name {self.expr(e.value)})"
            if base == "field" and e.attr == "default":
                return f"(pf_default {self.expr(e.value)})"
            refuse(e, "attribute")
        if isinstance(e, ast.Call):
            return self.call(e)
        if isinstance(e, ast.Subscript):
            s = e.slice
            if (isinstance(s, ast.Slice) and s.upper is None and s.step is None and s.lower is not None
                    and self.kind(e.value) in ("fields", "list")):
                return f"(skipn {self.expr(s.lower)} {self.expr(e.value)})"
            refuse(e, "subscript")
        if isinstance(e, ast.Compare) and len(e.ops) == 1:
            return self.compare(e.left, e.ops[0], e.comparators[0], e)
        if isinstance(e, ast.BoolOp):
            op = "||" if isinstance(e.op, ast.Or) else "&&"
            return "(" + f" {op} ".join(self.test(v) for v in e.values) + ")"
        if isinstance(e, ast.UnaryOp) and isinstance(e.op, ast.Not):
            return f"(negb {self.test(e.operand)})"
        if isinstance(e, ast.GeneratorExp):
            return self.comprehension(e.elt, e.generators, e)
        if isinstance(e, ast.DictComp):
            return self.comprehension(ast.Tuple(elts=[e.key, e.value], ctx=ast.Load()), e.generators, e)
        refuse(e, "expression form")

    def comprehension(self, elt, gens, node):
        if len(gens) != 1 or gens[0].is_async:
            refuse(node, "comprehension with several generators")
        g = gens[0]
        it, pat, bound = self.iterable(g.iter, g.target)
        saved = dict(self.kinds)
        self.kinds.update(bound)
        body = self.expr(elt)
        for cond in g.ifs:
            it = f"(filter (fun {pat} => {self.test(cond)}) {it})"
        self.kinds = saved
        return f"(map (fun {pat} => {body}) {it})"

    def iterable(self, it, target):
        """-> (Gallina list, binder pattern, {name: kind})"""
        if (isinstance(it, ast.Call) and isinstance(it.func, ast.Attribute) and it.func.attr == "items"
                and not it.args and self.kind(it.func.value) == "dict"):
            if not (isinstance(target, ast.Tuple) and len(target.elts) == 2
                    and all(isinstance(t, ast.Name) for t in target.elts)):
                refuse(target, "target of .items()")
            a, b = (t.id for t in target.elts)
            return f"(dict_items {self.expr(it.func.value)})", f"'({ident(a)}, {ident(b)})", {a: "field", b: "val"}
        if isinstance(target, ast.Name):
            lst = self.expr(it)
            k = self.list_elem_kind(it)
            return lst, ident(target.id), {target.id: k}
        refuse(target, "loop target")

    def list_elem_kind(self, it):
        if isinstance(it, ast.Name) and self.kinds.get(it.id) == "fields":
            return "field"
        if isinstance(it, ast.Call) and isinstance(it.func, ast.Name) and it.func.id == "_get_fields":
            return "field"
        if isinstance(it, ast.Subscript) and self.kind(it.value) == "fields":
            return "field"
        refuse(it, "iteration over something that is not a list of fields")

    def call(self, e):
        f = e.func
        if isinstance(f, ast.Attribute) and isinstance(f.value, ast.Name) and f.value.id == "inspect":
            f = ast.Name(id=f.attr, ctx=ast.Load())
        if e.keywords and not (isinstance(f, ast.Attribute) and f.attr == "__new__"):
            refuse(e, "keyword arguments in a call")
        if isinstance(f, ast.Name):
            n, a = f.id, e.args
            if n == "len" and len(a) == 1:
                return f"(length {self.expr(a[0])})"
            if n == "_get_fields" and len(a) == 1:
                k = self.kind(a[0])
                if k == "cls":
                    return f"(cls_fields {self.expr(a[0])})"
                if k == "inst":
                    return f"(inst_fields {self.expr(a[0])})"
                refuse(e, "_get_fields of an unknown object")
            if n in ("dict", "tuple", "list") and len(a) == 1:
                inner = a[0]
                if n == "dict" and isinstance(inner, ast.Call) and isinstance(inner.func, ast.Name) \
                        and inner.func.id == "zip" and len(inner.args) == 2 and not any(isinstance(x, ast.Starred) for x in inner.args):
                    return f"(combine {self.expr(inner.args[0])} {self.expr(inner.args[1])})"
                if n == "tuple" and isinstance(inner, ast.GeneratorExp):
                    return self.expr(inner)
                refuse(e, f"{n}(...) of this shape")
            if n == "getattr" and len(a) == 2 and self.kind(a[0]) == "inst":
                return f"(get_attr {self.expr(a[0])} {self.expr(a[1])})"
            if n == "_safe_sympify" and len(a) == 2:
                return f"(safe_sympify {self.expr(a[0])} {self.expr(a[1])})"
            if n == "_is_sympify" and len(a) == 1:
                return f"(is_sympify {self.expr(a[0])})"
            if n in ("isclass", "isfunction", "isroutine", "callable") and len(a) == 1 and self.kind(a[0]) == "obj":
                return f"({n} {self.expr(a[0])})"
            if n == "isinstance" and len(a) == 2 and self.kind(a[0]) == "obj":
                ts = a[1].elts if isinstance(a[1], ast.Tuple) else [a[1]]
                ks = []
                for t in ts:
                    nm = t.id if isinstance(t, ast.Name) else (t.attr if isinstance(t, ast.Attribute) else None)
                    if nm not in ISINSTANCE_KINDS:
                        refuse(e, "isinstance with an unknown type")
                    ks.append(ISINSTANCE_KINDS[nm])
                return f"(isinstance_of [{'; '.join(dict.fromkeys(ks))}] {self.expr(a[0])})"
            if n == "type" and len(a) == 1 and isinstance(a[0], ast.Constant) and a[0].value is None:
                return "none_type"
            refuse(e, f"call of {n}")
        if isinstance(f, ast.Attribute):
            if f.attr == "__new__" and ast.unparse(f.value) in ("sp.Expr", "sympy.Expr"):
                a, kw = e.args, e.keywords
                if (len(a) == 2 and isinstance(a[1], ast.Starred) and len(kw) == 1 and kw[0].arg is None
                        and self.kind(a[0]) == "cls"):
                    return f"(expr_new {self.expr(a[0])} {self.expr(a[1].value)} {self.expr(kw[0].value)})"
                refuse(e, "Expr.__new__ with another argument shape")
            if f.attr == "evaluate" and not e.args and self.kind(f.value) == "inst":
                return f"(evaluated {self.expr(f.value)})"
        refuse(e, "call")

    def compare(self, left, op, right, node):
        lk, rk = self.kind(left), self.kind(right)
        if isinstance(op, (ast.Is, ast.IsNot)):
            neg = isinstance(op, ast.IsNot)
            if isinstance(right, ast.Constant) and right.value is None and lk == "obj":
                r = f"(is_none {self.expr(left)})"
            elif isinstance(right, ast.Name) and right.id == "MISSING":
                r = f"(is_missing {self.expr(left)})"
            else:
                refuse(node, "identity test")
            return f"(negb {r})" if neg else r
        if isinstance(op, (ast.In, ast.NotIn)):
            if rk == "kwargs":
                r = f"(kw_mem {self.expr(left)} {self.expr(right)})"
            else:
                refuse(node, "membership test in something that is not kwargs")
            return f"(negb {r})" if isinstance(op, ast.NotIn) else r
        is_len = lambda x: isinstance(x, ast.Call) and isinstance(x.func, ast.Name) and x.func.id == "len"  # noqa: E731
        if is_len(left) and is_len(right):
            a, b = self.expr(left), self.expr(right)
            table = {ast.Eq: f"(Nat.eqb {a} {b})", ast.NotEq: f"(negb (Nat.eqb {a} {b}))", ast.Gt: f"(Nat.ltb {b} {a})",
                     ast.Lt: f"(Nat.ltb {a} {b})", ast.GtE: f"(Nat.leb {b} {a})", ast.LtE: f"(Nat.leb {a} {b})"}
            if type(op) in table:
                return table[type(op)]
        refuse(node, "comparison")

    def test(self, e):
        """an expression used as a condition"""
        if isinstance(e, ast.Name):
            k = self.kinds.get(e.id)
            if k == "bool":
                return ident(e.id)
            if k in ("list", "names", "fields", "kwargs", "dict"):
                return f"(negb (is_nil {ident(e.id)}))"
            refuse(e, "truth value of this variable")
        return self.expr(e)

    # ------------------------------------------------------------ statements
    @staticmethod
    def terminates(stmts):
        if not stmts:
            return False
        s = stmts[-1]
        if isinstance(s, (ast.Return, ast.Raise)):
            return True
        if isinstance(s, ast.If):
            return Fn.terminates(s.body) and Fn.terminates(s.orelse)
        return False

    def mutated(self, stmts):
        out = []

        def add(n):
            if n not in out:
                out.append(n)

        for s in stmts:
            for node in ast.walk(s):
                if isinstance(node, (ast.Return, ast.Raise, ast.Break, ast.Continue)):
                    refuse(node, "return/raise/break/continue inside a loop")
                if isinstance(node, ast.Assign):
                    for t in node.targets:
                        if isinstance(t, ast.Name):
                            add(t.id)
                        elif isinstance(t, ast.Subscript) and isinstance(t.value, ast.Name):
                            add(t.value.id)
                        else:
                            refuse(t, "assignment target")
                if isinstance(node, ast.Call) and isinstance(node.func, ast.Attribute) and node.func.attr in ("pop", "append") \
                        and isinstance(node.func.value, ast.Name):
                    add(node.func.value.id)
                if isinstance(node, ast.Call) and isinstance(node.func, ast.Name) and node.func.id == "setattr" \
                        and node.args and isinstance(node.args[0], ast.Name):
                    add(node.args[0].id)
        return out

    def block(self, stmts, final):
        """Gallina expression for a statement list; `final` is used when control falls off the end."""
        if not stmts:
            if final is None:
                raise Refuse("control falls off the end of the function")
            return final
        s, rest = stmts[0], stmts[1:]
        if isinstance(s, ast.Expr) and isinstance(s.value, ast.Constant) and isinstance(s.value.value, str):
            return self.block(rest, final)  # docstring
        if isinstance(s, ast.Return):
            return self.ret(s)
        if isinstance(s, ast.Raise):
            return self.raise_(s)
        if isinstance(s, ast.If):
            t = self.test(s.test)
            saved = dict(self.kinds)
            a = self.block(s.body + ([] if self.terminates(s.body) else rest), final)
            self.kinds = dict(saved)
            b = self.block(s.orelse + ([] if self.terminates(s.orelse) else rest), final)
            self.kinds = saved
            return f"(if {t}\n then {a}\n else {b})"
        if isinstance(s, ast.Try):
            if (len(s.body) == 1 and isinstance(s.body[0], ast.Expr) and isinstance(s.body[0].value, ast.Call)
                    and isinstance(s.body[0].value.func, ast.Name) and s.body[0].value.func.id == "hash"
                    and len(s.body[0].value.args) == 1 and self.kind(s.body[0].value.args[0]) == "obj"
                    and len(s.handlers) == 1 and isinstance(s.handlers[0].type, ast.Name)
                    and s.handlers[0].type.id == "TypeError" and not s.orelse and not s.finalbody
                    and self.terminates(s.handlers[0].body)):
                o = self.expr(s.body[0].value.args[0])
                return f"(if hash_raises {o}\n then {self.block(s.handlers[0].body, None)}\n else {self.block(rest, final)})"
            refuse(s, "try statement of another shape")
        if isinstance(s, (ast.Assign, ast.AnnAssign)):
            target = s.targets[0] if isinstance(s, ast.Assign) else s.target
            if isinstance(s, ast.Assign) and len(s.targets) != 1:
                refuse(s, "chained assignment")
            value = s.value
            if isinstance(target, ast.Name):
                if isinstance(value, ast.JoinedStr) or (isinstance(value, ast.Constant) and isinstance(value.value, str)):
                    self.msgs[target.id] = {n.id for n in ast.walk(value) if isinstance(n, ast.Name)}
                    return self.block(rest, final)
                v = self.expr(value)
                self.kinds[target.id] = self.infer(value, target.id)
                return f"(let {ident(target.id)} := {v} in\n {self.block(rest, final)})"
            if isinstance(target, ast.Subscript) and isinstance(target.value, ast.Name) and self.kind(target.value) == "dict":
                d = ident(target.value.id)
                k = self.expr(target.slice)
                if (isinstance(value, ast.Call) and isinstance(value.func, ast.Attribute) and value.func.attr == "pop"
                        and len(value.args) == 1 and self.kind(value.func.value) == "kwargs"):
                    kw = ident(value.func.value.id)
                    n = self.expr(value.args[0])
                    return (f"(let {d} := dict_set {d} {k} (kw_get {n} {kw}) in\n let {kw} := kw_remove {n} {kw} in\n "
                            f"{self.block(rest, final)})")
                return f"(let {d} := dict_set {d} {k} {self.expr(value)} in\n {self.block(rest, final)})"
            if isinstance(target, ast.Tuple) and isinstance(value, ast.Call) and isinstance(value.func, ast.Name) \
                    and value.func.id == "_extract_field_values":
                a, kw = value.args, value.keywords
                if not (len(a) == 2 and isinstance(a[1], ast.Starred) and len(kw) == 1 and kw[0].arg is None
                        and self.kind(a[0]) == "cls" and len(target.elts) == 2
                        and all(isinstance(t, ast.Name) for t in target.elts)):
                    refuse(s, "call of _extract_field_values with another shape")
                x, y = (t.id for t in target.elts)
                self.kinds[x], self.kinds[y] = "dict", "kwargs"
                call = f"gen__extract_field_values {self.expr(a[0])} {self.expr(a[1].value)} {self.expr(kw[0].value)}"
                return (f"(match {call} with\n | Err which_ names_ => Err which_ names_\n | Ok ({ident(x)}, {ident(y)}) =>\n "
                        f"{self.block(rest, final)}\n end)")
            refuse(s, "assignment")
        if isinstance(s, ast.Expr) and isinstance(s.value, ast.Call):
            c = s.value
            if isinstance(c.func, ast.Attribute) and c.func.attr == "append" and len(c.args) == 1 \
                    and isinstance(c.func.value, ast.Name) and self.kind(c.func.value) in ("names", "list"):
                l = ident(c.func.value.id)
                return f"(let {l} := app {l} [{self.expr(c.args[0])}] in\n {self.block(rest, final)})"
            if isinstance(c.func, ast.Name) and c.func.id == "setattr" and len(c.args) == 3 and self.kind(c.args[0]) == "inst":
                o = ident(c.args[0].id)
                return f"(let {o} := set_attr {o} {self.expr(c.args[1])} {self.expr(c.args[2])} in\n {self.block(rest, final)})"
            refuse(s, "expression statement")
        if isinstance(s, ast.For):
            if s.orelse:
                refuse(s, "for-else")
            muts = [m for m in self.mutated(s.body)]
            it, pat, bound = self.iterable(s.iter, s.target)
            muts = [m for m in muts if m not in bound]
            for m in muts:
                if m not in self.kinds:
                    refuse(s, f"loop assigns the new variable {m}")
            if not muts:
                refuse(s, "loop without effect")
            st = muts[0] if len(muts) == 1 else "(" + ", ".join(ident(m) for m in muts) + ")"
            stpat = ident(muts[0]) if len(muts) == 1 else "'" + st
            free = [v for v in self.kinds if v not in muts and v not in bound
                    and any(isinstance(n, ast.Name) and n.id == v for b in s.body for n in ast.walk(b))]
            saved = dict(self.kinds)
            self.kinds.update(bound)
            body = self.block(s.body, st)
            self.kinds = saved
            self.nloop += 1
            lname = f"gen_{self.name}_loop{self.nloop}"
            params = " ".join(ident(v) for v in free)
            self.loops.append(f"Definition {lname} {params} := fun {stpat} {pat} =>\n {body}.\n")
            call = f"fold_left ({lname} {params}) {it} {st}"
            return f"(let {stpat} := {call} in\n {self.block(rest, final)})"
        refuse(s, "statement form")

    def infer(self, value, name):
        if isinstance(value, ast.Call) and isinstance(value.func, ast.Name):
            n = value.func.id
            if n == "_get_fields":
                return "fields"
            if n == "dict":
                return "dict"
            if n == "tuple":
                return "list"
            if n == "type":
                return "obj"
        if isinstance(value, ast.Call) and isinstance(value.func, ast.Attribute) and value.func.attr == "__new__":
            return "inst"
        if isinstance(value, ast.Subscript) and self.kind(value.value) == "fields":
            return "fields"
        if isinstance(value, ast.DictComp):
            return "dict"
        if isinstance(value, (ast.List, ast.ListComp)):
            return "names" if name == "missing" else "list"
        refuse(value, f"cannot type the value assigned to {name}")

    def ret(self, s):
        v = s.value
        if self.name == "_get_hashable_object":
            if isinstance(v, ast.Name) and self.kind(v) == "obj":
                return f"(KObj {ident(v.id)})"
            if isinstance(v, ast.JoinedStr):
                parts = [ast.unparse(x.value) if isinstance(x, ast.FormattedValue) else x.value for x in v.values]
                if len(parts) == 3 and parts[1] == "." and parts[0].endswith(".__module__") and parts[2].endswith(".__qualname__") \
                        and parts[0].split(".")[0] == parts[2].split(".")[0] and self.kinds.get(parts[0].split(".")[0]) == "obj":
                    return f"(KStr (qualified {ident(parts[0].split('.')[0])}))"
                refuse(s, "f-string that is not module.qualname of one object")
            if isinstance(v, ast.Call) and isinstance(v.func, ast.Name) and v.func.id in ("str", "repr") and len(v.args) == 1 \
                    and self.kind(v.args[0]) == "obj":
                return f"(KStr (py_str {self.expr(v.args[0])}))"
            refuse(s, "return value")
        if self.name == "_get_arguments":
            return self.expr(v)
        return f"(Ok {self.expr(v)})"

    def raise_(self, s):
        e = s.exc
        if not (isinstance(e, ast.Call) and isinstance(e.func, ast.Name) and e.func.id == "ValueError" and len(e.args) == 1
                and isinstance(e.args[0], ast.Name) and e.args[0].id in self.msgs):
            refuse(s, "raise of another shape")
        k = self.raises
        self.raises += 1
        payload = [n for n in self.msgs[e.args[0].id] if self.kinds.get(n) == "names"]
        return f"(Err {k} {ident(payload[0]) if payload else '[]'})"


def find(tree, name):
    defs = [n for n in tree.body if isinstance(n, ast.FunctionDef) and n.name == name
            and not any(ast.unparse(d) == "overload" for d in n.decorator_list)]
    if len(defs) != 1:
        raise Refuse(f"{len(defs)} definitions of {name}")
    return defs[0]


def params_exact(fn, want):
    a = fn.args
    got = [x.arg for x in a.posonlyargs + a.args] + (["*" + a.vararg.arg] if a.vararg else []) \
        + [x.arg for x in a.kwonlyargs] + (["**" + a.kwarg.arg] if a.kwarg else [])
    if got != want:
        raise Refuse(f"{fn.name}: parameters {got}, expected {want}")


def tr_hashable(tree):
    fn = find(tree, "_get_hashable_object")
    params_exact(fn, ["obj"])
    f = Fn("_get_hashable_object", {"obj": "obj"})
    body = f.block(fn.body, None)
    return f"Definition gen__get_hashable_object (obj : pyobj) : hkey :=\n {body}.\n"


def tr_extract(tree):
    fn = find(tree, "_extract_field_values")
    params_exact(fn, ["cls", "*args", "**kwargs"])
    f = Fn("_extract_field_values", {"cls": "cls", "args": "list", "kwargs": "kwargs"})
    body = f.block(fn.body, None)
    return "".join(f.loops) + ("Definition gen__extract_field_values (cls : list pfield) (args : list pval) (kwargs : pkwargs)\n"
                               f"  : result (pdict * pkwargs) :=\n {body}.\n")


def tr_get_arguments(tree):
    fn = find(tree, "_get_arguments")
    params_exact(fn, ["instance"])
    f = Fn("_get_arguments", {"instance": "inst"})
    body = f.block(fn.body, None)
    return f"Definition gen__get_arguments (instance : pinst) : list pval :=\n {body}.\n"


WIRING = {"__new__": "new_method", "__getnewargs__": "_get_arguments", "_hashable_content": "_hashable_content_method"}
WIRING_IF = {"_eval_subs": "_eval_subs_method", "_xreplace": "_xreplace_method"}


def tr_new_method(tree):
    outer = find(tree, "_implement_new_method")
    inner = [n for n in outer.body if isinstance(n, ast.FunctionDef) and n.name == "new_method"]
    if len(inner) != 1:
        raise Refuse("new_method not found inside _implement_new_method")
    fn = inner[0]
    params_exact(fn, ["cls", "*args", "evaluate", "**kwargs"])
    # wiring: which functions are installed on the class
    seen = {}
    for n in ast.walk(outer):
        if isinstance(n, ast.Assign) and len(n.targets) == 1 and isinstance(n.targets[0], ast.Attribute) \
                and isinstance(n.targets[0].value, ast.Name) and n.targets[0].value.id == "cls":
            seen[n.targets[0].attr] = ast.unparse(n.value)
    for attr, want in {**WIRING, **WIRING_IF}.items():
        if seen.get(attr) != want:
            raise Refuse(f"_implement_new_method installs cls.{attr} = {seen.get(attr)}, expected {want}")
    extra = set(seen) - set(WIRING) - set(WIRING_IF) - {"__slots__"}
    if extra:
        raise Refuse(f"_implement_new_method installs unexpected attributes {sorted(extra)}")
    f = Fn("new_method", {"cls": "cls", "args": "list", "kwargs": "kwargs", "evaluate": "bool"})
    body = f.block(fn.body, None)
    return "".join(f.loops) + ("Definition gen_new_method (cls : list pfield) (args : list pval) (kwargs : pkwargs) (evaluate : bool)\n"
                               f"  : result pinst :=\n {body}.\n")


HEADER = """(* GENERATED on every run by bridge/trans_decorator.py from the CURRENT text of
   src/ampform/sympy/_decorator.py — do not edit. *)
From Coq Require Import String List Bool Arith.
From AV Require Import PyModel.
Import ListNotations.
Open Scope string_scope.
Open Scope list_scope.
Open Scope bool_scope.

"""


def main():
    with open(SRC) as fh:
        tree = ast.parse(fh.read())
    out, done, refused = [HEADER], [], {}
    for name, tr in (("_get_hashable_object", tr_hashable), ("_extract_field_values", tr_extract),
                     ("_get_arguments", tr_get_arguments), ("new_method", tr_new_method)):
        try:
            out.append(tr(tree))
            done.append(name)
        except Refuse as e:
            refused[name] = str(e)[:300]
            out.append(f"(* REFUSED {name}: {str(e)[:200].replace('*)', '* )')} *)\n")
    with open(sys.argv[1], "w") as fh:
        fh.write("\n".join(out))
    print(json.dumps({"translated": done, "refused": refused}))


if __name__ == "__main__":
    main()
