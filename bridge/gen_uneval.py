"""Random nested trees over the REAL ampform expression classes, random maps (shared by C14/C15)."""
from __future__ import annotations

import dataclasses
import random

import common  # noqa: F401
import sympy as sp
import uneval_ir as U
from ampform.sympy import UnevaluatedExpression, argument, create_expression, implement_doit_method, unevaluated

SYMS = ["Symbol('x')", "Symbol('y')", "Symbol('s')", "Symbol('m1')", "Symbol('m2')", "Symbol('L')",
        "Symbol('m0', positive=True)", "Symbol('w', real=True)", "Symbol('d', nonnegative=True)"]
NUMS = [(1, 1), (2, 1), (3, 1), (3, 2), (5, 4), (7, 3), (-1, 1), (1, 2)]  # no 0: masses of 0 give zoo/nan
STRS = ["rho", "K^*", "builtins.NoneTyp", "a.b"]


def attr_pool(fname, picklable=False):
    from ampform.dynamics import phasespace as ps

    # distinct function objects sharing one module.qualname (closures of one factory, lambdas of one scope)
    twins = [] if picklable else [("o", "uneval_ir.CLOSURE_A"), ("o", "uneval_ir.CLOSURE_B"),
                                  ("o", "uneval_ir.LAMBDA_A[0]"), ("o", "uneval_ir.LAMBDA_A[1]")]
    if fname == "phsp_factor":
        return [("c", U.qual(ps.PhaseSpaceFactor)), ("c", U.qual(ps.PhaseSpaceFactorSWave)),
                ("c", U.qual(ps.EqualMassPhaseSpaceFactor)), ("c", U.qual(ps.PhaseSpaceFactorComplex)),
                ("o", "uneval_ir.pool_function"), ("o", "uneval_ir.pool_function2"),
                ("o", "uneval_ir.ValueObj(1/2)"), ("o", "uneval_ir.ValueObj(3/1)")] + twins
    return [("n",), ("n",)] + [("s", s) for s in STRS] + [("c", "uneval_ir.PoolClass"),
                                                           ("o", "uneval_ir.pool_function2"), ("u", "['a', 'b']"),
                                                           ("o", "uneval_ir.ValueObj(1/2)")] + twins[:2]


def is_array_class(q):
    return q.startswith(("ampform.kinematics.lorentz.", "ampform.kinematics.angles."))


def has_array(ir):
    if ir[0] == "U" and is_array_class(ir[1]):
        return True
    return ir[0] in "AU" and any(has_array(a) for a in ir[2])


def has_head(ir, head):
    if ir[0] == "A" and ir[1] == head:
        return True
    return ir[0] in "AU" and any(has_head(a, head) for a in ir[2])


BOUND = {"Symbol('i')", "Symbol('j')", "Symbol('ki')", "Symbol('kj')"}   # summation indices of generated PoolSums
POOLSUM = "ampform.sympy.PoolSum"
TUPLE = "sympy.core.containers.Tuple"


def pool_value_symbols(ir, acc=None, inside=False):
    """symbols that occur in the index-VALUE tuples of a PoolSum"""
    acc = set() if acc is None else acc
    if ir[0] == "Y" and inside:
        acc.add(ir[1])
    elif ir[0] == "A" and ir[1] == POOLSUM:
        pool_value_symbols(ir[2][0], acc, inside)
        for idx in ir[2][1:]:
            pool_value_symbols(idx[2][1], acc, True)
    elif ir[0] in "AU":
        for a in ir[2]:
            pool_value_symbols(a, acc, inside)
    return acc


def pools(ir, acc=None):
    """value lists of all PoolSum indices in the tree"""
    acc = [] if acc is None else acc
    if ir[0] == "A" and ir[1] == POOLSUM:
        for idx in ir[2][1:]:
            acc.append(list(idx[2][1][2]))
    if ir[0] in "AU":
        for a in ir[2]:
            pools(a, acc)
    return acc


def has_unhashable(ir):
    if ir[0] == "U" and any(a[0] == "u" for a in ir[3]):
        return True
    return ir[0] in "AU" and any(has_unhashable(a) for a in ir[2])


class Gen:
    def __init__(self, seed, helpers=False, picklable=False, poolsum=False):
        self.r = random.Random(seed)
        self.dec = U.decorated()
        self.names = sorted(self.dec)
        self.helpers = helpers          # helper classes at the root (C15)
        self.picklable = picklable      # only attribute values that pickle can handle
        self.poolsum = poolsum          # PoolSum with symbolic pool values at the root and nested (C14)

    def leaf(self):
        r = self.r
        k = r.random()
        if k < 0.6:
            return ("Y", r.choice(SYMS))
        if k < 0.9:
            return ("N", *r.choice(NUMS))
        s = ("Y", r.choice(SYMS))
        return r.choice([("A", "sympy.core.power.Pow", [s, ("N", 2, 1)]),
                         ("A", "sympy.functions.elementary.trigonometric.sin", [s]),
                         ("A", "sympy.core.mul.Mul", [s, ("Y", "Symbol('q')")])])

    def inst(self, depth, cls=None):
        """IR of a random instance of a decorated class (arguments: leaves or nested instances)."""
        r = self.r
        q = cls or r.choice(self.names)
        c = self.dec[q]
        args = []
        arr = is_array_class(q)
        for f in U.sym_fields(c):
            if f.name == "l":
                # SphericalHankel1: a numeric l makes SymPy's Sum.doit() evaluate the series (not modelled)
                args.append(("Y", "Symbol('L')"))
                continue
            if f.name == "angular_momentum":
                args.append(r.choice([("N", 0, 1), ("N", 1, 1), ("N", 2, 1), ("Y", "Symbol('L')")]))
                continue
            if f.name in ("beta", "angle"):
                # scalar slots of the matrix classes: an array expression here unfolds to a NON-commutative
                # ArrayMultiplication inside a product that was ordered while it was still commutative
                args.append(("Y", r.choice(["Symbol('b')", "Symbol('phi')"])))
                continue
            if f.name == "n_events":
                args.append(r.choice([("U", "ampform.kinematics.lorentz.ArraySize", [("Y", "Symbol('p')")], []),
                                      ("Y", "Symbol('n')")]))
                continue
            if self.poolsum and not arr and depth > 1 and r.random() < 0.1:
                args.append(self.pool_sum(depth - 1))
                continue
            if depth > 1 and r.random() < 0.45:
                # arrays nest in arrays, scalars in scalars (SymPy evaluates ill-typed garbage inconsistently)
                args.append(self.inst(depth - 1, r.choice([n for n in self.names if is_array_class(n) == arr])))
            elif arr:
                args.append(("Y", r.choice(["Symbol('p')", "Symbol('k')", "Symbol('b')"])))
            else:
                args.append(self.leaf())
        attrs = [r.choice(attr_pool(f.name, self.picklable)) for f in U.attr_fields(c)]
        return ("U", q, args, attrs)

    def pool_sum(self, depth, idx="i"):
        """PoolSum with SYMBOLIC pool values.  Summands: depend on the index directly, through a coefficient
        that a map can switch off (g, e0 -> 0), not at all (multiplicity len(values) must survive), or are
        themselves a PoolSum over another index; sometimes a second index that occurs nowhere."""
        r = self.r
        i = ("Y", f"Symbol('{idx}')")
        x, gsym, e0, bsym = ("Y", "Symbol('x')"), ("Y", "Symbol('g')"), ("Y", "Symbol('e0')"), ("Y", "Symbol('b0')")
        scalar = [n for n in self.names if not is_array_class(n)]
        mul, add, pw = "sympy.core.mul.Mul", "sympy.core.add.Add", "sympy.core.power.Pow"
        psf = ("U", "ampform.dynamics.phasespace.PhaseSpaceFactor", [("Y", "Symbol('s')"), i, ("Y", "Symbol('m2')")], [("n",)])
        k = r.randrange(9)
        if k == 0:
            body = ("A", mul, [i, self.inst(max(depth, 1), r.choice(scalar))])
        elif k == 1:
            body = ("A", pw, [x, i])
        elif k == 2:
            body = ("A", add, [i, ("Y", r.choice(SYMS[:5]))])
        elif k == 3:
            body = ("A", add, [("A", mul, [gsym, ("A", pw, [x, i])]), bsym])          # g -> 0 removes the index
        elif k == 4:
            body = ("A", pw, [x, ("A", mul, [e0, i])])                                  # e0 -> 0 removes the index
        elif k == 5:
            body = ("A", add, [("A", mul, [gsym, psf]), bsym])                          # folded summand
        elif k == 6:
            body = r.choice([bsym, ("A", mul, [bsym, self.inst(1, r.choice(scalar))])])  # index-free summand
        elif idx == "i" and depth > 0:
            inner = self.pool_sum(depth - 1, idx="j")                                   # nested sums
            body = r.choice([inner, ("A", mul, [("A", add, [("A", mul, [gsym, i]), bsym]), inner])])
        else:
            body = ("A", mul, [gsym, i])
        vals = [("Y", r.choice(["Symbol('a')", "Symbol('c')"])), r.choice([("N", 2, 1), ("Y", "Symbol('c2')"), ("N", 3, 2)])]
        if r.random() < 0.3:
            vals.append(("N", 5, 1))
        if r.random() < 0.15:
            vals.append(vals[0])                                                        # an explicitly repeated pool value
        idxs = [("A", TUPLE, [i, ("A", TUPLE, vals)])]
        if r.random() < 0.2:
            kk = ("Y", f"Symbol('k{idx}')")                                            # an index occurring nowhere
            idxs.append(("A", TUPLE, [kk, ("A", TUPLE, [("N", 1, 1), ("N", 2, 1), ("N", 3, 1)])]))
        return ("A", POOLSUM, [body, *idxs])

    def helper(self, depth):
        r = self.r
        k = r.randrange(4)
        a = self.inst(depth - 1)
        if k == 0:
            i = ("Y", "Symbol('i')")
            return ("A", "ampform.sympy.PoolSum",
                    [("A", "sympy.core.mul.Mul", [i, a]),
                     ("A", "sympy.core.containers.Tuple", [i, ("A", "sympy.core.containers.Tuple", [("N", 1, 1), ("N", 2, 1)])])])
        if k == 1:
            return ("A", "ampform.sympy.math.ComplexSqrt", [a])
        if k == 2:
            return ("A", "ampform.sympy._array_expressions.ArrayMultiplication", [a, self.inst(1)])
        return ("A", "ampform.sympy._array_expressions.ArraySum", [a, self.inst(1)])

    def tree(self, depth):
        """(sympy object, IR) of a random tree; IR is re-read from the constructed object."""
        for _ in range(50):
            if self.poolsum and self.r.random() < 0.12:
                ir = self.pool_sum(depth)
            else:
                ir = self.helper(depth) if (self.helpers and self.r.random() < 0.25) else self.inst(depth)
            try:
                obj = U.from_ir(ir)
                return obj, U.to_ir(obj)
            except (U.IRError, U.ModelError):
                raise
            except Exception:  # noqa: BLE001  constructor refused the arguments: draw again
                continue
        raise U.IRError("generator could not build a tree")

    # ---------------- maps
    def subtrees(self, ir, acc=None):
        acc = [] if acc is None else acc
        acc.append(ir)
        if ir[0] in "AU":
            for a in ir[2]:
                self.subtrees(a, acc)
        return acc

    def attrs_in(self, ir, acc=None):
        acc = [] if acc is None else acc
        if ir[0] == "U":
            acc.extend(ir[3])
        if ir[0] in "AU":
            for a in ir[2]:
                self.attrs_in(a, acc)
        return acc

    def rule(self, ir):
        """kind, expression rule [(key_ir, val_ir)], attribute rule [(attr, attr)]"""
        r = self.r
        subs = self.subtrees(ir)
        # bound indices of a PoolSum are never keys (C18; side condition `avoids` of the theorem)
        syms = sorted({t[1] for t in subs if t[0] == "Y"} - (BOUND if has_head(ir, POOLSUM) else set()))
        kind = r.choice(["sym2sym", "sym2num", "sym2expr", "sub2sym", "attr", "sym2sym", "sym2num"])
        if has_array(ir) and kind in ("sym2num", "sym2expr"):
            kind = "sym2sym"
        er, ar = [], []
        sw = sorted({"Symbol('g')", "Symbol('e0')"} & set(syms)) if has_head(ir, POOLSUM) else []
        if sw and r.random() < 0.5:
            # switch a coefficient of the summand off/on: the summand may lose its dependence on the index
            return "switch", [(("Y", k), ("N", r.choice([0, 0, 1]), 1)) for k in r.sample(sw, r.choice([1, len(sw)]))], []
        merge = [(v, w) for p in pools(ir) for v in p for w in p if v[0] == "Y" and w != v]
        if merge and r.random() < 0.35:
            # make two pool values COINCIDE: the sum still has one term per entry
            v, w = r.choice(merge)
            return "merge", [(v, w)], []
        pv = sorted(pool_value_symbols(ir))
        if pv and r.random() < 0.6:
            # a map that touches ONLY the pool values of a PoolSum
            k = r.choice(pv)
            v = ("N", *r.choice([(1, 1), (7, 1), (5, 2)])) if r.random() < 0.6 else ("Y", "Symbol('t')")
            return "poolvalue", [(("Y", k), v)], []
        if kind in ("sym2sym", "sym2num", "sym2expr") and syms:
            for k in r.sample(syms, min(len(syms), r.choice([1, 1, 2]))):
                if kind == "sym2sym":
                    v = ("Y", r.choice(["Symbol('t')", "Symbol('t2')", "Symbol('x')"]))  # same (empty) assumptions as the key
                elif kind == "sym2num":
                    v = ("N", *r.choice([(2, 1), (3, 2), (5, 1), (7, 4)]))
                else:
                    v = r.choice([("A", "sympy.core.power.Pow", [("Y", "Symbol('t')"), ("N", 2, 1)]),
                                  ("A", "sympy.functions.elementary.trigonometric.cos", [("Y", "Symbol('t')")]),
                                  self.inst(1)])
                if "," in k:
                    # the image must satisfy the assumptions of the symbol it replaces (SymPy has already used
                    # them, e.g. to decide `s < 0` in a Piecewise): same-assumption symbol or positive number
                    v = ("Y", k.replace("Symbol('", "Symbol('t_", 1)) if kind != "sym2num" or has_array(ir) \
                        else ("N", *r.choice([(2, 1), (3, 2), (5, 1), (7, 4)]))
                er.append((("Y", k), v))
        elif kind == "sub2sym":
            cand = [t for t in subs[1:] if t[0] == "U"] or [t for t in subs if t[0] == "Y" and t[1] in syms]
            if cand:
                er.append((r.choice(cand), ("Y", "Symbol('t')")))
        else:
            ats = [a for a in self.attrs_in(ir) if a[0] != "u"]
            if ats:
                a = r.choice(ats)
                pool = [("n",), ("s", "other"), ("c", "ampform.dynamics.phasespace.PhaseSpaceFactorAbs"),
                        ("o", "uneval_ir.pool_function"), ("o", "uneval_ir.CLOSURE_B")]
                ar.append((a, r.choice([p for p in pool if p != a])))
            elif syms:
                er.append((("Y", syms[0]), ("Y", "Symbol('t')")))
            kind = "attr"
        return kind, er, ar


def py_rule(er, ar):
    d = {U.from_ir(k): U.from_ir(v) for k, v in er}
    d.update({U.attr_py(k): U.attr_py(v) for k, v in ar})
    return d


def coq_rule(er):
    return "[" + "; ".join(f"({U.coq(k)}, {U.coq(v)})" for k, v in er) + "]"


def coq_arule(ar):
    return "[" + "; ".join(f"({U.attr_coq(k)}, {U.attr_coq(v)})" for k, v in ar) + "]"


def coq_smap(er):
    return "[" + "; ".join(f"({U.cstr(k[1])}, {U.coq(v)})" for k, v in er) + "]"


@implement_doit_method
class LegacyExpr(UnevaluatedExpression):
    """A user class on the deprecated (still exported) UnevaluatedExpression base, with a custom name.
    Module-level: picklable by reference, also in a fresh process and with protocols 2/3 (which pickle
    `cls.__new__` by qualified name when __getnewargs_ex__ supplies keyword arguments)."""

    def __new__(cls, x, y, name=None, **hints):
        return create_expression(cls, x, y, name=name, **hints)

    def evaluate(self):
        x, y = self.args
        return x ** 2 + y

    def _latex(self, printer, *args):
        return self._name or "legacy"


# ---------------------------------------------------------------- user-defined @unevaluated classes
# ("any class added later"): several DEFAULTED SymPy fields, a non-SymPy field in the middle of the list
@unevaluated
class ShiftedPower(sp.Expr):
    x: sp.Basic
    shift: sp.Basic = 0
    power: sp.Basic = 3

    def evaluate(self):
        return (self.x - self.shift) ** self.power


@unevaluated
class ScaledWidth(sp.Expr):
    s: sp.Basic
    m: sp.Basic
    label: str = argument(default=None, sympify=False)
    scale: sp.Basic = 1
    offset: sp.Basic = 0

    def evaluate(self):
        return self.scale * sp.sqrt(self.s - self.m ** 2) + self.offset


USER_CLASSES = {"gen_uneval.ShiftedPower": ShiftedPower, "gen_uneval.ScaledWidth": ScaledWidth}


def construct(c, values, convention, seed):
    """Build c from the declaration-ordered field values through one calling convention.
    values: list aligned with dataclasses.fields(c); entries equal to the field default may be omitted."""
    r = random.Random(seed)
    fs = dataclasses.fields(c)
    names = [f.name for f in fs]
    if convention == "positional":
        return c(*values)
    if convention == "kw_declared":
        return c(**dict(zip(names, values)))
    if convention == "kw_shuffled":
        items = list(zip(names, values))
        r.shuffle(items)
        if [k for k, _ in items] == names and len(items) > 1:
            items.reverse()
        return c(**dict(items))
    if convention == "mixed":
        k = r.randrange(1, len(fs)) if len(fs) > 1 else 1
        items = list(zip(names[k:], values[k:]))
        r.shuffle(items)
        return c(*values[:k], **dict(items))
    if convention == "skip_defaults":
        # leave out defaulted fields whose value is the default, give the later ones by keyword
        req = [i for i, f in enumerate(fs) if f.default is dataclasses.MISSING]
        k = max(req) + 1 if req else 0
        items = [(n, v) for n, v, f in zip(names[k:], values[k:], fs[k:])
                 if not (f.default is v or (isinstance(v, sp.Basic) and f.default is not None and not isinstance(f.default, type)
                                            and not callable(f.default) and sp.sympify(f.default) == v))]
        r.shuffle(items)
        return c(*values[:k], **dict(items))
    raise ValueError(convention)


CONVENTIONS = ["positional", "kw_declared", "kw_shuffled", "mixed", "skip_defaults"]


def default_instances():
    """Every decorated class on default-ish arguments (plain symbols), plus helper classes."""
    out = []
    for q, c in U.decorated().items():
        sf = U.sym_fields(c)
        try:
            out.append(c(*[sp.Symbol(f"a{i}") for i in range(len(sf))]))
        except Exception:  # noqa: BLE001
            pass
    from ampform.sympy import PoolSum
    from ampform.sympy._array_expressions import (ArrayAxisSum, ArrayMultiplication, ArraySlice, ArraySum,
                                                  ArraySymbol, MatrixMultiplication)
    from ampform.sympy.math import ComplexSqrt

    x, i = sp.symbols("x i")
    from ampform.kinematics.lorentz import FourMomentumSymbol

    p = FourMomentumSymbol("p", shape=[])   # shape-less, like the momenta of a formulated model
    out += [PoolSum(x ** i, (i, (1, 2, 3))), ComplexSqrt(x), ArraySum(p, p), ArrayAxisSum(p, 0),
            ArrayMultiplication(p, p), MatrixMultiplication(p, p), ArraySlice(p, (slice(None), 0)),
            ArrayAxisSum(p), ArrayAxisSum(p ** 2, axis=1), PoolSum(x ** i, (i, (sp.Symbol("a"), 2))),
            LegacyExpr(x, sp.Symbol("y"), name="N_x"), LegacyExpr(x, 2),
            ShiftedPower(x, power=2), ScaledWidth(x, 2, offset=sp.Symbol("y"), label="w"),
            construct(U.decorated()["ampform.kinematics.lorentz.BoostZMatrix"], [sp.Symbol("b"), sp.Symbol("n")], "kw_shuffled", 1),
            construct(U.decorated()["ampform.kinematics.phasespace.Kallen"], [x, sp.Symbol("y"), sp.Symbol("z")], "kw_shuffled", 2),
            sp.sqrt(LegacyExpr(x, sp.Symbol("y"), name="inner")) + 1]
    return out


# ---------------------------------------------------------------- size of the model's doit() result
def model_doit_size(ir, tab):
    """Number of nodes of Uneval.doitF's result (computed from the templates without building the
    tree: the free-constructor model can be exponentially larger than SymPy's simplified result)."""
    info = {c["name"]: c for c in tab}

    def F(q, sizes, attrs):
        ci = info[q]
        if not ci["doit"]:
            return 1 + sum(sizes)
        return max(Dt(t, sizes, attrs) for _, t in ci["templates"])

    def Dt(t, sizes, attrs):
        k = t[0]
        if k == "H":
            return sizes[t[1]] if t[1] < len(sizes) else 1
        if k in "YN":
            return 1
        if k == "A":
            return 1 + sum(Dt(a, sizes, attrs) for a in t[2])
        if k == "U":
            sub_attrs = [attrs[a[1]] if a[0] == "field" and a[1] < len(attrs) else a[1] for a in t[3]]
            return F(t[1], [Dt(a, sizes, attrs) for a in t[2]], sub_attrs)
        if k == "C":
            a = attrs[t[1]] if t[1] < len(attrs) else ("n",)
            ss = [Dt(x, sizes, attrs) for x in t[2]]
            if a[0] == "c" and a[1] in info:
                ci = info[a[1]]
                nsym = sum(f["sympify"] for f in ci["fields"])
                return F(a[1], ss + [1] * (nsym - len(ss)), [("n",)] * 4)
            return 1 + sum(ss)
        return 1

    def D(e):
        if e[0] in "YN":
            return 1
        if e[0] == "A":
            return 1 + sum(D(a) for a in e[2])
        return F(e[1], [D(a) for a in e[2]], e[3])

    return D(ir)
