"""Random nested trees over the REAL ampform expression classes, random maps (shared by C14/C15)."""
from __future__ import annotations

import dataclasses
import random

import common  # noqa: F401
import sympy as sp
import uneval_ir as U

SYMS = ["Symbol('x')", "Symbol('y')", "Symbol('s')", "Symbol('m1')", "Symbol('m2')", "Symbol('L')",
        "Symbol('m0', positive=True)", "Symbol('w', real=True)", "Symbol('d', nonnegative=True)"]
NUMS = [(1, 1), (2, 1), (3, 1), (3, 2), (5, 4), (7, 3), (0, 1), (-1, 1), (1, 2)]
STRS = ["rho", "K^*", "builtins.NoneTyp", "a.b"]


def attr_pool(fname):
    from ampform.dynamics import phasespace as ps

    if fname == "phsp_factor":
        return [("c", U.qual(ps.PhaseSpaceFactor)), ("c", U.qual(ps.PhaseSpaceFactorSWave)),
                ("c", U.qual(ps.EqualMassPhaseSpaceFactor)), ("c", U.qual(ps.PhaseSpaceFactorComplex)),
                ("o", "uneval_ir.pool_function"), ("o", "uneval_ir.pool_function2")]
    return [("n",), ("n",)] + [("s", s) for s in STRS] + [("c", "uneval_ir.PoolClass"),
                                                           ("o", "uneval_ir.pool_function2"), ("u", "['a', 'b']")]


class Gen:
    def __init__(self, seed, helpers=False):
        self.r = random.Random(seed)
        self.dec = U.decorated()
        self.names = sorted(self.dec)
        self.helpers = helpers

    def leaf(self):
        r = self.r
        k = r.random()
        if k < 0.6:
            return ("Y", r.choice(SYMS))
        if k < 0.9:
            return ("N", *r.choice(NUMS))
        s = ("Y", r.choice(SYMS))
        return r.choice([("A", "sympy.core.power.Pow", [s, ("N", 2, 1)]),
                         ("A", "sympy.functions.elementary.trigonometric.sin", [s]),
                         ("A", "sympy.core.mul.Mul", [s, ("Y", "Symbol('q')")])])

    def inst(self, depth, cls=None):
        """IR of a random instance of a decorated class (arguments: leaves or nested instances)."""
        r = self.r
        q = cls or r.choice(self.names)
        c = self.dec[q]
        args = []
        for f in U.sym_fields(c):
            if depth > 1 and r.random() < 0.45:
                args.append(self.inst(depth - 1))
            else:
                if f.name in ("angular_momentum", "l") and r.random() < 0.7:
                    args.append(r.choice([("N", 0, 1), ("N", 1, 1), ("N", 2, 1), ("Y", "Symbol('L')")]))
                else:
                    args.append(self.leaf())
        attrs = [r.choice(attr_pool(f.name)) for f in U.attr_fields(c)]
        return ("U", q, args, attrs)

    def helper(self, depth):
        r = self.r
        k = r.randrange(4)
        a = self.inst(depth - 1)
        if k == 0:
            i = ("Y", "Symbol('i')")
            return ("A", "ampform.sympy.PoolSum",
                    [("A", "sympy.core.mul.Mul", [i, a]),
                     ("A", "sympy.core.containers.Tuple", [i, ("A", "sympy.core.containers.Tuple", [("N", 1, 1), ("N", 2, 1)])])])
        if k == 1:
            return ("A", "ampform.sympy.math.ComplexSqrt", [a])
        if k == 2:
            return ("A", "ampform.sympy._array_expressions.ArrayMultiplication", [a, self.inst(1)])
        return ("A", "ampform.sympy._array_expressions.ArraySum", [a, self.inst(1)])

    def tree(self, depth):
        """(sympy object, IR) of a random tree; IR is re-read from the constructed object."""
        for _ in range(50):
            ir = self.helper(depth) if (self.helpers and self.r.random() < 0.25) else self.inst(depth)
            try:
                obj = U.from_ir(ir)
                return obj, U.to_ir(obj)
            except (U.IRError, U.ModelError):
                raise
            except Exception:  # noqa: BLE001  constructor refused the arguments: draw again
                continue
        raise U.IRError("generator could not build a tree")

    # ---------------- maps
    def subtrees(self, ir, acc=None):
        acc = [] if acc is None else acc
        acc.append(ir)
        if ir[0] in "AU":
            for a in ir[2]:
                self.subtrees(a, acc)
        return acc

    def attrs_in(self, ir, acc=None):
        acc = [] if acc is None else acc
        if ir[0] == "U":
            acc.extend(ir[3])
        if ir[0] in "AU":
            for a in ir[2]:
                self.attrs_in(a, acc)
        return acc

    def rule(self, ir):
        """kind, expression rule [(key_ir, val_ir)], attribute rule [(attr, attr)]"""
        r = self.r
        subs = self.subtrees(ir)
        syms = sorted({t[1] for t in subs if t[0] == "Y"})
        kind = r.choice(["sym2sym", "sym2num", "sym2expr", "sub2sym", "attr", "sym2sym", "sym2num"])
        er, ar = [], []
        if kind in ("sym2sym", "sym2num", "sym2expr") and syms:
            for k in r.sample(syms, min(len(syms), r.choice([1, 1, 2]))):
                if kind == "sym2sym":
                    v = ("Y", r.choice(["Symbol('t')", "Symbol('u', real=True)", "Symbol('x')"]))
                elif kind == "sym2num":
                    v = ("N", *r.choice([(2, 1), (3, 2), (5, 1), (7, 4)]))
                else:
                    v = r.choice([("A", "sympy.core.power.Pow", [("Y", "Symbol('t')"), ("N", 2, 1)]),
                                  ("A", "sympy.functions.elementary.trigonometric.cos", [("Y", "Symbol('t')")]),
                                  self.inst(1)])
                er.append((("Y", k), v))
        elif kind == "sub2sym":
            cand = [t for t in subs[1:] if t[0] == "U"] or [t for t in subs if t[0] == "Y"]
            er.append((r.choice(cand), ("Y", "Symbol('t')")))
        else:
            ats = [a for a in self.attrs_in(ir) if a[0] != "u"]
            if ats:
                a = r.choice(ats)
                pool = [("n",), ("s", "other"), ("c", "ampform.dynamics.phasespace.PhaseSpaceFactorAbs"),
                        ("o", "uneval_ir.pool_function")]
                ar.append((a, r.choice([p for p in pool if p != a])))
            elif syms:
                er.append((("Y", syms[0]), ("Y", "Symbol('t')")))
            kind = "attr"
        return kind, er, ar


def py_rule(er, ar):
    d = {U.from_ir(k): U.from_ir(v) for k, v in er}
    d.update({U.attr_py(k): U.attr_py(v) for k, v in ar})
    return d


def coq_rule(er):
    return "[" + "; ".join(f"({U.coq(k)}, {U.coq(v)})" for k, v in er) + "]"


def coq_arule(ar):
    return "[" + "; ".join(f"({U.attr_coq(k)}, {U.attr_coq(v)})" for k, v in ar) + "]"


def coq_smap(er):
    return "[" + "; ".join(f"({U.cstr(k[1])}, {U.coq(v)})" for k, v in er) + "]"


def default_instances():
    """Every decorated class on default-ish arguments (plain symbols), plus helper classes."""
    out = []
    for q, c in U.decorated().items():
        sf = U.sym_fields(c)
        try:
            out.append(c(*[sp.Symbol(f"a{i}") for i in range(len(sf))]))
        except Exception:  # noqa: BLE001
            pass
    from ampform.sympy import PoolSum
    from ampform.sympy._array_expressions import (ArrayAxisSum, ArrayMultiplication, ArraySlice, ArraySum,
                                                  ArraySymbol, MatrixMultiplication)
    from ampform.sympy.math import ComplexSqrt

    x, i = sp.symbols("x i")
    p = ArraySymbol("p", shape=(3, 4))
    out += [PoolSum(x ** i, (i, (1, 2, 3))), ComplexSqrt(x), ArraySum(p, p), ArrayAxisSum(p, 0),
            ArrayMultiplication(p, p), MatrixMultiplication(p, p), ArraySlice(p, (slice(None), 0))]
    return out
