"""C08 numeric harness on the implementation (supporting exploration + failing-input search).

Lambdifies expr.doit() with NumPy (cse on/off, several batch sizes) and checks the Lorentz
identities and an independent textbook formula, with tolerances scaled by |L|^2 (floating
point is not part of the theorems).

usage: search_C08.py <seed> <n> | --replay <file>
"""
import json
import random
import sys

import common  # noqa: F401
import numpy as np
import sympy as sp

common.assert_repo_import()
from ampform.kinematics.lorentz import (  # noqa: E402
    ArrayMultiplication,
    BoostMatrix,
    BoostZMatrix,
    FourMomentumSymbol,
    NegativeMomentum,
    RotationYMatrix,
    RotationZMatrix,
)

from ampform.sympy._array_expressions import MatrixMultiplication  # noqa: E402

ETA = np.diag([1.0, -1.0, -1.0, -1.0])
p = FourMomentumSymbol("p", shape=[])
b, a, n = sp.symbols("b a n")
_cache = {}
COMPOUND = {"a+b": a + b, "a-b": a - b, "-a-b": -a - b, "a+pi/3": a + sp.pi / 3, "3*a": 3 * a, "2*a+b": 2 * a + b,
            "a*b": a * b, "-a": -a, "a/2-b/3": a / 2 - b / 3, "2*a": 2 * a, "a+b+1": a + b + 1}
COMPOUND_NUM = {"a+b": lambda x, y: x + y, "a-b": lambda x, y: x - y, "-a-b": lambda x, y: -x - y,
                "a+pi/3": lambda x, y: x + np.pi / 3, "3*a": lambda x, y: 3 * x, "2*a+b": lambda x, y: 2 * x + y,
                "a*b": lambda x, y: x * y, "-a": lambda x, y: -x, "a/2-b/3": lambda x, y: x / 2 - y / 3,
                "2*a": lambda x, y: 2 * x, "a+b+1": lambda x, y: x + y + 1}


def fn(kind, cse):
    key = (kind, cse)
    if key not in _cache:
        if kind == "boost":
            _cache[key] = sp.lambdify([p], BoostMatrix(p).doit(), "numpy", cse=cse)
        elif kind == "boostz":
            _cache[key] = sp.lambdify([b, n], BoostZMatrix(b, n_events=n).doit(), "numpy", cse=cse)
        elif kind == "roty":
            _cache[key] = sp.lambdify([a, n], RotationYMatrix(a, n_events=n).doit(), "numpy", cse=cse)
        elif kind == "rotz":
            _cache[key] = sp.lambdify([a, n], RotationZMatrix(a, n_events=n).doit(), "numpy", cse=cse)
        elif kind == "negp":
            _cache[key] = sp.lambdify([p], NegativeMomentum(p).doit(), "numpy", cse=cse)
        elif kind == "boost_apply":
            _cache[key] = sp.lambdify([p], ArrayMultiplication(BoostMatrix(p), p).doit(), "numpy", cse=cse)
        elif kind == "negneg":  # space inversion applied twice
            _cache[key] = sp.lambdify([p], NegativeMomentum(NegativeMomentum(p)).doit(), "numpy", cse=cse)
        elif kind == "boost_of_neg":  # boost of an expression that is itself a space-inverted momentum
            _cache[key] = sp.lambdify([p], BoostMatrix(NegativeMomentum(p)).doit(), "numpy", cse=cse)
        elif kind == "boost_of_negneg":
            _cache[key] = sp.lambdify([p], BoostMatrix(NegativeMomentum(NegativeMomentum(p))).doit(), "numpy", cse=cse)
        elif isinstance(kind, tuple) and kind[0] == "product":  # library product classes with (possibly repeated) operands
            _, cls, pattern = kind
            syms = {"a": a, "b": b}
            if cls == "rotz":
                mats = [RotationZMatrix(syms[c], n_events=n) for c in pattern]
            elif cls == "roty":
                mats = [RotationYMatrix(syms[c], n_events=n) for c in pattern]
            else:
                mats = [BoostZMatrix(syms[c], n_events=n) for c in pattern]
            _cache[key] = sp.lambdify([a, b, n], MatrixMultiplication(*mats).doit(), "numpy", cse=cse)
        elif isinstance(kind, tuple) and kind[0] == "compound":  # rotation whose angle argument is a compound expression
            _, cls, form = kind
            ang = COMPOUND[form]
            klass = RotationYMatrix if cls == "roty" else RotationZMatrix
            _cache[key] = sp.lambdify([a, b, n], klass(ang, n_events=n).doit(), "numpy", cse=cse)
        elif isinstance(kind, tuple) and kind[0] in ("mixed", "apply"):  # products of DIFFERENT matrix classes, in order
            _, ops = kind
            syms = sp.symbols("t0:%d" % len(ops))
            mats = []
            for o, t in zip(ops, syms):
                mats.append({"roty": RotationYMatrix, "rotz": RotationZMatrix, "boostz": BoostZMatrix}[o](t, n_events=n))
            if kind[0] == "mixed":
                expr = MatrixMultiplication(*mats)
            else:
                expr = ArrayMultiplication(*mats, p)
            _cache[key] = sp.lambdify([*syms, n, p], expr.doit(), "numpy", cse=cse)
        elif kind == "boost_explicit":  # the explicit symbolic matrix, entry by entry
            _cache[key] = sp.lambdify([p], list(BoostMatrix(p).as_explicit().doit()), "numpy", cse=cse)
        elif kind == "boostz_explicit":
            _cache[key] = sp.lambdify([b, n], list(BoostZMatrix(b, n_events=n).as_explicit().doit()), "numpy", cse=cse)
        elif kind in ("roty_explicit", "rotz_explicit"):
            cls = RotationYMatrix if kind.startswith("roty") else RotationZMatrix
            _cache[key] = sp.lambdify([a, n], list(cls(a, n_events=n).as_explicit().doit()), "numpy", cse=cse)
    return _cache[key]


def first_event_matrix(entries):
    """16 entries (scalars or per-event arrays) of an explicit matrix -> the 4x4 matrix of the first event"""
    vals = [complex(np.asarray(e).reshape(-1)[0]) for e in entries]
    M = np.array(vals).reshape(4, 4)
    return M.real if np.abs(M.imag).max() == 0 else M


def ref_boost(P):
    """Textbook boost from the same doubles, in 60-digit arithmetic (no cancellation error)."""
    import mpmath as mp

    mp.mp.dps = 60
    E, x, y, z = [mp.mpf(float(v)) for v in P]
    m = mp.sqrt(E * E - x * x - y * y - z * z)
    v = [x, y, z]
    B = np.empty((4, 4))
    B[0, 0] = float(E / m)
    for i in range(3):
        B[0, i + 1] = B[i + 1, 0] = float(-v[i] / m)
        for j in range(3):
            B[i + 1, j + 1] = float((1 if i == j else 0) + v[i] * v[j] / (m * (E + m)))
    return B, float(m)


def ref_rot(kind, ang):
    c, s = np.cos(ang), np.sin(ang)
    R = np.eye(4)
    if kind == "roty":
        R[1, 1], R[1, 3], R[3, 1], R[3, 3] = c, s, -s, c
    else:
        R[1, 1], R[1, 2], R[2, 1], R[2, 2] = c, -s, s, c
    return R


def lorentz_fails(L, tag):
    out = []
    nrm = max(1.0, float(np.abs(L).max()) ** 2)
    if np.abs(L.T @ ETA @ L - ETA).max() > 1e-8 * nrm:
        out.append((f"{tag}_lorentz", f"|L^T eta L - eta| = {np.abs(L.T @ ETA @ L - ETA).max():.3g}"))
    if abs(np.linalg.det(L) - 1) > 1e-6 * nrm:
        out.append((f"{tag}_det", f"det = {np.linalg.det(L):.12g}"))
    if L[0, 0] < 1 - 1e-12:
        out.append((f"{tag}_00", f"L00 = {L[0, 0]:.12g} < 1"))
    return out


def run_case(c):
    kind, cse, batch = c["kind"], c["cse"], c["batch"]
    fails = []
    if kind == "boost":
        P = np.array(c["p"], dtype=float)
        arr = np.tile(P, (batch, 1))
        L = fn("boost", cse)(arr)
        if L.shape != (batch, 4, 4):
            return [("boost_shape", f"shape {L.shape}")]
        if batch > 1 and np.abs(L - L[0]).max() != 0:
            fails.append(("batch_pointwise", "rows of a constant batch differ"))
        L = L[0]
        B, m = ref_boost(P)
        gam = P[0] / m
        # double rounding of 1-beta^2 costs a relative error ~ eps*gamma^2 (and eps/beta^2 in (g-1)/beta^2)
        rel = 1e-12 * max(1.0, gam * gam)
        nrm = max(1.0, float(np.abs(B).max()) ** 2) * max(1.0, gam * gam) * 1e4
        tol_entry = rel * max(1.0, float(np.abs(B).max())) * 10
        if not np.all(np.isfinite(L)):
            fails.append(("boost_finite", f"non-finite entries for p={P.tolist()}"))
            return fails
        if np.abs(L - B).max() > tol_entry:
            i, j = np.unravel_index(np.abs(L - B).argmax(), (4, 4))
            fails.append((f"boost_entry_{i}{j}", f"entry ({i},{j}) = {L[i, j]:.12g}, textbook {B[i, j]:.12g}"))
        fails += lorentz_fails(L, "boost")
        Lx = first_event_matrix(fn("boost_explicit", cse)(arr))
        if np.abs(Lx - L).max() > tol_entry:
            i, j = np.unravel_index(np.abs(Lx - L).argmax(), (4, 4))
            fails.append((f"explicit_vs_code_boost_{i}{j}", f"as_explicit()[{i},{j}] = {Lx[i, j]:.12g}, generated code {L[i, j]:.12g}"))
        rest = L @ P
        if np.abs(rest - np.array([m, 0, 0, 0])).max() > 1e-9 * nrm * max(1.0, abs(P[0])):
            fails.append(("boost_rest", f"B p = {rest.tolist()} expected ({m},0,0,0)"))
        Pneg = P * np.array([1, -1, -1, -1])
        negp = fn("negp", cse)(arr)[0]
        if np.abs(negp - Pneg).max() != 0:
            fails.append(("negative_momentum", f"NegativeMomentum = {negp.tolist()}"))
        Linv = fn("boost", cse)(np.tile(Pneg, (batch, 1)))[0]
        if np.abs(Linv @ L - np.eye(4)).max() > 1e-8 * nrm:
            fails.append(("boost_inverse", f"|B(-p)B(p) - 1| = {np.abs(Linv @ L - np.eye(4)).max():.3g}"))
        nn = fn("negneg", cse)(arr)[0]
        if np.abs(nn - P).max() != 0:
            fails.append(("double_space_inversion", f"NegativeMomentum(NegativeMomentum(p)) = {nn.tolist()} != p"))
        Lneg = fn("boost_of_neg", cse)(arr)[0]
        if np.abs(Lneg - Linv).max() > tol_entry:
            fails.append(("boost_of_inverted_expression", f"|B(NegativeMomentum(p)) - B(-p)| = {np.abs(Lneg - Linv).max():.3g}"))
        Lnn = fn("boost_of_negneg", cse)(arr)[0]
        if np.abs(Lnn - L).max() > tol_entry:
            fails.append(("boost_of_double_inversion", f"|B(-(-p)) - B(p)| = {np.abs(Lnn - L).max():.3g}; B(-q)B(q) != 1 for q = -p"))
        applied = fn("boost_apply", cse)(arr)[0]
        if np.abs(applied - rest).max() > 1e-9 * nrm * max(1.0, abs(P[0])):
            fails.append(("array_multiplication", f"einsum product {applied.tolist()} != matrix product {rest.tolist()}"))
        if P[1] == 0 and P[2] == 0 and P[3] != 0:
            Lz = fn("boostz", cse)(np.full(batch, P[3] / P[0]), batch)[0]
            if np.abs(Lz - L).max() > tol_entry:
                fails.append(("boost_z_direction", f"|Bz(pz/E) - B(p)| = {np.abs(Lz - L).max():.3g}"))
    elif kind == "boostz":
        beta = c["beta"]
        L = fn("boostz", cse)(np.full(batch, beta), batch)
        if L.shape != (batch, 4, 4):
            return [("boostz_shape", f"shape {L.shape}")]
        L = L[0]
        g = 1 / np.sqrt(1 - beta * beta)
        B = np.eye(4)
        B[0, 0] = B[3, 3] = g
        B[0, 3] = B[3, 0] = -g * beta
        if np.abs(L - B).max() > 1e-9 * g:
            fails.append(("boostz_entry", f"|Bz - textbook| = {np.abs(L - B).max():.3g}"))
        Lx = first_event_matrix(fn("boostz_explicit", cse)(np.full(batch, beta), batch))
        if np.abs(Lx - L).max() > 1e-9 * g:
            fails.append(("explicit_vs_code_boostz", f"|as_explicit() - generated code| = {np.abs(Lx - L).max():.3g}"))
        fails += lorentz_fails(L, "boostz")
    elif kind == "product":
        cls, pattern, a1, a2 = c["cls"], c["pattern"], c["a1"], c["a2"]
        f = fn(("product", cls, pattern), cse)
        M = f(np.full(batch, a1), np.full(batch, a2), batch)
        if M.shape != (batch, 4, 4):
            return [("product_shape", f"shape {M.shape}")]
        M = M[0]
        vals = {"a": a1, "b": a2}
        if cls in ("roty", "rotz"):
            ref = np.eye(4)
            for ch in pattern:
                ref = ref @ ref_rot(cls, vals[ch])
            tot = ref_rot(cls, sum(vals[ch] for ch in pattern))
            if np.abs(ref - tot).max() > 1e-11:
                return []  # cannot happen; guards the oracle itself
            tol = 1e-11
        else:
            ref = np.eye(4)
            for ch in pattern:
                be = vals[ch]
                g = 1 / np.sqrt(1 - be * be)
                B = np.eye(4)
                B[0, 0] = B[3, 3] = g
                B[0, 3] = B[3, 0] = -g * be
                ref = ref @ B
            tol = 1e-9 * max(1.0, float(np.abs(ref).max()))
        if np.abs(M - ref).max() > tol:
            fails.append((f"matrix_product_{cls}_{pattern}", f"MatrixMultiplication over pattern {pattern} differs from the ordered matrix product by {np.abs(M - ref).max():.3g}"))
    elif kind in ("mixed", "apply"):
        ops, vals = tuple(c["ops"]), c["vals"]
        f = fn((kind, ops), cse)
        P = np.array(c["p"], dtype=float)
        out = f(*[np.full(batch, v) for v in vals], batch, np.tile(P, (batch, 1)))
        ref = np.eye(4)
        for o, v in zip(ops, vals):
            if o == "boostz":
                g = 1 / np.sqrt(1 - v * v)
                B = np.eye(4)
                B[0, 0] = B[3, 3] = g
                B[0, 3] = B[3, 0] = -g * v
                ref = ref @ B
            else:
                ref = ref @ ref_rot(o, v)
        want = ref if kind == "mixed" else ref @ P
        if out.shape != (batch, *want.shape):
            return [(f"{kind}_shape", f"shape {out.shape}")]
        tol = 1e-9 * max(1.0, float(np.abs(want).max()))
        if np.abs(out[0] - want).max() > tol:
            what = "MatrixMultiplication" if kind == "mixed" else "ArrayMultiplication(..., p)"
            fails.append((f"{kind}_product_order", f"{what} over {'.'.join(ops)} at {vals}: differs from the ordered product by "
                          f"{np.abs(out[0] - want).max():.3g}"))
    elif kind == "compound":
        cls, form, a1, a2 = c["cls"], c["form"], c["a1"], c["a2"]
        R = fn(("compound", cls, form), cse)(np.full(batch, a1), np.full(batch, a2), batch)
        if R.shape != (batch, 4, 4):
            return [("compound_shape", f"shape {R.shape}")]
        R = R[0]
        ref = ref_rot(cls, COMPOUND_NUM[form](a1, a2))
        if np.abs(R - ref).max() > 1e-11:
            fails.append((f"{cls}_compound_angle", f"{cls}({form}) at a={a1}, b={a2}: |R - textbook| = {np.abs(R - ref).max():.3g}"))
        fails += lorentz_fails(R, cls + "_compound")
    else:
        a1, a2 = c["a1"], c["a2"]
        f = fn(kind, cse)
        R1, R2, R12 = f(np.full(batch, a1), batch), f(np.full(batch, a2), batch), f(np.full(batch, a1 + a2), batch)
        if R1.shape != (batch, 4, 4):
            return [(f"{kind}_shape", f"shape {R1.shape}")]
        R1, R2, R12 = R1[0], R2[0], R12[0]
        if np.abs(R1 - ref_rot(kind, a1)).max() > 1e-12:
            fails.append((f"{kind}_entry", f"|R - textbook| = {np.abs(R1 - ref_rot(kind, a1)).max():.3g}"))
        fails += lorentz_fails(R1, kind)
        Rx = first_event_matrix(fn(kind + "_explicit", cse)(np.full(batch, a1), batch))
        if np.abs(Rx - R1).max() > 1e-12:
            fails.append((f"explicit_vs_code_{kind}", f"|as_explicit() - generated code| = {np.abs(Rx - R1).max():.3g}"))
        if np.abs(R1 @ R2 - R12).max() > 1e-12:
            fails.append((f"{kind}_additive", f"|R(a)R(b) - R(a+b)| = {np.abs(R1 @ R2 - R12).max():.3g}"))
    return fails


def gen_cases(seed, n_cases):
    rng = random.Random(seed)
    cases = []
    for i in range(n_cases):
        cse = bool(i % 2)
        batch = [1, 2, 1000][i % 3] if i % 7 else 1
        k = i % 5
        if k in (0, 1, 2):
            m = 10 ** rng.uniform(-2, 2)
            bg = 10 ** rng.uniform(-6, 4.5)
            mode = rng.choice(["random", "random", "x", "y", "z", "xy", "-z"])
            if mode == "random":
                d = np.array([rng.gauss(0, 1) for _ in range(3)])
            else:
                d = {"x": [1, 0, 0], "y": [0, 1, 0], "z": [0, 0, 1], "xy": [1, 1, 0], "-z": [0, 0, -1]}[mode]
                d = np.array(d, dtype=float)
            d = d / np.linalg.norm(d)
            pv = m * bg * d
            E = float(np.sqrt(m * m + (pv**2).sum()))
            if E * E - (pv**2).sum() <= 0:
                continue
            cases.append({"kind": "boost", "cse": cse, "batch": batch, "p": [E, *map(float, pv)], "mode": mode,
                          "log10_bg": round(np.log10(bg), 2)})
        elif k == 3:
            bg = 10 ** rng.uniform(-6, 4) * rng.choice([-1, 1])
            beta = bg / np.sqrt(1 + bg * bg)
            if abs(beta) >= 1:
                continue
            cases.append({"kind": "boostz", "cse": cse, "batch": batch, "beta": float(beta)})
        elif k == 4 and rng.random() < 0.5:
            cls = rng.choice(["rotz", "roty", "boostz"])
            pattern = rng.choice(["aa", "ab", "ba", "aba", "abab", "aaa", "abba"])
            if rng.random() < 0.5:  # long chains (five and more operands)
                pattern = "".join(rng.choice("ab") for _ in range(rng.randint(5, 9)))
            if cls == "boostz":
                v1, v2 = rng.uniform(-0.9, 0.9), rng.uniform(-0.9, 0.9)
            else:
                v1, v2 = rng.uniform(-7, 7), rng.uniform(-7, 7)
            cases.append({"kind": "product", "cls": cls, "pattern": pattern, "cse": cse, "batch": batch, "a1": v1, "a2": v2})
        elif k == 4 and rng.random() < 0.5:
            applied = rng.random() < 0.5
            nops = rng.choice([1, 2, 2, 3, 4]) if applied else rng.choice([2, 2, 3, 4])
            ops = [rng.choice(["roty", "rotz", "boostz"]) for _ in range(nops)]
            vals = [rng.uniform(-0.9, 0.9) if o == "boostz" else rng.uniform(-3, 3) for o in ops]
            pv = [rng.uniform(-2, 2) for _ in range(3)]
            cases.append({"kind": "apply" if applied else "mixed", "ops": ops, "vals": vals, "cse": cse, "batch": batch,
                          "p": [float(np.sqrt(1 + sum(x * x for x in pv))), *pv]})
        elif k == 4 and rng.random() < 0.5:
            cases.append({"kind": "compound", "cls": rng.choice(["roty", "rotz"]), "form": rng.choice(sorted(COMPOUND)),
                          "cse": cse, "batch": batch, "a1": rng.uniform(-7, 7), "a2": rng.uniform(-7, 7)})
        else:
            cases.append({"kind": rng.choice(["roty", "rotz"]), "cse": cse, "batch": batch,
                          "a1": rng.choice([0.0, np.pi, -np.pi / 2, rng.uniform(-7, 7)]),
                          "a2": rng.uniform(-7, 7)})
    return cases


def main():
    if sys.argv[1] == "--replay":
        doc = json.load(open(sys.argv[2]))
        fails = run_case(doc["replay"]["case"])
        print(json.dumps({"still_fails": bool(fails), "fails": fails}))
        return
    seed, n_cases = int(sys.argv[1]), int(sys.argv[2])
    cases = gen_cases(seed, n_cases)
    failures, kinds, samples, distinct = [], {}, [], set()
    for c in cases:
        try:
            fails = run_case(c)
        except Exception as exc:
            fails = [("exception_" + type(exc).__name__, f"{type(exc).__name__}: {exc}"[:300])]
        key = json.dumps(c, sort_keys=True)
        distinct.add(key)
        tag = f"{c['kind']}/cse={c['cse']}/batch={c['batch']}"
        kinds[tag] = kinds.get(tag, 0) + 1
        if len(samples) < 4 and c["kind"] not in [s["kind"] for s in samples]:
            samples.append(c)
        for sig, what in fails:
            failures.append({"signature": sig, "what": what, "case": c})
        if len(failures) >= 20:  # enough to report; do not spend the failing-input search budget on more
            break
    print(json.dumps({"evaluations": sum(kinds.values()), "distinct": len(distinct), "samples": samples,
                      "kinds": kinds, "failures": failures[:20]}))


main()
