"""C18 correspondence run (T2): the same inputs through the implementation and the Gallina model.

usage: cases_C18.py gen  <seed> <n_expr> <outdir>   -> writes Cases_C18_<k>.v and cases.json
       cases_C18.py diff <outdir>                   -> reads Cases_C18_<k>.out, runs the implementation,
                                                      prints JSON {evaluations, distinct, samples, kinds, failures}
       cases_C18.py --replay <file>                 -> JSON {still_fails}

Comparison: the model's output tree is rebuilt through SymPy's constructors (Add, Mul, Pow,
Function, PoolSum) and compared with the implementation's result by structural `==`; where that
differs only because SymPy leaves an unevaluated-but-evaluable node behind (e.g. 2*(x+y) after a
substitution), both sides are first rebuilt node by node (`model_C18.canon`).  free_symbols are
compared as sets of names.
"""
import json
import os
import random
import re
import sys

import common  # noqa: F401
import model_C18 as M
import sympy as sp

from ampform.helicity import HelicityModel
from ampform.sympy import PoolSum

PER_FILE = 400


def impl_expression(intensity):
    """HelicityModel.expression (the real property) on an object carrying only what it reads."""
    fake = object.__new__(HelicityModel)
    object.__setattr__(fake, "intensity", intensity)
    object.__setattr__(fake, "amplitudes", {})
    return HelicityModel.expression.fget(fake)


def run_impl(op, e, params):
    if op == "doit":
        return e.doit()
    if op == "evaluate":
        return e.evaluate()
    if op == "free_symbols":
        return sorted(s.name for s in e.free_symbols)
    if op == "cleanup":
        return e.cleanup()
    if op == "subs":
        return e.subs([(sp.Symbol(x), M.build(v)) for x, v in params])
    if op == "xreplace":
        return e.xreplace({M.build(k): M.build(v) for k, v in params})
    if op == "unfold":
        return impl_expression(e)
    raise ValueError(op)


def coq_call(op, name, params):
    if op == "doit":
        return f"show (doit {name})"
    if op == "evaluate":
        return f"show (evaluate {name})"
    if op == "free_symbols":
        return f"show_names (free_symbols {name})"
    if op == "cleanup":
        return f"show (cleanup {name})"
    if op == "subs":
        s = "; ".join(f'("{x}", {M.gal(v)})' for x, v in params)
        return f"show (subs_seq [{s}] {name})"
    if op == "xreplace":
        s = "; ".join(f"({M.gal(k)}, {M.gal(v)})" for k, v in params)
        return f"show (xreplace [{s}] {name})"
    if op == "unfold":
        return f"show (model_expression {name})"
    raise ValueError(op)


def rnd_value(rng, e, allow_capture):
    r = rng.random()
    if r < 0.45:
        return M.rnd_rational(rng)
    pool = M.FREE + (M.IDX if allow_capture else [])
    a = sp.Symbol(rng.choice(pool))
    if r < 0.7:
        return a
    return rng.choice([a + 1, 2 * a, sp.Function("g")(a), a ** 2])


def subst_targets(rng, e):
    bound = sorted({t[0].name for ps in e.atoms(M.SpecSum) for t in ps.args[1:]})
    free = sorted(s.name for s in e.atoms(sp.Symbol))
    every = sorted(s.name for s in e.atoms(sp.Symbol))
    n = rng.choice([1, 1, 2, 3])
    out = []
    for _ in range(n):
        r = rng.random()
        src = bound if (r < 0.4 and bound) else free if (r < 0.8 and free) else every if (r < 0.95 and every) else ["zz"]
        out.append(rng.choice(src))
    return out


def _fixed():
    S = M.SpecSum
    a, b, i, j, x, y = sp.symbols("a b i j x y")
    return [
        lambda: S(x**i, (i, (1, 1))),                                   # repeated pool value counts twice
        lambda: S(x**i, (i, (a, b))),                                   # pool values merged by a -> b
        lambda: S(x**i * j, (i, (a, b, a)), (j, (1, sp.Rational(1, 2), 1))),
        lambda: S(x * i * j + y, (i, (0,)), (j, (1, 2, 3))),            # singleton value cancels another index
        lambda: S(j**i + y, (i, (0,)), (j, (2, 3))),
        lambda: S((i - 1) * j + x, (j, (2, 3)), (i, (1,))),
    ]


FIXED = _fixed()


def gen(seed, n_expr):
    rng = random.Random(seed * 7919 + 18)
    cases = []
    tries = 0
    n_done = 0
    while n_done < n_expr and tries < 20 * n_expr + 100:
        tries += 1
        kind = rng.choice(["plain"] * 5 + ["shadow"] * 3 + ["cancel"] * 2 + ["quirk", "builder", "builder", "wrapped"])
        try:
            # the generators return SpecSum trees: the case description never passes through ampform's constructor
            if n_done < len(FIXED):
                kind, e = "fixed", FIXED[n_done]()
            elif kind == "cancel":
                e = M.gen_cancel(rng)
            elif kind == "builder":
                e = M.gen_builder_nest(rng)
            elif kind == "shadow":
                e = M.gen_shadow_nest(rng)
            else:
                e = M.gen_poolsum(rng, [], M.FREE, rng.randint(1, 3), rng.randint(0, 2), [64],
                                  quirks=(kind == "quirk"))
            ops = ["doit", "evaluate", "free_symbols", "cleanup", "subs", "xreplace", "xreplace"]
            # HelicityModel.intensity is always a PoolSum.  Beyond nesting depth 2 the loop is incomplete and WHICH
            # nodes survive depends on SymPy's automatic evaluation (a factor 0 makes whole sub-sums vanish
            # from the tree), which the unevaluated model trees do not mirror: compared up to depth 2 only.
            if (kind == "builder" or rng.random() < 0.5) and M.ps_depth(e) <= 2:
                ops.append("unfold")
            if kind == "wrapped":
                w = rng.choice([lambda t: t + sp.Symbol("x"), lambda t: 2 * t * sp.Symbol("i"),
                                lambda t: sp.Function("f")(t, sp.Symbol("j")), lambda t: t ** 2])
                e = w(e)
                ops = ["doit", "free_symbols", "subs", "xreplace"]
            tree = M.ser(e)
            if M.ser(M.spec_build(tree)) != tree:
                continue
            for op in ops:
                params = None
                if kind == "fixed" and op in ("subs", "xreplace"):
                    pair = [["a", ["S", "b"]]] if op == "subs" else [[["S", "a"], ["S", "b"]]]
                    cases.append({"expr": tree, "op": op, "params": pair, "kind": kind, "text": str(e)[:200],
                                  "supplier": "tuple"})
                    continue
                if op == "subs":
                    params = [[x, M.ser(sp.sympify(rnd_value(rng, e, rng.random() < 0.15)))]
                              for x in subst_targets(rng, e)]
                if op == "xreplace":
                    keys = list(dict.fromkeys(subst_targets(rng, e)))
                    params = [[["S", x], M.ser(sp.sympify(rnd_value(rng, e, rng.random() < 0.15)))]
                              for x in keys]
                    nodes = sorted(e.atoms(M.SpecSum), key=str)
                    if nodes and rng.random() < 0.3:
                        params.append([M.ser(rng.choice(nodes)), ["S", "zz"]])
                cases.append({"expr": tree, "op": op, "params": params, "kind": kind, "text": str(e)[:200],
                              "supplier": rng.choice(sorted(M.SUPPLIERS))})
            n_done += 1
        except M.Unsupported:
            continue
    return cases


def write_v(cases, outdir):
    files = []
    for k in range(0, len(cases), PER_FILE):
        name = f"Cases_C18_{k // PER_FILE}"
        lines = ["From Coq Require Import String List ZArith.", "From AV Require Import PoolSum.", "Import ListNotations.", "Open Scope string_scope.",
                 "Set Printing Width 1000000.", "Set Printing Depth 1000000."]
        for i, c in enumerate(cases[k:k + PER_FILE], start=k):
            lines.append(f"Definition e{i} : expr := {M.gal(c['expr'])}.")
            lines.append(f'Eval vm_compute in ("C{i}", {coq_call(c["op"], f"e{i}", c["params"])}).')
            lines.append(f'Eval vm_compute in ("W{i}", show_bool (wfb e{i})).')
        with open(os.path.join(outdir, name + ".v"), "w") as f:
            f.write("\n".join(lines) + "\n")
        files.append(name + ".v")
    return files


LINE = re.compile(r'^\s*= \("([CW])(\d+)", "(.*)"\)\s*$')


def parse_out(outdir):
    res, wf = {}, {}
    for fn in sorted(os.listdir(outdir)):
        if fn.startswith("Cases_C18_") and fn.endswith(".out"):
            for line in open(os.path.join(outdir, fn)):
                m = LINE.match(line)
                if m:
                    txt = m.group(3).replace('""', '"')
                    (res if m.group(1) == "C" else wf)[int(m.group(2))] = txt
    return res, wf


SINGULAR = "singular point (zoo/nan)"


def singular(e):
    return isinstance(e, sp.Basic) and e.has(sp.zoo, sp.nan, sp.oo, -sp.oo)


def compare(case, model_txt):
    """-> None if implementation and model agree, else a description"""
    op = case["op"]
    try:
        problems = []
        e = M.build(case["expr"], case.get("supplier"), problems)
        if problems:
            return "constructor: " + problems[0]
        got = run_impl(op, e, case["params"])
    except Exception as exc:  # noqa: BLE001
        return f"implementation raised {type(exc).__name__}: {exc}"
    mod = json.loads(model_txt)
    if op == "free_symbols":
        if sorted(set(mod)) != got:
            return f"free_symbols: implementation {got}, model {sorted(set(mod))}"
        return None
    want = M.build(mod)
    if singular(got) or singular(want):
        # a 0**negative appeared: SymPy's arithmetic with zoo/nan is not associative, so differently
        # nested but equal sums legitimately print differently; outside the sum reading anyway
        return SINGULAR
    if not M.same(got, want):
        return f"{op}: implementation {str(got)[:300]} ; model {str(want)[:300]}"
    return None


def main():
    if sys.argv[1] == "--replay":
        doc = json.load(open(sys.argv[2]))
        c = doc["replay"]["case"]
        why = compare(c, c["model_output"])
        print(json.dumps({"still_fails": why not in (None, SINGULAR), "why": why}))
        return
    if sys.argv[1] == "gen":
        seed, n, outdir = int(sys.argv[2]), int(sys.argv[3]), sys.argv[4]
        cases = gen(seed, n)
        files = write_v(cases, outdir)
        json.dump(cases, open(os.path.join(outdir, "cases.json"), "w"))
        print(json.dumps({"files": files, "n_cases": len(cases)}))
        return
    if sys.argv[1] == "diff":
        outdir = sys.argv[2]
        cases = json.load(open(os.path.join(outdir, "cases.json")))
        res, wf = parse_out(outdir)
        failures, kinds, samples, distinct = [], {}, [], set()
        drift = []
        n_wf = 0
        for i, c in enumerate(cases):
            key = c["op"] + ":" + c["kind"]
            kinds[key] = kinds.get(key, 0) + 1
            distinct.add(json.dumps([c["expr"], c["op"], c["params"]]))
            n_wf += wf.get(i) == "true"
            if i not in res:
                failures.append({"signature": "model_no_output", "what": f"no model output for case {i}",
                                 "case": c})
                continue
            why = compare(c, res[i])
            if why == SINGULAR:
                kinds["skipped_singular_point"] = kinds.get("skipped_singular_point", 0) + 1
                continue
            if why and wf.get(i) != "true":
                # malformed input (duplicate index symbol / pool mentioning an index): no theorem speaks
                # about it and it is outside the property's quantifier; recorded, not a violation
                drift.append(f"{c['text']}: {why}"[:400])
            elif why:
                c2 = dict(c)
                c2["model_output"] = res[i]
                sig = "constructor_pools_wrong" if why.startswith("constructor: ") else "model_mismatch_" + c["op"]
                failures.append({"signature": sig,
                                 "what": f"PoolSum model and implementation disagree on {c['text']}: {why}",
                                 "case": c2})
            elif len(samples) < 6 and c["op"] not in [s["op"] for s in samples]:
                samples.append({"op": c["op"], "expr": c["text"], "params": str(c["params"])[:120]})
        kinds["within_theorem_hypothesis_wf"] = n_wf
        kinds["model_drift_outside_hypothesis"] = len(drift)
        print(json.dumps({"drift": drift[:3], "evaluations": len(cases), "distinct": len(distinct), "samples": samples,
                          "kinds": kinds, "failures": failures[:20]}))
        return
    raise SystemExit(__doc__)


main()
