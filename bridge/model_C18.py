"""Shared helpers of the C18 bridge scripts: the JSON form of the Gallina `AV.PoolSum.expr`
type (exactly what `show` prints), SymPy <-> JSON, JSON -> Gallina, random generators.

JSON tree:  ["S",name] | ["N","num","den"] | ["A",[..]] | ["M",[..]] | ["P",b,e]
          | ["F",fname,[..]] | ["PS",body,[[idxname,[values..]],..]]
"""
from __future__ import annotations

import itertools

import common  # noqa: F401
import sympy as sp
from sympy.core.function import AppliedUndef

common.assert_repo_import()
from ampform.sympy import PoolSum  # noqa: E402

FREE = ["a", "b", "c", "x", "y"]
IDX = ["i", "j", "k", "l", "m"]
FUNS = ["f", "g", "h"]


class Unsupported(Exception):
    pass


class _SpecSum(sp.Expr):
    """Plain data carrier with the argument layout of PoolSum, used by the generators so that the case
    DESCRIPTION (JSON tree) never passes through ampform's constructor.  It carries the class name
    'PoolSum' so that SymPy orders Add/Mul arguments exactly as it does for the real class."""

    def __new__(cls, expression, *indices):
        args = sp.sympify((expression, *[(s, tuple(v)) for s, v in indices]))
        return sp.Expr.__new__(cls, *args)


_SpecSum.__name__ = "PoolSum"
SpecSum = _SpecSum


# ---------------------------------------------------------------- SymPy -> JSON (fail closed)
def ser(e) -> list:
    if isinstance(e, (PoolSum, SpecSum)):
        idx = []
        for t in e.args[1:]:
            if not (isinstance(t, sp.Tuple) and len(t) == 2 and isinstance(t[0], sp.Symbol)
                    and isinstance(t[1], sp.Tuple)):
                raise Unsupported(f"index {t!r}")
            idx.append([sym_name(t[0]), [ser(v) for v in t[1]]])
        return ["PS", ser(e.args[0]), idx]
    if isinstance(e, sp.Symbol):
        return ["S", sym_name(e)]
    if isinstance(e, sp.Rational):
        return ["N", str(e.p), str(e.q)]
    if isinstance(e, sp.Add):
        return ["A", [ser(a) for a in e.args]]
    if isinstance(e, sp.Mul):
        return ["M", [ser(a) for a in e.args]]
    if isinstance(e, sp.Pow):
        return ["P", ser(e.args[0]), ser(e.args[1])]
    if isinstance(e, AppliedUndef):
        return ["F", type(e).__name__, [ser(a) for a in e.args]]
    raise Unsupported(f"{type(e).__name__}: {e!r}")


def sym_name(s: sp.Symbol) -> str:
    if s.assumptions0 != sp.Symbol("q").assumptions0 or not s.name.isidentifier():
        raise Unsupported(f"symbol {s!r} with assumptions or odd name")
    return s.name


# ---------------------------------------------------------------- JSON -> SymPy (constructors)
# The declared type of a pool is Iterable[sp.Basic]: the same values through different iterables,
# one-shot iterators included.
def _range_or_tuple(vals):
    ints = [int(v) for v in vals] if all(getattr(v, "is_Integer", False) for v in vals) else None
    if ints and ints == list(range(ints[0], ints[0] + len(ints))):
        return range(ints[0], ints[0] + len(ints))
    return tuple(vals)


SUPPLIERS = {
    "tuple": lambda vals: tuple(vals),
    "list": lambda vals: list(vals),
    "sympy_tuple": lambda vals: sp.Tuple(*vals),
    "generator": lambda vals: (v for v in vals),
    "map": lambda vals: map(sp.sympify, list(vals)),
    "iter_list": lambda vals: iter(list(vals)),
    "chain": lambda vals: itertools.chain(vals[:1], vals[1:]),
    "zip_unpack": lambda vals: (v for (v,) in zip(vals)),
    "dict_keys": lambda vals: dict.fromkeys(vals).keys() if len(set(vals)) == len(vals) else list(vals),
    "range": _range_or_tuple,
}


def spec_build(t):
    """JSON -> SymPy with SpecSum nodes (no ampform constructor involved)"""
    k = t[0]
    if k == "PS":
        return SpecSum(spec_build(t[1]), *[(sp.Symbol(n), tuple(spec_build(v) for v in vals)) for n, vals in t[2]])
    if k in ("S", "N"):
        return build(t)
    if k == "A":
        return sp.Add(*[spec_build(a) for a in t[1]])
    if k == "M":
        return sp.Mul(*[spec_build(a) for a in t[1]])
    if k == "P":
        return sp.Pow(spec_build(t[1]), spec_build(t[2]))
    if k == "F":
        return sp.Function(t[1])(*[spec_build(a) for a in t[2]])
    raise ValueError(t)


def build(t, supplier=None, problems=None):
    """JSON -> SymPy through the public constructors.  `supplier` names the kind of iterable the pools
    are handed to PoolSum.__new__ in; `problems` collects nodes whose constructed pools differ from
    the values handed in."""
    k = t[0]
    if k == "S":
        return sp.Symbol(t[1])
    if k == "N":
        return sp.Rational(int(t[1]), int(t[2]))
    if k == "A":
        return sp.Add(*[build(a, supplier, problems) for a in t[1]])
    if k == "M":
        return sp.Mul(*[build(a, supplier, problems) for a in t[1]])
    if k == "P":
        return sp.Pow(build(t[1], supplier, problems), build(t[2], supplier, problems))
    if k == "F":
        return sp.Function(t[1])(*[build(a, supplier, problems) for a in t[2]])
    if k == "PS":
        body = build(t[1], supplier, problems)
        want = [(sp.Symbol(n), tuple(build(v, supplier, problems) for v in vals)) for n, vals in t[2]]
        sup = SUPPLIERS[supplier or "tuple"]
        node = PoolSum(body, *[(n, sup(list(vals))) for n, vals in want])
        if problems is not None:
            got = [(a[0], tuple(a[1])) for a in node.args[1:]]
            if got != want:
                problems.append(f"PoolSum(..., pools handed in as {supplier or 'tuple'}: {want}) was constructed with indices {got}")
        return node
    raise ValueError(t)


def canon(e):
    """Rebuild every node from its (rebuilt) args: SymPy's own automatic evaluation, applied
    until nothing is left to evaluate.  Value-preserving by construction of SymPy."""
    for _ in range(3):
        n = _rebuild(e)
        if n == e:
            return n
        e = n
    return e


def _rebuild(e):
    if not isinstance(e, sp.Basic) or e.is_Atom or not e.args:
        return e
    if isinstance(e, PoolSum):
        return PoolSum(_rebuild(e.args[0]),
                       *[(t[0], tuple(_rebuild(v) for v in t[1])) for t in e.args[1:]])
    return e.func(*[_rebuild(a) for a in e.args])


def same(a, b) -> bool:
    """structural equality, modulo SymPy's automatic evaluation of freshly built nodes"""
    if a == b:
        return True
    try:
        return canon(a) == canon(b)
    except Exception:
        return False


# ---------------------------------------------------------------- JSON -> Gallina
def gal(t) -> str:
    k = t[0]
    if k == "S":
        return f'(Sym "{t[1]}")'
    if k == "N":
        n = int(t[1])
        return f"(Num ({n}) {int(t[2])})"
    if k == "A":
        return "(Add [" + "; ".join(gal(a) for a in t[1]) + "])"
    if k == "M":
        return "(Mul [" + "; ".join(gal(a) for a in t[1]) + "])"
    if k == "P":
        return f"(Pow {gal(t[1])} {gal(t[2])})"
    if k == "F":
        return f'(Fn "{t[1]}" [' + "; ".join(gal(a) for a in t[2]) + "])"
    if k == "PS":
        idx = "; ".join(f'("{n}", [' + "; ".join(gal(v) for v in vals) + "])" for n, vals in t[2])
        return f"(PSum {gal(t[1])} [{idx}])"
    raise ValueError(t)


def ps_depth(e) -> int:
    d = max([ps_depth(a) for a in e.args], default=0)
    return d + 1 if isinstance(e, (PoolSum, SpecSum)) else d


def has_poolsum(e) -> bool:
    return bool(e.atoms(PoolSum)) if isinstance(e, sp.Basic) else False


# ---------------------------------------------------------------- random inputs
def rnd_rational(rng):
    r = rng.random()
    if r < 0.6:
        return sp.Integer(rng.randint(-2, 3))
    return sp.Rational(rng.randint(-5, 5), rng.choice([2, 3]))


def gen_summand(rng, scope, free, depth, nest, budget):
    """random expression over the index symbols in `scope` and the free symbols `free`"""
    r = rng.random()
    if depth <= 0 or r < 0.18:
        r2 = rng.random()
        if scope and r2 < 0.55:
            return sp.Symbol(rng.choice(scope))
        if r2 < 0.85:
            return sp.Symbol(rng.choice(free))
        return rnd_rational(rng)
    if r < 0.42:
        fn = sp.Function(rng.choice(FUNS))
        return fn(*[gen_summand(rng, scope, free, depth - 1, nest, budget) for _ in range(rng.randint(1, 3))])
    if r < 0.58:
        return sp.Add(*[gen_summand(rng, scope, free, depth - 1, nest, budget) for _ in range(rng.randint(2, 3))])
    if r < 0.74:
        return sp.Mul(*[gen_summand(rng, scope, free, depth - 1, nest, budget) for _ in range(rng.randint(2, 3))])
    if r < 0.88 or nest <= 0:
        base = gen_summand(rng, scope, free, depth - 1, nest, budget)
        r3 = rng.random()
        if r3 < 0.6:
            ex = sp.Integer(rng.choice([2, 2, 3]))
        elif r3 < 0.85:
            ex = sp.Symbol(rng.choice((scope or free) + free))
        else:
            ex = sp.Integer(-1)
        return sp.Pow(base, ex)
    return gen_poolsum(rng, scope, free, depth - 1, nest - 1, budget)


def gen_pool(rng, free, symbolic_ok):
    n = rng.choice([1, 1, 2, 2, 3, 3])
    if symbolic_ok and rng.random() < 0.15:
        a = sp.Symbol(rng.choice(free))
        cands = [a, 2 * a, a + 1, a + sp.Symbol(rng.choice(free)), sp.Integer(1), sp.Function("g")(a)]
        return tuple(rng.choice(cands) for _ in range(n))
    vals = [rnd_rational(rng) for _ in range(3)]
    return tuple(rng.choice(vals) for _ in range(n))  # duplicates on purpose


def gen_poolsum(rng, scope, free, depth, nest, budget, n_idx=None, quirks=False):
    """PoolSum with 0..4 indices; `budget` = [remaining number of summand copies]"""
    if n_idx is None:
        n_idx = rng.choice([0, 1, 1, 2, 2, 2, 3, 3, 4])
    names = rng.sample(IDX, n_idx)
    if quirks and n_idx >= 2 and rng.random() < 0.5:
        names[-1] = names[0]  # duplicate index symbol (malformed; model-vs-code only)
    indices = []
    for nm in names:
        pool = gen_pool(rng, [f for f in free if f in FREE] or FREE, symbolic_ok=True)
        while budget[0] // max(len(pool), 1) < 1 and len(pool) > 1:
            pool = pool[:-1]
        budget[0] = max(1, budget[0] // len(pool))
        if quirks and rng.random() < 0.3:
            pool = (*pool[:-1], sp.Symbol(rng.choice(names)) + 1)  # pool mentions an index
        indices.append((sp.Symbol(nm), pool))
    # an index that does not occur in the summand appears with probability ~0.25 per sum
    used = [n for n in names if rng.random() < 0.85]
    inner_scope = list(dict.fromkeys(scope + used))
    body = gen_summand(rng, inner_scope, free, depth, nest, budget)
    return SpecSum(body, *indices)


def gen_builder_nest(rng, budget=48):
    """The shape HelicityAmplitudeBuilder produces: PoolSum(|sum_t PoolSum(W*A, inner..)|^2, outer..)
    with uninterpreted functions in place of WignerD and the amplitude symbols."""
    n_out = rng.randint(1, 3)
    outer = rng.sample(IDX, n_out)
    pools_out = []
    for _ in outer:
        p = gen_pool(rng, FREE, symbolic_ok=False)
        while budget // len(p) < 4 and len(p) > 1:
            p = p[:-1]
        budget //= len(p)
        pools_out.append(p)
    terms = []
    for t in range(rng.randint(1, 2)):
        n_in = rng.randint(0, 2)
        inner = [f"{n}p" for n in rng.sample(outer, min(n_in, len(outer)))]
        W = sp.Function("f")
        A = sp.Function("g" if t == 0 else "h")
        args = [sp.Symbol(n) for n in inner] + [sp.Symbol(n) for n in outer if f"{n}p" not in inner]
        body = A(*args) if args else A(sp.Integer(0))
        for n in inner:
            body = body * W(sp.Symbol(n[:-1]), sp.Symbol(n), sp.Symbol(rng.choice(FREE)))
        b2 = budget
        pin = []
        for _ in inner:
            p = gen_pool(rng, FREE, symbolic_ok=False)
            while b2 // len(p) < 1 and len(p) > 1:
                p = p[:-1]
            b2 = max(1, b2 // len(p))
            pin.append(p)
        terms.append(SpecSum(body, *[(sp.Symbol(n), p) for n, p in zip(inner, pin)]))
    amp = sp.Add(*terms)
    return SpecSum(sp.Function("h")(amp) ** 2, *[(sp.Symbol(n), p) for n, p in zip(outer, pools_out)])


def gen_shadow_nest(rng, level=2, budget=None):
    """Nested sums (depth level+1 >= 3 by default) in which the five index names are used BOTH as free
    symbols of the summands and as binders at random levels: a symbol is free at one level and bound
    deeper (shadowing), or bound in one sibling sum and free in the other."""
    budget = budget if budget is not None else [48]
    names = rng.sample(IDX, rng.choice([1, 1, 2]))
    indices = []
    for nm in names:
        pool = gen_pool(rng, FREE, symbolic_ok=(rng.random() < 0.3))
        while budget[0] // max(len(pool), 1) < 1 and len(pool) > 1:
            pool = pool[:-1]
        budget[0] = max(1, budget[0] // len(pool))
        indices.append((sp.Symbol(nm), pool))
    # summand: every index name may occur, whether or not it is bound here
    own = gen_summand(rng, IDX, FREE, rng.randint(1, 2), 0, budget)
    if level <= 0:
        return SpecSum(own, *indices)
    parts = [own, gen_shadow_nest(rng, level - 1, budget)]
    if rng.random() < 0.4:
        parts.append(gen_shadow_nest(rng, max(level - 1 - rng.randint(0, 1), 0), budget))  # sibling
    r = rng.random()
    if r < 0.4:
        body = sp.Mul(*parts)
    elif r < 0.8:
        body = sp.Add(*parts)
    else:
        body = sp.Function("f")(*parts)
    return SpecSum(body, *indices)


def gen_cancel(rng):
    """cleanup inputs: a singleton pool whose value makes SymPy simplify away every occurrence of ANOTHER,
    multi-valued index that does occur in the summand (i*j with i=0, j**i with i=0, (i-1)*j with i=1, ...)"""
    names = rng.sample(IDX, rng.choice([2, 2, 3]))
    s_name, multi = names[0], names[1:]
    s_sym = sp.Symbol(s_name)
    c = rng.choice([sp.Integer(0), sp.Integer(0), sp.Integer(1), sp.Integer(2), sp.Rational(1, 2)])
    t_inner = gen_summand(rng, multi, FREE, 1, 0, [8])
    victim = sp.Symbol(multi[0])
    t_inner = rng.choice([victim, victim * t_inner, victim + t_inner, sp.Function("g")(victim, t_inner)])
    how = rng.random()
    if how < 0.45:
        term = (s_sym - c) * t_inner                      # factor vanishing at the singleton value
    elif how < 0.75:
        term = sp.Pow(t_inner, s_sym - c)                # exponent vanishing: t**0 = 1
    elif how < 0.9:
        term = sp.Function("f")(sp.Symbol(rng.choice(FREE))) * (s_sym - c) * t_inner * sp.Symbol(rng.choice(FREE))
    else:
        term = (s_sym - c) ** 2 * t_inner + (s_sym - c) * victim
    others = [m for m in multi[1:] if rng.random() < 0.7]
    rest = gen_summand(rng, others + ([s_name] if rng.random() < 0.5 else []), FREE, 1, 0, [8])
    body = term + rest
    indices = [(s_sym, (c,))]
    for m in multi:
        pool = gen_pool(rng, FREE, symbolic_ok=False)
        if len(pool) < 2:
            pool = pool + (rnd_rational(rng),)
        indices.append((sp.Symbol(m), pool))
    rng.shuffle(indices)
    return SpecSum(body, *indices)
