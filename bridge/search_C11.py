"""C11 numeric harness on the IMPLEMENTATION: the five phase-space-factor classes and
BreakupMomentumSquared through doit()+lambdify (NumPy; complex and real input dtype) and, for a
subset, through SymPy's own evaluation of the doit() tree at exact rationals (evalf, 40 digits).
The identities are written here from the property text; the oracle for 2*sqrt(q^2)/sqrt(s) is
mpmath at 50 digits on the exact rational inputs.

Every input is an exactly representable double, stored as "p/q", so a case replays bit for bit.

usage: search_C11.py <seed> <n>            -> JSON {evaluations, distinct, samples, kinds, failures}
       search_C11.py --replay <json-file>  -> JSON {still_fails: bool}
"""
import json
import math
import random
import sys
from fractions import Fraction as F

import common  # noqa: F401
import mpmath as mp
import numpy as np
import sympy as sp

common.assert_repo_import()
from ampform.dynamics.phasespace import (  # noqa: E402
    BreakupMomentumSquared,
    EqualMassPhaseSpaceFactor,
    PhaseSpaceFactor,
    PhaseSpaceFactorAbs,
    PhaseSpaceFactorComplex,
    PhaseSpaceFactorSWave,
)

mp.mp.dps = 50
EPS = 2.0**-52
CLASSES = {
    "q2": BreakupMomentumSquared,
    "PhaseSpaceFactor": PhaseSpaceFactor,
    "PhaseSpaceFactorAbs": PhaseSpaceFactorAbs,
    "PhaseSpaceFactorComplex": PhaseSpaceFactorComplex,
    "PhaseSpaceFactorSWave": PhaseSpaceFactorSWave,
    "EqualMassPhaseSpaceFactor": EqualMassPhaseSpaceFactor,
}
S, M1, M2, M = sp.symbols("s m1 m2 m")
EXPR = {k: c(S, M1, M2).doit() for k, c in CLASSES.items()}
FUN = {k: sp.lambdify((S, M1, M2), e, "numpy") for k, e in EXPR.items()}
# the (s, m, m) trees (what symgen calls gen_*_eq)
EXPR_EQ = {k: CLASSES[k](S, M, M).doit() for k in ("PhaseSpaceFactorSWave", "EqualMassPhaseSpaceFactor")}
FUN_EQ = {k: sp.lambdify((S, M), e, "numpy") for k, e in EXPR_EQ.items()}


# pure-Python backend (lambdify modules="math"): ComplexSqrt has its own printer for it
MATH_KEYS = ("q2", "PhaseSpaceFactor", "PhaseSpaceFactorAbs", "PhaseSpaceFactorComplex", "EqualMassPhaseSpaceFactor")
FUN_MATH = {k: sp.lambdify((S, M1, M2), EXPR[k], "math") for k in MATH_KEYS}
FUN_MATH_MM = {k: sp.lambdify((S, M), CLASSES[k](S, M, M).doit(), "math") for k in MATH_KEYS}
_A, _B, _X = sp.symbols("a b x")
from ampform.sympy.math import ComplexSqrt  # noqa: E402

CSQRT_MATH = {  # form -> (function of (a, b), exact argument as a function of (a, b))
    "symbol": (lambda a, b, f=sp.lambdify((_X,), ComplexSqrt(_X), "math"): f(a), lambda a, b: a),
    "sum": (sp.lambdify((_A, _B), ComplexSqrt(_A + _B), "math"), lambda a, b: a + b),
    "difference": (sp.lambdify((_A, _B), ComplexSqrt(_A - _B), "math"), lambda a, b: a - b),
    "product": (sp.lambdify((_A, _B), ComplexSqrt(_A * _B), "math"), lambda a, b: a * b),
}


def arg_kinds(vals):
    """the ways a real number reaches a math-backend function: float, numpy.float64, int (if integral)."""
    out = [("float", tuple(float(v) for v in vals)), ("np.float64", tuple(np.float64(float(v)) for v in vals))]
    if all(F(v).denominator == 1 for v in vals):
        out.append(("int", tuple(int(v) for v in vals)))
    return out


def check_math(case, s, m1, m2, reg, val, tol):
    """math backend vs the (already checked) NumPy values; ComplexSqrt's printed code on its own."""
    fails, nev = [], 0
    thr = (m1 + m2) ** 2
    at_edge = reg in ("at_threshold", "at_pseudothreshold")

    def usable(k):
        if k == "PhaseSpaceFactor":
            return reg == "above"           # math.sqrt of a negative number raises below threshold
        if k == "PhaseSpaceFactorComplex":
            return s > 0                    # 1/math.sqrt(s)
        return True

    def compare(sig, k, f, vals):
        nonlocal nev
        ref = val[k]
        if not (math.isfinite(ref.real) and math.isfinite(ref.imag)):
            return
        tk = max(tol, 64 * EPS * amp_for(k, s, m1, m2))
        if tk >= MEANINGLESS:
            return
        for kind, args in arg_kinds(vals):
            nev += 1
            try:
                v = complex(f(*args))
            except (ValueError, ZeroDivisionError, OverflowError, TypeError) as exc:
                if at_edge:
                    continue  # 1/0.0 raises in pure Python where IEEE gives inf: reported by the notes
                fails.append((f"{sig}_raises:{k}:{reg}", f"math backend ({kind} args) raised {exc!r}; numpy gives {ref} at {case}"))
                continue
            if not close(v, ref, tk, 64 * EPS):
                fails.append((f"{sig}:{k}:{reg}", f"math backend ({kind} args) gives {v}, numpy backend {ref} at {case}"))

    # ComplexSqrt alone, its printed code on a symbol / sum / difference / product
    d = s - thr  # negative below threshold, zero at it, positive above
    region = "neg" if d < 0 else ("zero" if d == 0 else "pos")
    pairs = {"symbol": (d, F(0)), "sum": (s, -thr), "difference": (s, thr), "product": (d, F(1, 4))}
    for form in ("symbol", "product", "sum", "difference"):
        f, argf = CSQRT_MATH[form]
        a, b = pairs[form]
        exact = argf(a, b)
        if F(float(a)) != a or F(float(b)) != b or F(float(exact)) != exact:
            continue  # keep the comparison free of input rounding
        x = float(exact)
        want = complex(0.0, math.sqrt(-x)) if x < 0 else complex(math.sqrt(x), 0.0)
        for kind, args in arg_kinds((a, b)):
            nev += 1
            try:
                v = complex(f(*args))
            except (ValueError, TypeError) as exc:
                fails.append((f"pycode_csqrt_raises:{form}:{region}", f"lambdify(ComplexSqrt({form}), 'math')({args[0]!r}, {args[1]!r}) [{kind}] raised {exc!r}, expected {want} at {case}"))
                continue
            if not close(v, want, 8 * EPS, 0.0) and not (v == want):
                fails.append((f"pycode_csqrt:{form}:{region}", f"lambdify(ComplexSqrt({form}), 'math')({args[0]!r}, {args[1]!r}) [{kind}] = {v}, expected {want} at {case}"))
    # the phase-space classes: three-argument trees first, then the (s, m, m) trees
    for k in MATH_KEYS:
        if usable(k):
            compare("math_backend", k, FUN_MATH[k], (s, m1, m2))
    if m1 == m2:
        for k in MATH_KEYS:
            if usable(k):
                compare("math_backend_mmtree", k, FUN_MATH_MM[k], (s, m1))
    return fails, nev


# keyword constructions (any order, with/without name=, leading positional argument): each must be
# the same function as the positional construction.  Identical expressions share one lambdified
# function, so on a tree where the constructions agree structurally nothing extra is evaluated.
def _kw_constructions():
    import itertools
    vals = {"s": S, "m1": M1, "m2": M2}
    for perm in itertools.permutations(("s", "m1", "m2")):
        yield ",".join(perm), (), [(k, vals[k]) for k in perm]
        for pos in range(4):
            order = list(perm)
            order.insert(pos, "name")
            yield ",".join(order), (), [(k, vals.get(k, "f")) for k in order]
    for perm in itertools.permutations(("m1", "m2")):
        yield "s;" + ",".join(perm), (S,), [(k, vals[k]) for k in perm]
        yield "s;name," + ",".join(perm), (S,), [("name", "f"), *[(k, vals[k]) for k in perm]]
    yield "s,m1;name,m2", (S, M1), [("name", "f"), ("m2", M2)]


KW_VARIANTS = {}  # class key -> list of (label, lambdified function) for expressions that differ from EXPR[k]
KW_COUNT = 0
for _k, _cls in CLASSES.items():
    _seen = {}
    for _label, _prefix, _kw in _kw_constructions():
        KW_COUNT += 1
        try:
            _e = _cls(*_prefix, **dict(_kw)).doit()
        except Exception as _exc:  # noqa: BLE001
            KW_VARIANTS.setdefault(_k, []).append((f"{_label} (raised {_exc!r})", None))
            continue
        if _e == EXPR[_k] or _e in _seen:
            continue
        _seen[_e] = True
        KW_VARIANTS.setdefault(_k, []).append((_label, sp.lambdify((S, M1, M2), _e, "numpy")))


def check_keyword(case, sf, m1f, m2f, val, tol):
    fails, nev = [], 0
    for k, variants in KW_VARIANTS.items():
        for label, f in variants:
            nev += 1
            ref = val[k]
            if f is None:
                fails.append((f"keyword_construction:{k}", f"{k}({label}) could not be built at {case}"))
                continue
            if not (math.isfinite(ref.real) and math.isfinite(ref.imag)):
                continue
            with np.errstate(all="ignore"):
                v = complex(np.asarray(f(np.array([complex(sf)]), m1f, m2f)).reshape(-1)[0])
            if not close(v, ref, max(tol, 1e-9), 64 * EPS):
                fails.append((f"keyword_construction:{k}", f"{k} built with keywords in call order ({label}) evaluates to {v}, the positional construction to {ref} at {case}"))
    return fails, nev


def fr(x: float) -> str:
    f = F(x)
    return f"{f.numerator}/{f.denominator}"


def pf(t: str) -> F:
    return F(t)


def np_eval(name, s, m1, m2, cdtype=True):
    a = np.array([complex(s) if cdtype else float(s)])
    with np.errstate(all="ignore"):
        v = FUN[name](a, float(m1), float(m2))
    v = np.asarray(v).reshape(-1)[0]
    return complex(v)


def np_eval_eq(name, s, m, cdtype=True):
    a = np.array([complex(s) if cdtype else float(s)])
    with np.errstate(all="ignore"):
        v = FUN_EQ[name](a, float(m))
    return complex(np.asarray(v).reshape(-1)[0])


def sym_eval(name, s: F, m1: F, m2: F):
    """SymPy's evaluation of the implementation's doit() tree at exact rationals."""
    # exact dyadic inputs as 120-digit Floats (exactly representable; Rational inputs make SymPy
    # factor 40-digit integers inside sqrt, which is slow and trips a SymPy factor-cache bug)
    def fl(x: F):
        return sp.Float(sp.Rational(x.numerator, x.denominator), 120)

    e = EXPR[name].xreplace({S: fl(s), M1: fl(m1), M2: fl(m2)})
    try:
        v = sp.N(e, 60)
    except Exception:  # noqa: BLE001
        return None
    if v.has(sp.nan) or v.has(sp.zoo) or v.has(sp.oo):
        return None
    re, im = v.as_real_imag()
    return mp.mpc(mp.mpf(str(re)), mp.mpf(str(im)))


def oracle_q2(s: F, m1: F, m2: F) -> F:
    return (s - (m1 + m2) ** 2) * (s - (m1 - m2) ** 2) / (4 * s)


def oracle_rho(s: F, m1: F, m2: F):
    q2 = oracle_q2(s, m1, m2)
    return 2 * mp.sqrt(mp.mpf(q2.numerator) / q2.denominator) / mp.sqrt(mp.mpf(s.numerator) / s.denominator)


def cond(s: F, m1: F, m2: F) -> float:
    """amplification of the input rounding by the cancellations in (s-thr)(s-pthr)/s."""
    thr, pthr = (m1 + m2) ** 2, (m1 - m2) ** 2
    a = abs(s)
    c = 4.0
    if s != thr:
        c += float((a + thr) / abs(s - thr))
    if s != pthr:
        c += float((a + pthr) / abs(s - pthr))
    return c


def amp_for(k: str, s: F, m1: F, m2: F) -> float:
    """round-off amplification of class k's formula in double precision (see the module notes):
    SWave's log argument (m1^2+m2^2-s+2 sqrt(s) q)/(2 m1 m2) cancels like (s/(m1 m2))^2 for large
    |s| and the small log is divided by sqrt|s| for small |s|; EqualMass's 1-rho cancels like
    |s|/thr for large |s| and its small log is multiplied by rho-hat ~ 1/sqrt|s| for small |s|."""
    c = cond(s, m1, m2)
    thr = (m1 + m2) ** 2
    x = float(abs(s) / (m1 * m2))
    if k == "PhaseSpaceFactorSWave":
        # unequal masses, small |s|: the two O(1/s) terms (m1^2-m2^2) log(m1/m2)/s and the q/sqrt(s) log
        # term cancel to an O(1) result
        small_s = float(abs(m1**2 - m2**2) / abs(s)) * abs(math.log(float(m1 / m2))) if m1 != m2 else 0.0
        return c + (1.0 + x) ** 2 + 4.0 / math.sqrt(x) + 4.0 * small_s
    if k == "EqualMassPhaseSpaceFactor":
        return c + 4.0 * float(abs(s) / thr) + 4.0 * math.sqrt(float(thr / abs(s)))
    return c


MEANINGLESS = 1e-3  # relative tolerance above which a double-precision comparison says nothing


def regime(s: F, m1: F, m2: F) -> str:
    thr, pthr = (m1 + m2) ** 2, (m1 - m2) ** 2
    if s < 0:
        return "negative"
    if s == thr:
        return "at_threshold"
    if s == pthr:
        return "at_pseudothreshold"
    if s < pthr:
        return "below_pseudo"
    if s < thr:
        return "gap"
    return "above"


def close(a, b, tol_rel, tol_abs=0.0):
    a, b = complex(a), complex(b)
    if not (math.isfinite(a.real) and math.isfinite(a.imag) and math.isfinite(b.real) and math.isfinite(b.imag)):
        return False
    return abs(a - b) <= tol_abs + tol_rel * max(abs(a), abs(b))


def check_case(case: dict, deep: bool):
    """-> (list of (signature, what), n_evaluations, nontrivial: bool, notes)"""
    s, m1, m2 = pf(case["s"]), pf(case["m1"]), pf(case["m2"])
    thr, pthr = (m1 + m2) ** 2, (m1 - m2) ** 2
    reg = regime(s, m1, m2)
    c = cond(s, m1, m2)
    tol = 64 * EPS * c
    fails, notes = [], []
    nev = 0
    sf, m1f, m2f = float(s), float(m1), float(m2)
    val = {k: np_eval(k, sf, m1f, m2f, True) for k in FUN}
    nev += len(FUN)
    nontrivial = all(math.isfinite(v.real) and math.isfinite(v.imag) for v in val.values())

    # 1. q^2: value, symmetry, zeros
    q2o = float(oracle_q2(s, m1, m2))
    if not close(val["q2"], q2o, tol, 0.0):
        fails.append(("q2_value", f"q2({case})={val['q2']} expected {q2o}"))
    swapped = np_eval("q2", sf, m2f, m1f, True)
    nev += 1
    if not close(val["q2"], swapped, 8 * EPS, 0.0):
        fails.append(("q2_symmetric", f"q2(s,m1,m2)={val['q2']} != q2(s,m2,m1)={swapped} at {case}"))
    if reg in ("at_threshold", "at_pseudothreshold"):
        if abs(val["q2"]) > 64 * EPS * float(abs(s) + thr):
            sig = "q2_zero_threshold" if reg == "at_threshold" else "q2_zero_pseudothreshold"
            fails.append((sig, f"q2={val['q2']} at s={case['s']} ({reg}), {case}"))

    # 2. above threshold
    if reg == "above":
        rho = complex(oracle_rho(s, m1, m2))
        for k in ("PhaseSpaceFactor", "PhaseSpaceFactorAbs", "PhaseSpaceFactorComplex",
                  "PhaseSpaceFactorSWave", "EqualMassPhaseSpaceFactor"):
            tk = max(tol, 64 * EPS * amp_for(k, s, m1, m2))
            if k == "PhaseSpaceFactorSWave" and tk >= MEANINGLESS:
                # the sign of the (cancelling) log argument decides Re: the stated tolerance allows
                # anything, but nan / a real part that is grossly off is a total loss, not round-off:
                # reported under its own signature (a floating-point finding, not an exact-math one)
                v = val[k]
                if not (math.isfinite(v.real) and math.isfinite(v.imag)) or abs(v.real - rho.real) > 1e-6 * abs(rho.real):
                    fails.append(("swave_fp_breakdown_asymptotic",
                                  f"lambdified PhaseSpaceFactorSWave={v} but exact Re=2q/sqrt(s)={rho.real!r} "
                                  f"(log argument m1^2+m2^2-s+2 sqrt(s) q cancels completely in doubles) at {case}"))
                notes.append(f"double_precision_meaningless:{k} e.g. Re={val[k].real!r} (exact {rho.real!r}) at s={sf!r} m1={m1f!r} m2={m2f!r}")
                continue
            if not close(val[k].real, rho.real, tol, 0.0):
                fails.append((f"re_above:{k}", f"Re {k}={val[k].real!r} expected 2q/sqrt(s)={rho.real!r} at {case}"))
            vr = np_eval(k, sf, m1f, m2f, False)  # real input dtype must work above threshold
            nev += 1
            if tk < MEANINGLESS and not close(vr, val[k], tk, 0.0):
                fails.append((f"dtype_above:{k}", f"{k} real-dtype {vr} vs complex-dtype {val[k]} at {case}"))
        for k in ("PhaseSpaceFactor", "PhaseSpaceFactorAbs", "PhaseSpaceFactorComplex"):
            if val[k].imag != 0.0:
                fails.append((f"im_zero_above:{k}", f"Im {k}={val[k].imag!r} at {case}"))

    # 3. between pseudo-threshold and threshold
    if reg == "gap":
        a, b = val["PhaseSpaceFactorComplex"], 1j * val["PhaseSpaceFactorAbs"]
        if not close(a, b, tol, 0.0):
            fails.append(("complex_is_i_abs", f"Complex={a} vs i*Abs={b} at {case}"))
        ar = np_eval("PhaseSpaceFactorComplex", sf, m1f, m2f, False)
        nev += 1
        if not close(ar, a, 16 * EPS, 0.0):
            fails.append(("dtype_gap:PhaseSpaceFactorComplex", f"real-dtype {ar} vs complex-dtype {a} at {case}"))

    # 4./5. equal masses: EqualMass == SWave everywhere; both -> 0 at threshold
    if m1 == m2 and s != 0:
        m = m1
        e, w = val["EqualMassPhaseSpaceFactor"], val["PhaseSpaceFactorSWave"]
        tol_eq = 64 * EPS * max(amp_for("PhaseSpaceFactorSWave", s, m1, m2),
                                amp_for("EqualMassPhaseSpaceFactor", s, m1, m2))
        if reg != "at_threshold":
            if tol_eq < MEANINGLESS:
                if not close(e, w, tol_eq, 64 * EPS):
                    fails.append((f"equalmass_eq_swave:{reg}", f"EqualMass={e} vs SWave={w} at {case}"))
                e2 = np_eval_eq("EqualMassPhaseSpaceFactor", sf, float(m))
                w2 = np_eval_eq("PhaseSpaceFactorSWave", sf, float(m))
                nev += 2
                if not close(e2, w2, tol_eq, 64 * EPS):
                    fails.append((f"equalmass_eq_swave_mmtree:{reg}", f"(s,m,m) trees: EqualMass={e2} vs SWave={w2} at {case}"))
                if not close(e2, e, tol_eq, 64 * EPS):
                    fails.append((f"equalmass_tree_vs_general:{reg}", f"EqualMass(s,m,m)={e2} vs (s,m1,m2)|m1=m2={e} at {case}"))
            else:
                notes.append(f"double_precision_meaningless:equalmass_eq_swave e.g. EqualMass={e} SWave={w} at s={sf!r} m={m1f!r}")
            # bound proved in C11_continuous_at_threshold's lemma: |f| <= 2 sqrt|s-4m^2|/m near threshold
            d = abs(s - 4 * m**2)
            if d < m**2 / 4:
                bound = 2 * math.sqrt(float(d)) / float(m)
                for k, v in (("EqualMassPhaseSpaceFactor", e), ("PhaseSpaceFactorSWave", w)):
                    if not (abs(v) <= bound * (1 + 1e-9) + 64 * EPS):
                        fails.append((f"threshold_bound:{k}", f"|{k}|={abs(v)!r} > 2 sqrt|s-4m^2|/m={bound!r} at {case}"))
            ve = np_eval("EqualMassPhaseSpaceFactor", sf, m1f, m2f, False)  # real dtype is meant to work
            nev += 1
            if not close(ve, e, 64 * EPS * amp_for("EqualMassPhaseSpaceFactor", s, m1, m2), 0.0):
                fails.append(("dtype:EqualMassPhaseSpaceFactor", f"real-dtype {ve} vs complex-dtype {e} at {case}"))
        else:
            notes.append(f"at_threshold_numpy EqualMass={e} SWave={w}")
            for k, v in (("EqualMassPhaseSpaceFactor", e), ("PhaseSpaceFactorSWave", w)):
                if not (abs(v) <= 1e-7):  # nan or a jump: contradicts continuity
                    fails.append((f"threshold_value:{k}", f"{k} at exactly s=4m^2 gives {v} (limit is 0) at {case}"))

    # keyword constructions
    kf, kn = check_keyword(case, sf, m1f, m2f, val, tol)
    fails += kf
    nev += kn

    # real input dtype (the way data normally arrives): Python float, numpy.float64 scalar, float64
    # array.  Wherever the exact model is defined and NumPy's real sqrt is not asked for the root of
    # a negative number by the formula AS STATED (PhaseSpaceFactor: q^2 >= 0 and s > 0; Complex and
    # SWave: s > 0; q2, Abs, EqualMass: every s != 0) the result must be finite and equal to the
    # complex-dtype value; nan/inf there is a failure, not "undefined".
    if s != 0:
        q2_exact = oracle_q2(s, m1, m2)
        real_ok = {
            "q2": True, "PhaseSpaceFactorAbs": True, "EqualMassPhaseSpaceFactor": True,
            "PhaseSpaceFactor": s > 0 and q2_exact >= 0,
            "PhaseSpaceFactorComplex": s > 0, "PhaseSpaceFactorSWave": s > 0,
        }
        for k in FUN:
            ref = val[k]
            if not real_ok[k] or not (math.isfinite(ref.real) and math.isfinite(ref.imag)):
                continue
            tk = max(tol, 64 * EPS * amp_for(k, s, m1, m2))
            if tk >= MEANINGLESS:
                continue
            for kind, arg in (("float", sf), ("np.float64", np.float64(sf)), ("float64 array", np.array([sf]))):
                nev += 1
                with np.errstate(all="ignore"):
                    try:
                        v = complex(np.asarray(FUN[k](arg, m1f, m2f)).reshape(-1)[0])
                    except Exception as exc:  # noqa: BLE001
                        fails.append((f"real_dtype_raises:{k}:{reg}", f"{k} with {kind} s raised {exc!r}; complex dtype gives {ref} at {case}"))
                        continue
                if not close(v, ref, tk, 64 * EPS):
                    fails.append((f"real_dtype:{k}:{reg}", f"{k} with {kind} s gives {v}, with complex dtype {ref} at {case}"))

    # pure-Python backend, float / numpy.float64 / int arguments
    if s != 0:
        mf, mn = check_math(case, s, m1, m2, reg, val, tol)
        fails += mf
        nev += mn

    # SymPy evaluation of the same trees at the exact rationals (precision-tracking: covers the
    # regimes where double precision says nothing, e.g. s = 1e8 m^2)
    if deep and s != 0:
        sv = {k: sym_eval(k, s, m1, m2) for k in EXPR}
        nev += len(EXPR)
        t40 = mp.mpf(10) ** -30
        if sv["q2"] is not None and abs(sv["q2"] - mp.mpf(oracle_q2(s, m1, m2).numerator) / oracle_q2(s, m1, m2).denominator) > t40 * (1 + abs(sv["q2"])):
            fails.append(("sympy:q2_value", f"sympy q2={sv['q2']} at {case}"))
        if reg == "above":
            rho = oracle_rho(s, m1, m2)
            for k in ("PhaseSpaceFactor", "PhaseSpaceFactorAbs", "PhaseSpaceFactorComplex",
                      "PhaseSpaceFactorSWave", "EqualMassPhaseSpaceFactor"):
                if sv[k] is None or abs(sv[k].real - rho) > t40 * (1 + abs(rho)):
                    fails.append((f"sympy:re_above:{k}", f"sympy Re {k}={sv[k]} expected {rho} at {case}"))
        if reg == "gap":
            a, b = sv["PhaseSpaceFactorComplex"], sv["PhaseSpaceFactorAbs"]
            if a is None or b is None or abs(a - mp.mpc(0, 1) * b) > t40 * (1 + abs(a)):
                fails.append(("sympy:complex_is_i_abs", f"sympy Complex={a} vs Abs={b} at {case}"))
        if m1 == m2 and reg != "at_threshold":
            a, b = sv["EqualMassPhaseSpaceFactor"], sv["PhaseSpaceFactorSWave"]
            if a is None or b is None or abs(a - b) > t40 * (1 + abs(a)):
                fails.append((f"sympy:equalmass_eq_swave:{reg}", f"sympy EqualMass={a} vs SWave={b} at {case}"))
        if m1 == m2 and reg == "at_threshold":
            notes.append(f"at_threshold_sympy EqualMass={sv['EqualMassPhaseSpaceFactor']} SWave={sv['PhaseSpaceFactorSWave']}")
        # NumPy code vs SymPy value of the same tree (where double precision is meaningful)
        for k in EXPR:
            if sv[k] is None:
                continue
            if k == "PhaseSpaceFactor" and reg != "above":
                continue  # sqrt of a negative number: sign of zero decides the branch, not claimed
            if k in ("EqualMassPhaseSpaceFactor", "PhaseSpaceFactorSWave") and m1 != m2 and reg != "above":
                continue  # unequal masses below threshold: not claimed by the property
            if k == "PhaseSpaceFactorComplex" and s < 0:
                continue
            amp = amp_for(k, s, m1, m2)
            if 64 * EPS * amp < MEANINGLESS and not close(val[k], complex(sv[k]), 64 * EPS * amp, 64 * EPS):
                fails.append((f"numpy_vs_sympy:{k}", f"lambdified {k}={val[k]} vs sympy {complex(sv[k])} at {case}"))
    return fails, nev, nontrivial, notes


# ---------------------------------------------------------------------------------------------
def dyadic(rng, lo_exp, hi_exp, bits=10):
    """random positive dyadic rational k/2^j with `bits` significant bits (squares are exact)."""
    k = rng.randint(2 ** (bits - 1), 2**bits - 1)
    e = rng.randint(lo_exp, hi_exp)
    return F(k, 2**bits) * F(2) ** e


def to_double(x: F) -> F:
    return F(float(x))


def gen_cases(rng, n):
    cases = []
    kinds = {}

    def add(kind, s, m1, m2):
        s = to_double(s)
        if s == 0:
            return
        cases.append({"kind": kind, "s": fr(float(s)), "m1": fr(float(m1)), "m2": fr(float(m2))})
        kinds[kind] = kinds.get(kind, 0) + 1

    while len(cases) < n:
        mk = rng.choice(["equal", "equal", "near", "unequal", "very_unequal"])
        m1 = dyadic(rng, -3, 2)
        if mk == "equal":
            m2 = m1
        elif mk == "near":
            m2 = m1 * F(rng.randint(900, 1100), 1024)
        elif mk == "unequal":
            m2 = dyadic(rng, -3, 2)
        else:
            m2 = m1 * F(1, 2 ** rng.randint(8, 20))
        if rng.random() < 0.5:
            m1, m2 = m2, m1
        m1, m2 = to_double(m1), to_double(m2)
        thr, pthr = (m1 + m2) ** 2, (m1 - m2) ** 2
        exact_thr = to_double(thr) == thr
        u = F(rng.randint(1, 2**20), 2**20)  # (0,1]
        add(mk + ":negative", -thr * F(10) ** rng.randint(-3, 3) * u, m1, m2)
        add(mk + ":above", thr * (1 + F(10) ** rng.randint(-3, 3) * u), m1, m2)
        add(mk + ":above_1e-8", thr * (1 + F(1, 10**8) * (1 + u)), m1, m2)
        add(mk + ":below_1e-8", thr * (1 - F(1, 10**8) * (1 + u)), m1, m2)
        add(mk + ":asymptotic", thr * 10**8 * (1 + u), m1, m2)
        add(mk + ":tiny_positive", thr * F(1, 10**8) * u, m1, m2)
        if pthr > 0:
            add(mk + ":gap", pthr + (thr - pthr) * u * F(999, 1000), m1, m2)
            add(mk + ":below_pseudo", pthr * u * F(999, 1000), m1, m2)
            add(mk + ":pseudo_1e-8", pthr * (1 + F(1, 10**8) * (1 + u)), m1, m2)
            if to_double(pthr) == pthr:
                add(mk + ":at_pseudothreshold", pthr, m1, m2)
        else:
            add(mk + ":mid", thr * u * F(999, 1000), m1, m2)
            for k in (rng.randint(10, 25), rng.randint(26, 45)):
                add(mk + ":threshold_approach", thr * (1 + F(1, 2**k)), m1, m2)
                add(mk + ":threshold_approach", thr * (1 - F(1, 2**k)), m1, m2)
        if exact_thr:
            add(mk + ":at_threshold", thr, m1, m2)
    return cases[:n], kinds


def main():
    if sys.argv[1] == "--replay":
        doc = json.load(open(sys.argv[2]))
        case = doc["replay"]["case"]
        fails, _, _, _ = check_case(case, True)
        sig = doc.get("signature")
        hit = [f for f in fails if f[0] == sig] if sig else fails  # the stored identity only
        print(json.dumps({"still_fails": bool(hit), "fails": [list(f) for f in hit[:5]]}))
        return
    seed, n = int(sys.argv[1]), int(sys.argv[2])
    rng = random.Random(1100 + seed)
    cases, kinds = gen_cases(rng, n)
    deep_every = 6
    fixed = [  # fixed points, always present: the Example of C11.v and exact thresholds
        {"kind": "fixed", "s": "2/1", "m1": fr(0.3), "m2": fr(0.5)},
        {"kind": "fixed", "s": "1/1", "m1": "1/2", "m2": "1/2"},
        {"kind": "fixed", "s": "1/2", "m1": "1/2", "m2": "1/2"},
        {"kind": "fixed", "s": "-1/1", "m1": "1/2", "m2": "1/2"},
        {"kind": "fixed", "s": "2/1", "m1": "1/2", "m2": "1/2"},
        {"kind": "fixed", "s": "9/16", "m1": "1/2", "m2": "1/4"},
        {"kind": "fixed", "s": "1/16", "m1": "1/2", "m2": "1/4"},
        {"kind": "fixed", "s": "1/4", "m1": "1/2", "m2": "1/4"},
        # integer arguments for the math backend: gap / above / negative / at threshold
        {"kind": "fixed", "s": "3/1", "m1": "1/1", "m2": "1/1"},
        {"kind": "fixed", "s": "5/1", "m1": "1/1", "m2": "1/1"},
        {"kind": "fixed", "s": "-2/1", "m1": "1/1", "m2": "1/1"},
        {"kind": "fixed", "s": "4/1", "m1": "1/1", "m2": "1/1"},
        {"kind": "fixed", "s": "5/1", "m1": "1/1", "m2": "2/1"},
        {"kind": "fixed", "s": "10/1", "m1": "1/1", "m2": "2/1"},
        # regression (fixed defect): ComplexSqrt._pythoncode printed sqrt(-a + b) for ComplexSqrt(a + b);
        # lambdify(PhaseSpaceFactorComplex(s,m,m).doit(), "math")(0.5, 0.5) gave 1.732j instead of 1j
        {"kind": "fixed:regression_pycode_precedence", "s": "1/2", "m1": "1/2", "m2": "1/2"},
        {"kind": "fixed:regression_pycode_precedence", "s": "9/10", "m1": "1/2", "m2": "1/2"},
    ]
    kinds["fixed"] = len(fixed)
    cases = fixed + cases
    failures, seen_sig, samples, distinct = [], set(), [], set()
    evaluations = 0
    notes = {}
    for i, c in enumerate(cases):
        deep = (i % deep_every == 0) or c["kind"].endswith("asymptotic") or c["kind"].startswith("fixed")
        fails, nev, nontrivial, nts = check_case(c, deep)
        evaluations += nev
        if nontrivial:
            distinct.add((c["s"], c["m1"], c["m2"]))
        for t in nts:
            key = t.split(" ")[0]
            notes.setdefault(key, [0, t])[0] += 1
        if len(samples) < 8 and i % max(1, len(cases) // 8) == 0:
            samples.append({"case": c, "deep": deep})
        for sig, what in fails:
            if sig not in seen_sig:
                seen_sig.add(sig)
                failures.append({"signature": sig, "what": what, "case": c})
    kinds["keyword_constructions_compared_structurally"] = KW_COUNT
    print(json.dumps({"evaluations": evaluations, "distinct": len(distinct), "samples": samples,
                      "kinds": kinds, "notes": {k: {"count": v[0], "example": v[1]} for k, v in notes.items()},
                      "failures": failures}))


if __name__ == "__main__":
    main()
