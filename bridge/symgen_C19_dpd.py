"""C19 model regeneration, builder side: formulate DalitzPlotDecomposition models of the CURRENT /repo over
reactions x thinnings (one subsystem with a resonance) x reference subsystems x option sets and serialise
  dpd_mass_defs   : every mass kinematic variable m_S the model defines, as (config id, digits of S, tree)
  dpd_mass_params : every mass parameter default, as (config id, digits, value, mass of the particle it names)
Coq checks by computation that each tree is InvariantMass(ArraySum(p_i ...)) over exactly the momenta named in S
and that each default is the particle's mass (Gen_C19_dpd.v; lemmas in C19_lemmas3.v)."""
import fractions
import re
import sys

import common  # noqa: F401
import modelgen
import reactions
import sympy as sp
from ser import coq_string, ser

common.assert_repo_import()
out = sys.argv[1]
OPTS = [("default", False, None), ("both_some", True, [1, 3]), ("scalar_m0", True, None), ("stable_all", False, [1, 2, 3])]


def groups(name):
    g = {}
    for i, t in enumerate(reactions.load(name).transitions):
        g.setdefault(t.topology, []).append(i)
    return [sorted(v) for v in g.values()]


def q(v):
    f = fractions.Fraction(float(v))
    return f"(({f.numerator}) # {f.denominator})"


defs, pars, n = [], [], 0
for name in ("jpsi_ksp_hel", "lc_pkpi_hel"):
    for keep in [None] + groups(name):
        for ref in (1, 2, 3):
            for tag, scalar, stable in (OPTS[n % 2], OPTS[2 + n % 2]) if keep is None else (OPTS[n % 4],):
                cfg = {"reaction": name, "keep": keep, "align": f"dpd{ref}", "scalar_m0": scalar, "stable": stable,
                       "couplings": False, "dyn": "none"}
                reaction, _b, model = modelgen.build(cfg)
                ident = coq_string(f"{name}/keep={'all' if keep is None else len(keep)}/dpd{ref}/{tag}")
                m0 = next(iter(reaction.initial_state.values())).mass
                for sym, expr in model.kinematic_variables.items():
                    mm = re.match(r"m_(\d+)$", sym.name)
                    if mm:
                        digits = "; ".join(f"{d}%nat" for d in mm.group(1))
                        defs.append(f"({ident}, [{digits}], {ser(expr)})")
                for sym, val in model.parameter_defaults.items():
                    mm = re.match(r"m_(\d+)$", sym.name) if isinstance(sym, sp.Symbol) else None
                    if mm:
                        d = mm.group(1)
                        want = m0 if d in ("0", "123") else reaction.final_state[int(d)].mass if len(d) == 1 else -1
                        digits = "; ".join(f"{c}%nat" for c in d)
                        pars.append(f"({ident}, [{digits}], {q(val)}, {q(want)})")
            n += 1
with open(out, "w") as f:
    f.write("(* GENERATED on every run from /repo's working tree by bridge/symgen_C19_dpd.py — do not edit. *)\n"
            "From AV Require Import Ast.\nOpen Scope string_scope.\n\n")
    f.write("Definition dpd_mass_defs : list (string * list nat * expr) := [\n  " + ";\n  ".join(defs) + "].\n\n")
    f.write("Definition dpd_mass_params : list (string * list nat * Q * Q) := [\n  " + ";\n  ".join(pars) + "].\n")
print("ok", {"mass_defs": len(defs), "mass_params": len(pars), "models": n})
