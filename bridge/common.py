"""Shared preamble for every bridge script: forces /repo/src, silences noise."""
from __future__ import annotations

import logging
import os
import sys
import warnings

REPO = os.environ.get("VERIF_REPO", "/repo")
sys.path.insert(0, os.path.join(REPO, "src"))
sys.path.insert(0, os.path.dirname(os.path.abspath(__file__)))
warnings.filterwarnings("ignore")
logging.disable(logging.CRITICAL)
try:
    import numpy as np

    np.seterr(all="ignore")
except Exception:  # pragma: no cover
    pass


def assert_repo_import():
    import ampform

    p = os.path.realpath(ampform.__file__)
    want = os.path.realpath(os.path.join(REPO, "src"))
    if not p.startswith(want):
        raise SystemExit(f"ampform imported from {p}, expected under {want}")
