"""C02 numeric harness: the helicity formula evaluated DIRECTLY on numbers (own loops, SymPy's
Rotation.D and CG on numeric arguments) against the implementation's model.expression evaluated at
the same random point.  Independent of the Gallina spec and of ampform's formulate_isobar_* functions.

usage: search_C02.py <seed> <n>            -> JSON {evaluations, distinct, samples, kinds, failures}
       search_C02.py --replay <json-file>  -> JSON {still_fails: bool}
"""
import collections
import functools
import json
import random
import sys

import common  # noqa: F401
import modelgen as mg
import reactions
import sympy as sp
from corr_C02 import Tables, extract
from sympy.physics.quantum.cg import CG
from sympy.physics.quantum.spin import Rotation

common.assert_repo_import()
KNOWN = "identical_particle_exchange_mixes_final_states"


@functools.lru_cache(maxsize=None)
def wigner_small_d(j2, m2, mp2, theta):
    return complex(sp.N(Rotation.d(sp.Rational(j2, 2), sp.Rational(m2, 2), sp.Rational(mp2, 2), theta).doit()))


def conj_D(j2, m2, mp2, phi, theta):
    # D^j_{m m'}(-phi, theta, 0) = exp(+i m phi) d^j_{m m'}(theta)
    import cmath

    return cmath.exp(1j * (m2 / 2) * phi) * wigner_small_d(j2, m2, mp2, theta)


@functools.lru_cache(maxsize=None)
def cg(j1, m1, j2, m2, j3, m3):
    r = sp.Rational
    return float(CG(r(j1, 2), r(m1, 2), r(j2, 2), r(m2, 2), r(j3, 2), r(m3, 2)).doit())


def formula_value(groups, val):
    total = 0.0
    for _, amps in groups:
        coherent = 0j
        for _, chains in amps:
            for c in chains:
                term = complex(c["pref"]) if c["pref"] is not None else 1.0
                if c["C"] is not None:
                    term *= val(c["C"])
                for n in c["nodes"]:
                    lam = n["al"] - n["bl"]
                    term *= conj_D(n["J"], n["M"], lam, val(n["phi"]).real, val(n["theta"]).real)
                    if n["LS"] is not None:
                        L, S = n["LS"]
                        term *= cg(L, 0, S, lam, n["J"], lam) * cg(n["as"], n["al"], n["bs"], -n["bl"], S, lam)
                    if n["H"] is not None:
                        term *= val(n["H"])
                    if n["dyn"] is not None:
                        term *= val(n["dyn"])
                coherent += term
        total += abs(coherent) ** 2
    return total


def check(cfg, seed):
    rng = random.Random(seed)
    try:
        r, b, model = mg.build(cfg)
    except ValueError as e:
        if "Angular momentum is not defined" in str(e):
            return None
        raise
    tables = Tables()
    out = {}
    for style in ("physical", "pinned"):
        groups, _ = extract(cfg, r, b, tables, style)
        out[style] = groups
    expr = model.expression
    values = {}
    for s in sorted(expr.free_symbols, key=str):
        name = str(s)
        if name.startswith("theta"):
            values[s] = sp.Float(rng.uniform(0.2, 2.9))
        elif name.startswith("phi"):
            values[s] = sp.Float(rng.uniform(-3.0, 3.0))
        elif name.startswith(("C_", "H_")):
            values[s] = sp.Float(rng.uniform(-1, 1)) + sp.I * sp.Float(rng.uniform(-1, 1))
        else:
            values[s] = sp.Float(rng.uniform(0.6, 1.9))
    impl = complex(sp.N(expr.xreplace(values).doit()))
    cache = {}

    def val(key):
        if key not in cache:
            obj = tables.key2obj[key]
            cache[key] = complex(sp.N(obj.xreplace(values).doit()))
        return cache[key]

    phys = formula_value(out["physical"], val)
    scale = max(1.0, abs(impl))
    if abs(impl - phys) <= 1e-9 * scale:
        return []
    pinned = formula_value(out["pinned"], val)
    if abs(impl - pinned) <= 1e-9 * scale:
        return [(KNOWN, f"implementation {impl.real:.12g} = coherent sum over helicity assignments of identical particles; "
                        f"helicity formula gives {phys:.12g}")]
    return [("intensity_value_differs_from_formula", f"implementation {impl:.12g} vs helicity formula {phys:.12g}")]


def main():
    if sys.argv[1] == "--replay":
        doc = json.load(open(sys.argv[2]))
        case = doc["replay"]["case"]
        fails = check(case["cfg"], case.get("point_seed", 0)) or []
        want = doc.get("signature", "").split(":")[0]
        # only the stored signature counts (the known finding on identical particles is a different signature)
        same = [f for f in fails if f[0] == want]
        print(json.dumps({"still_fails": bool(same), "fails": same}))
        return
    seed, n = int(sys.argv[1]), int(sys.argv[2])
    rng = random.Random(seed * 31337 + 5)
    small = ["etac_ll_hel", "etac_ll_can", "jpsi_gpipi_hel", "jpsi_gpipi_can", "jpsi_ppbar_hel", "jpsi_ppbar_can",
             "jpsi_pipi_2body_hel", "d0_kkk_hel", "d0_kkk_can", "psi2s_jpsipipi_hel", "jpsi_3pi_hel", "jpsi_3pi_can",
             "jpsi_gpipi_f2_hel", "lc_pkpi_hel", "jpsi_ksp_hel", "psi2s_ggjpsi_hel", "d0_k3pi_hel", "jpsi_gkk_hel"]
    small = [s for s in small if s in reactions.names()]
    failures, samples = [], []
    kinds = collections.Counter()
    evaluations = 0
    seen = set()
    order = list(small)
    rng.shuffle(order)
    for i in range(n):
        name = order[i % len(order)]
        cfg = mg.random_cfg(rng, name, unaligned=True) if i >= len(order) else mg.default_cfg(name)
        cfg["align"], cfg["permutate"] = "none", False
        if mg.same_node_identical_spinful(name):
            cfg["keep"] = None
        if cfg["dyn"] == "abw":
            cfg["dyn"] = "bwff"
        pseed = rng.randrange(10**9)
        res = check(cfg, pseed)
        if res is None:
            continue
        evaluations += 1
        seen.add(json.dumps(cfg, sort_keys=True))
        kinds[name] += 1
        if len(samples) < 3:
            samples.append({"cfg": cfg, "point_seed": pseed})
        for sig, what in res:
            failures.append({"signature": sig, "what": f"{name}: {what}", "case": {"cfg": cfg, "point_seed": pseed}})
    print(json.dumps({"evaluations": evaluations, "distinct": len(seen), "samples": samples, "kinds": dict(kinds),
                      "failures": failures}))


main()
