"""C13 search harness on the IMPLEMENTATION, with an oracle written from the property text
(independent of coq/theories/Selector.v and of the code under test):

  for every corpus reaction x random assignment history
  * a selection denotes: by name / by Particle -> every node whose decaying particle has that
    name; by TwoBodyDecay / (transition, node) -> that one node; anything else is rejected;
  * the builder of a node is the LAST assignment whose selection denotes it, else none;
  * each chain amplitude = amplitude without dynamics x product over its nodes of the builder's
    expression on the node's own variables: invariant mass of the decaying state (final-state
    ids below it), masses of the two daughters, L of that node's interaction when it has one
    (else the integer spin of the decaying particle, else None);
  * mass/width defaults equal the particle table; equal-named parameters carry equal defaults
    (custom builders here return values that depend on the name only) and nothing is logged;
  * plus a scan of qrules' particle table for identifier (latex or name) collisions with
    different mass/width -- the forced hypothesis of equal_names_equal_defaults.

usage: search_C13.py <seed> <n_per_reaction> [reaction ...]  -> JSON (last stdout line)
       search_C13.py --replay <json-file>                    -> JSON {still_fails: bool}
"""
import json
import random
import sys
from fractions import Fraction

import lib_C13 as L

LIB_NEEDS_L = (2, 3, 4)


# ----------------------------------------------------------------------------- own tree walk
def below(topology, edge_id):
    """final-state edge ids reachable from an edge (own recursion over topology.edges)"""
    e = topology.edges[edge_id]
    if e.ending_node_id is None:
        return [edge_id]
    out = []
    for i, f in topology.edges.items():
        if f.originating_node_id == e.ending_node_id:
            out.extend(below(topology, i))
    return sorted(out)


def node_info(t, node):
    """(parent edge, child a, child b) with the daughters ordered by their final-state tuples"""
    top = t.topology
    parents = [i for i, e in top.edges.items() if e.ending_node_id == node]
    kids = [i for i, e in top.edges.items() if e.originating_node_id == node]
    if len(parents) != 1 or len(kids) != 2:
        return None
    kids.sort(key=lambda i: tuple(below(top, i)))
    return parents[0], kids[0], kids[1]


def mname(ids):
    return "m_" + "".join(str(i) for i in sorted(ids))


def node_sig(t, node):
    p, a, b = node_info(t, node)
    def s(i):
        st = t.states[i]
        return (i, st.particle, Fraction(st.spin_projection))
    return (s(p), s(a), s(b), t.interactions[node])


def decay_obj_sig(d):
    def s(x):
        return (x.id, x.particle, Fraction(x.spin_projection))
    return (s(d.parent), s(d.children[0]), s(d.children[1]), d.interaction)


def node_vars(t, node):
    p, a, b = node_info(t, node)
    top = t.topology
    inter = t.interactions[node]
    Lval = inter.l_magnitude
    if Lval is None:
        spin = Fraction(t.states[p].particle.spin)
        Lval = int(spin) if spin.denominator == 1 else None
    return [mname(below(top, p)), mname(below(top, a)), mname(below(top, b)), Lval]


def ident(p):
    return p.latex if p.latex else p.name


def expected_params(b, particle, Lval, custom):
    i = ident(particle)
    if b == 0:
        return []
    if b == 1:
        return [[f"m_{{{i}}}", L.fr(particle.mass)], [f"\\Gamma_{{{i}}}", L.fr(particle.width)]]
    if b in (2, 3):
        return [[f"m_{{{i}}}", L.fr(particle.mass)], [f"\\Gamma_{{{i}}}", L.fr(particle.width)],
                [f"d_{{{i}}}", [1, 1]]]
    if b == 4:
        return [[f"d_{{{i}}}", [1, 1]]]
    out = []
    for e in custom[str(b)]:
        if e[0] == "G":
            out.append([e[1], L.fr(e[2])])
        elif e[0] == "R":
            out.append([f"{e[1]}_{{{i}}}", L.fr(e[2])])
        else:
            out.append([f"{e[1]}_{{{i}}}", L.fr(particle.mass)])
    return out


def normalise_case(case):
    """search mode: no evolved particles; custom parameter values depend on the name only and
    never reuse the library's names, so 'equal names, equal defaults' must hold"""
    val = {"shared": 1.5, "g": 0.25, "q": 2.25, "w": 0.5}
    for sel in case["history"]:
        if sel["k"] == "particle":
            sel["evolve_mass"] = None
    for k, ents in case["custom"].items():
        new, seen = [], set()
        for e in ents:
            if e[0] == "G":
                e = ["G", e[1], val[e[1]]]
            elif e[0] == "R":
                base = {"m": "q", "d": "w", "\\Gamma": "w"}.get(e[1], e[1])
                e = ["R", base, val[base]]
            else:
                e = ["M", "mm"]
            if (e[0] == "G", e[1]) not in seen:
                seen.add((e[0] == "G", e[1]))
                new.append(e)
        case["custom"][k] = new
    return case


def oracle(case):
    c = L.ctx(case["reaction"])
    steps = []
    valid = []  # (predicate on (transition, node), builder)
    for sel in case["history"]:
        k = sel["k"]
        if k == "str" or k == "particle":
            name = sel["name"]
            hit = any(t.states[node_info(t, n)[0]].particle.name == name
                      for ij in c.chains for t in [c.chain(ij)] for n in t.topology.nodes)
            steps.append(["ok" if hit else "notfound", None, None])
            valid.append((lambda t, n, name=name: t.states[node_info(t, n)[0]].particle.name == name, sel["b"]))
        elif k == "decay":
            sig = decay_obj_sig(L.realise(c, sel))
            steps.append(["ok", None, None])
            valid.append((lambda t, n, sig=sig: node_sig(t, n) == sig, sel["b"]))
        elif k == "node":
            t0 = c.chain(tuple(sel["chain"]))
            if node_info(t0, sel["node"]) is None:
                steps.append(["EValue", None, None])
            else:
                sig = node_sig(t0, sel["node"])
                steps.append(["ok", None, None])
                valid.append((lambda t, n, sig=sig: node_sig(t, n) == sig, sel["b"]))
        else:
            steps.append(["ENotImplemented", None, None])
    calls = []
    raises = False
    for ij in c.chains:
        t = c.chain(ij)
        row = []
        for n in t.topology.nodes:
            b = 0
            for pred, bb in valid:
                if pred(t, n):
                    b = bb
            vs = node_vars(t, n)
            particle = t.states[node_info(t, n)[0]].particle
            if b in LIB_NEEDS_L and vs[3] is None:
                raises = True
            row.append([b, particle.name, vs, expected_params(b, particle, vs[3], case["custom"])])
        calls.append(row)
    if raises:
        return {"init": None, "steps": steps, "formulate": "EValue"}, calls
    return {"init": None, "steps": steps,
            "formulate": {"calls": calls, "defaults": None, "warnings": []}}, calls


def check_case(case, rng):
    c = L.ctx(case["reaction"])
    obs = L.run_impl(case)
    pred, calls = oracle(case)
    fails, stats = L.compare(case, obs, pred, rng, n_numeric=1, tag="prop")
    # the builder stored for every chain node is the expected one
    b = obs["_builder"] if "_builder" in obs else None
    if obs["formulate"] == "ok" and isinstance(pred["formulate"], dict):
        want = {}
        for row in calls:
            for cl in row:
                for name, v in cl[3]:
                    want.setdefault(name, set()).add(tuple(v))
        clash = {k: v for k, v in want.items() if len(v) > 1}
        got = {k: tuple(v) for k, v in obs["defaults"]}
        if clash:
            fails.append({"signature": "prop:oracle_inconsistent", "what": f"oracle bug: {list(clash)[:3]}", "case": case})
        exp = {k: next(iter(v)) for k, v in want.items()}
        if got != exp:
            bad = sorted(k for k in set(got) | set(exp) if got.get(k) != exp.get(k))
            fails.append({"signature": "prop:defaults_tabulated",
                          "what": f"{case['reaction']}: parameter defaults differ from the particle table / "
                                  f"builder values for {bad[:4]}: impl {[got.get(k) for k in bad[:4]]} "
                                  f"expected {[exp.get(k) for k in bad[:4]]}", "case": case})
        stats["decay_lookups"] += len(exp)
    return fails, stats


# ----------------------------------------------------------------------------- particle table
def scan_particle_table():
    """identifier collisions in qrules' default particle table (the forced hypothesis)"""
    import qrules

    db = qrules.load_default_particles()
    by = {}
    for p in db:
        by.setdefault(ident(p), []).append(p)
    coll = {k: v for k, v in by.items() if len(v) > 1}
    differing = {k: [(p.name, p.mass, p.width) for p in v] for k, v in coll.items()
                 if len({(p.mass, p.width) for p in v}) > 1}
    empty_latex = [p.name for p in db if p.latex is not None and p.latex == ""]
    return {"particles": len(db), "identifier_collisions": len(coll),
            "collisions_with_different_mass_or_width": len(differing),
            "examples": {k: v for k, v in list(differing.items())[:3]},
            "names_colliding": sorted(coll)[:5], "empty_latex": len(empty_latex)}


def collision_demo():
    """the refuted theorem replayed on the code: two particles sharing an identifier with
    different masses -> warning logged, later value wins (jpsi_3pi: rho(770)+ and a copy)"""
    import attrs
    from ampform.dynamics.builder import create_relativistic_breit_wigner

    c = L.ctx("jpsi_3pi_hel")
    b = c.new_builder(False)
    L.take_log()
    # give rho(770)- the latex of rho(770)+ through a custom builder that delegates
    def clash(resonance, vp):
        if resonance.name == "rho(770)-":
            resonance = attrs.evolve(resonance, latex=r"\rho(770)^{+}", mass=resonance.mass + 0.125)
        return create_relativistic_breit_wigner(resonance, vp)
    for nm in ("rho(770)+", "rho(770)-"):
        b.dynamics.assign(nm, clash)
    model = b.formulate()
    msgs = [m for m in L.take_log() if "inconsistent" in m]
    vals = {s.name: v for s, v in model.parameter_defaults.items() if s.name == r"m_{\rho(770)^{+}}"}
    return {"warnings_logged": len(msgs), "final": vals}


def main():
    L.enable_log_capture()
    if sys.argv[1] == "--replay":
        doc = json.load(open(sys.argv[2]))
        case = doc["replay"]["case"]
        fails, _ = check_case(case, random.Random(1))
        print(json.dumps({"still_fails": bool(fails), "signatures": sorted({f["signature"] for f in fails})}))
        return
    seed, n = int(sys.argv[1]), int(sys.argv[2])
    names = sys.argv[3:] or L.REACTIONS
    rng = random.Random(seed + 100003)
    failures = []
    total = {"decay_lookups": 0, "chain_ratios": 0, "numeric": 0, "structural": 0, "cases_with_warnings": 0, "formulate_ok": 0, "error_steps": 0, "notfound_steps": 0}
    ncases = 0
    kinds = {"formulate_ok": 0, "formulate_raises": 0, "steps": 0, "error_steps": 0, "notfound_steps": 0}
    samples = []
    for nm in names:
        for k in range(n):
            case = normalise_case(L.gen_case(rng, nm))
            if k == 0:  # always: every decaying particle gets a marker builder by name
                case["custom"].setdefault("5", [])
                case["history"] = [{"k": "str", "name": pn, "b": 5} for pn in L.ctx(nm).parent_names()]
            try:
                fails, st = check_case(case, rng)
            except Exception as e:  # noqa: BLE001
                import traceback
                fails = [{"signature": "prop:harness_exception:" + type(e).__name__,
                          "what": f"{nm}: {type(e).__name__}: {e}"[:400] + traceback.format_exc()[-300:],
                          "case": case}]
                st = {kk: 0 for kk in total}
            failures.extend(fails)
            for kk in total:
                total[kk] += st[kk]
            ncases += 1
            pred, _ = oracle(case)
            kinds["formulate_ok" if isinstance(pred["formulate"], dict) else "formulate_raises"] += 1
            kinds["steps"] += len(case["history"])
            kinds["error_steps"] += sum(1 for s in pred["steps"] if s[0].startswith("E"))
            kinds["notfound_steps"] += sum(1 for s in pred["steps"] if s[0] == "notfound")
            if k == 0 and len(samples) < 4:
                samples.append({"reaction": nm, "history": case["history"][:2]})
    scan = scan_particle_table()
    demo = collision_demo()
    if demo["warnings_logged"] < 1:
        failures.append({"signature": "prop:collision_warning_missing",
                         "what": "two particles with one identifier and different masses: no warning logged",
                         "case": {"reaction": "jpsi_3pi_hel", "hc": False, "custom": {}, "history": []}})
    seen, uniq = set(), []
    for f in failures:
        if f["signature"] not in seen:
            seen.add(f["signature"])
            uniq.append(f)
    print(json.dumps({"evaluations": total["decay_lookups"] + total["chain_ratios"], "distinct": ncases,
                      "stats": total, "samples": samples, "kinds": kinds, "failures": uniq,
                      "particle_table": scan, "collision_demo": {k: str(v) for k, v in demo.items()}}))


main()
