"""C01 harness on the implementation: the property as stated, checked with SymPy's own
free_symbols on models formulated over the (reaction, configuration) lattice.

usage: search_C01.py <seed> <n>            -> JSON {evaluations, distinct, samples, kinds, failures}
       search_C01.py --replay <json-file>  -> JSON {still_fails: bool}
"""
import collections
import json
import random
import sys

import common  # noqa: F401
import modelgen as mg
import reactions
import sympy as sp

common.assert_repo_import()


def check_model(cfg):
    """Returns list of (signature, what)."""
    try:
        r, b, model = mg.build(cfg)
    except ValueError as e:
        if "Angular momentum is not defined" in str(e):
            return None
        raise
    fails = []
    expr = model.expression
    fs = set(expr.free_symbols)
    pk = set(model.parameter_defaults)
    kk = set(model.kinematic_variables)
    undefined = sorted(map(str, fs - pk - kk))
    both = sorted(map(str, fs & pk & kk))
    if undefined:
        kind = "amplitude" if any(u.startswith("A^") for u in undefined) else "symbol"
        fails.append((f"undefined_{kind}", f"neither parameter nor kinematic variable: {undefined[:6]}"))
    if both:
        fails.append(("symbol_both_parameter_and_kinvar", f"both: {both[:6]}"))
    u = mg.unfolded_intensity(model)
    missing = sorted(map(str, u.atoms(sp.Indexed) - set(model.amplitudes)))
    if missing:
        fails.append(("amplitude_without_definition", f"intensity sums over {missing[:6]}"))
    mom = {str(sp.Symbol(f"p{i}")) for i in r.final_state}
    for k, e in model.kinematic_variables.items():
        rest = {str(s) for s in e.xreplace(model.parameter_defaults).free_symbols} - mom
        if rest:
            fails.append(("kinvar_not_from_momenta", f"{k} depends on {sorted(rest)[:6]} after inserting parameter defaults"))
            break
    return fails


def kind_of(cfg):
    return f"{cfg['reaction']}|{cfg['align']}|dyn={cfg['dyn']}|stable={'set' if cfg['stable'] is not None else 'None'}|thin={cfg['keep'] is not None}"


def main():
    if sys.argv[1] == "--replay":
        doc = json.load(open(sys.argv[2]))
        fails = check_model(doc["replay"]["case"]["cfg"])
        print(json.dumps({"still_fails": bool(fails), "fails": fails}))
        return
    seed, n = int(sys.argv[1]), int(sys.argv[2])
    rng = random.Random(seed * 7919 + 13)
    names = reactions.names()
    heavy = {"psi2s_ggjpsi_hel", "lc_pkpi_can", "jpsi_ksp1750_can", "jpsi_ksp_can", "jpsi_ksp1750_hel", "d0_k3pi_hel", "jpsi_gpipi_f2_can"}
    seen, failures, samples = set(), [], []
    kinds = collections.Counter()
    evaluations = rejected = 0
    # regression corpus first: axis-angle alignment with a massless final state below an isobar
    cfgs = [mg.default_cfg("chic0_omegaomega_hel", align="aa", dyn="bw"),
            mg.default_cfg("psi2s_ggjpsi_hel", align="aa", keep=[3, 17]),
            mg.default_cfg("lc_pkpi_hel", align="dpd3", stable=[1, 2, 3], scalar_m0=True,
                           rename_nth={"par": list(range(30)), "kin": [1]})]
    for _ in range(n):
        name = rng.choice(names)
        cfg = mg.random_cfg(rng, name)
        if cfg["align"] == "aa" and name in heavy:
            cfg["align"] = "none"
        cfgs.append(cfg)
    import multiprocessing as mp

    with mp.get_context("fork").Pool(min(12, max(1, n // 8))) as pool:
        results = pool.map(check_model, cfgs, chunksize=4)
    for cfg, res in zip(cfgs, results):
        name = cfg["reaction"]
        key = json.dumps(cfg, sort_keys=True)
        evaluations += 1
        if res is None:
            rejected += 1
            continue
        if key not in seen:
            seen.add(key)
        kinds[f"align={cfg['align']}"] += 1
        kinds[f"dyn={cfg['dyn']}"] += 1
        kinds[f"nfinal={mg.n_final(name)}"] += 1
        kinds["thinned" if cfg["keep"] is not None else "full_helicity_set"] += 1
        if len(samples) < 4:
            samples.append(cfg)
        for sig, what in res:
            failures.append({"signature": sig, "what": f"{kind_of(cfg)}: {what}", "case": {"cfg": cfg}})
    kinds["rejected_ff_without_L"] = rejected
    print(json.dumps({"evaluations": evaluations, "distinct": len(seen), "samples": samples,
                      "kinds": dict(kinds), "failures": failures}))


main()
