"""C07 correspondence (T2): coq/theories/Kin.v  vs  HelicityAdapter.create_expressions().

  tie_C07.py gen <seed> <tier> <outdir>   draw cases, run the IMPLEMENTATION on them, abstract its
                                          SymPy trees, write Cases_C07_<k>.v (inputs as Gallina
                                          literals, evaluated by the MODEL with vm_compute) and
                                          cases_C07.json (inputs + implementation results)
  tie_C07.py cmp <outdir>                 read Cases_C07_<k>.out (coqc output) and diff
  tie_C07.py one <outdir>                 stdin: one case (JSON) -> writes Case_one.v + one.json
  tie_C07.py cmp1 <outdir>                diff for the single case

The abstraction of an implementation expression (fail-closed: anything that is not literally of
the documented shape is returned as ["?", str(expr)] and reported as a broken correspondence):
  Phi/Theta(P)              -> [[10|11], ids(P), frame_1, ..., frame_k]
  InvariantMass(ArraySum)   -> [[12], ids]
  P = p_i | ArraySum(q_1..q_m), every q_j = ArrayMultiplication(BoostZMatrix(|P'|/E(P'), n),
        RotationYMatrix(-Theta(P'), n), RotationZMatrix(-Phi(P'), n), q'_j) with the same P'
        and P' itself a sum over momenta that went through the same preceding frames.
"""
from __future__ import annotations

import ast
import itertools
import json
import os
import random
import re
import sys

import common  # noqa: F401

common.assert_repo_import()
import sympy as sp  # noqa: E402
from qrules.topology import Edge, Topology, create_isobar_topologies  # noqa: E402

from ampform.kinematics import HelicityAdapter  # noqa: E402
from ampform.kinematics.angles import Phi, Theta  # noqa: E402
from ampform.kinematics.lorentz import (  # noqa: E402
    ArraySize,
    BoostZMatrix,
    Energy,
    EuclideanNorm,
    FourMomentumSymbol,
    InvariantMass,
    RotationYMatrix,
    RotationZMatrix,
    ThreeMomentum,
)
from ampform.sympy._array_expressions import ArrayMultiplication, ArraySum  # noqa: E402


class Unparsed(Exception):
    pass


# ----------------------------------------------------------------------------- abstraction
def _leaf_id(p) -> int:
    m = re.fullmatch(r"p(\d+)", str(p))
    if not isinstance(p, FourMomentumSymbol) or m is None:
        raise Unparsed(f"not a four-momentum symbol: {p}")
    return int(m.group(1))


def abs_momentum(e, memo):
    """-> (leaf id, chain) for one (boosted) final-state momentum."""
    key = ("m", e)
    if key in memo:
        return memo[key]
    if isinstance(e, ArrayMultiplication):
        if len(e.args) != 4:
            raise Unparsed(f"chain link with {len(e.args)} factors")
        bz, ry, rz, p = e.args
        if not (isinstance(bz, BoostZMatrix) and isinstance(ry, RotationYMatrix)
                and isinstance(rz, RotationZMatrix)):
            raise Unparsed(f"unexpected matrices {[type(a).__name__ for a in e.args[:3]]}")
        for m_ in (bz, ry, rz):
            if not isinstance(m_.n_events, ArraySize):
                raise Unparsed("n_events is not an ArraySize")
        th = -ry.angle
        ph = -rz.angle
        if not isinstance(th, Theta) or not isinstance(ph, Phi):
            raise Unparsed(f"rotation angles are not -Theta/-Phi: {ry.angle}, {rz.angle}")
        P = th.momentum
        if ph.momentum != P:
            raise Unparsed("Phi and Theta of different momenta in one frame")
        if bz.beta != EuclideanNorm(ThreeMomentum(P)) / Energy(P):
            raise Unparsed(f"beta is not |P|/E(P) of the frame momentum: {bz.beta}")
        fid, fchain = abs_sum(P, memo)
        i, chain = abs_momentum(p, memo)
        if fchain != chain:
            raise Unparsed("frame momentum taken through other frames than the boosted momentum")
        if len(fid) < 2:
            raise Unparsed("frame defined by a single final state")
        res = (i, chain + (tuple(fid),))
    else:
        res = (_leaf_id(e), ())
    memo[key] = res
    return res


def abs_sum(P, memo):
    """-> (ids in summation order, chain)"""
    key = ("s", P)
    if key in memo:
        return memo[key]
    terms = P.args if isinstance(P, ArraySum) else (P,)
    if not terms:
        raise Unparsed("empty sum")
    parts = [abs_momentum(t, memo) for t in terms]
    chains = {c for _, c in parts}
    if len(chains) != 1:
        raise Unparsed("summands in different frames")
    res = ([i for i, _ in parts], parts[0][1])
    memo[key] = res
    return res


def abstract(expr, memo):
    try:
        if isinstance(expr, (Phi, Theta)):
            ids, chain = abs_sum(expr.momentum, memo)
            return [[10 if isinstance(expr, Phi) else 11], list(ids)] + [list(f) for f in chain]
        if isinstance(expr, InvariantMass):
            ids, chain = abs_sum(expr.momentum, memo)
            if chain:
                raise Unparsed("invariant mass of boosted momenta")
            if not isinstance(expr.momentum, ArraySum):
                raise Unparsed("invariant mass argument is not an ArraySum")
            return [[12], list(ids)]
        raise Unparsed(f"unexpected head {type(expr).__name__}")
    except Unparsed as exc:
        return ["?", f"{exc}: {str(expr)[:200]}"]


def render_name(enc) -> str:
    tag = enc[0][0]
    j = lambda ids: "".join(map(str, ids))  # noqa: E731
    if tag == 2:
        return "m_" + j(enc[1])
    s = ("phi" if tag == 0 else "theta") + "_" + j(enc[1])
    if len(enc) > 2:
        s += "^" + ",".join(j(g) for g in enc[2:])
    return s


# ----------------------------------------------------------------------------- topologies as data
def topo_to_data(t: Topology):
    return {"nodes": list(t.nodes),
            "edges": [[i, e.originating_node_id, e.ending_node_id] for i, e in t.edges.items()]}


def data_to_topo(d) -> Topology:
    return Topology(nodes=d["nodes"], edges={i: Edge(o, e) for i, o, e in d["edges"]})


def coq_opt(v):
    return "None" if v is None else f"(Some ({v}))"


def topo_to_coq(d) -> str:
    es = "; ".join(f"E ({i}) {coq_opt(o)} {coq_opt(e)}" for i, o, e in d["edges"])
    ns = "; ".join(f"({n})" for n in d["nodes"])
    return f"{{| rt_nodes := [{ns}]; rt_edges := [{es}] |}}"


def has_double(d) -> bool:
    ending = {}
    for i, o, e in d["edges"]:
        if o is not None and e is not None:
            ending.setdefault(o, []).append(i)
    return any(len(v) == 2 for v in ending.values())


def variant(rng: random.Random, base: Topology, leaf_perm, shift: int):
    """base topology with final ids permuted (+shift), intermediate edge ids and node ids renumbered
    at random, and the edge dictionary in a random insertion order."""
    n = len(base.outgoing_edge_ids)
    finals = sorted(base.outgoing_edge_ids)
    emap = {f: leaf_perm[k] + shift for k, f in enumerate(finals)}
    inter = sorted(base.intermediate_edge_ids)
    pool = list(range(n + shift, n + shift + len(inter) + 3))
    for i, new in zip(inter, rng.sample(pool, len(inter))):
        emap[i] = new
    nodes = sorted(base.nodes)
    nmap = dict(zip(nodes, rng.sample(range(len(nodes) + 2), len(nodes))))
    items = [(emap.get(i, i), None if e.originating_node_id is None else nmap[e.originating_node_id],
              None if e.ending_node_id is None else nmap[e.ending_node_id]) for i, e in base.edges.items()]
    rng.shuffle(items)
    ns = list(nmap.values())
    rng.shuffle(ns)
    return {"nodes": ns, "edges": [list(x) for x in items]}


def gen_cases(seed: int, tier: str):
    rng = random.Random(1000003 * seed + 7)
    cases = []
    thorough = tier == "thorough"
    for n in range(2, 6):
        bases = create_isobar_topologies(n)
        perms = list(itertools.permutations(range(n)))
        for b, base in enumerate(bases):
            if thorough or n <= 3:
                chosen = perms
            else:
                chosen = rng.sample(perms, 12 if n == 4 else 14)
            for lp in chosen:
                for _ in range(2 if (thorough and n >= 4) else 1):
                    shift = 1 if (n <= 4 and rng.random() < 0.25) else 0
                    d = variant(rng, base, lp, shift)
                    cases.append({"kind": "single", "n": n, "base": b, "init": [d], "permutate": False})
            # the documented topology exactly as qrules delivers it
            cases.append({"kind": "asis", "n": n, "base": b, "init": [topo_to_data(base)], "permutate": False})
    # several topologies over the same final state in one adapter
    for _ in range(120 if thorough else 24):
        n = rng.choice([3, 4, 4, 5, 5])
        bases = create_isobar_topologies(n)
        perms = list(itertools.permutations(range(n)))
        k = rng.randint(2, 5)
        init = [variant(rng, rng.choice(bases), rng.choice(perms), 0) for _ in range(k)]
        cases.append({"kind": "multi", "n": n, "init": init, "permutate": False})
    # isomorphic pairs that differ only in intermediate numbering (the overwrite family)
    for _ in range(20 if thorough else 6):
        n = rng.choice([4, 5])
        bases = [b for b in create_isobar_topologies(n) if has_double(topo_to_data(b))]
        base = rng.choice(bases)
        lp = rng.choice(list(itertools.permutations(range(n))))
        init = [variant(rng, base, lp, 0) for _ in range(3)]
        cases.append({"kind": "isomorphic", "n": n, "init": init, "permutate": False})
    # permutate_registered_topologies
    plan = [(2, 1), (3, 1), (4, 1), (4, 2)] + ([(5, 1)] if not thorough else [(5, 1)] * 5 + [(4, 2)] * 4 + [(5, 2)] * 2)
    for n, k in plan:
        bases = create_isobar_topologies(n)
        perms = list(itertools.permutations(range(n)))
        init = [variant(rng, rng.choice(bases), rng.choice(perms), 0) for _ in range(k)]
        cases.append({"kind": "permutate", "n": n, "init": init, "permutate": True})
    cases.extend(gen_histories(rng, 40 if thorough else 10))
    return cases


def gen_histories(rng: random.Random, count: int):
    """sequences of create_expressions / permutate_registered_topologies / register_topology on ONE adapter;
    register_topology is also offered topologies over another final state (sub-decay, extra particle,
    shifted ids), which the documented guards refuse."""
    out = []
    for c in range(count):
        n = [3, 3, 4, 2, 4, 3][c % 6]
        bases = create_isobar_topologies(n)
        perms = list(itertools.permutations(range(n)))
        same = lambda: variant(rng, rng.choice(bases), rng.choice(perms), 0)  # noqa: E731

        def foreign():
            m = rng.choice([k for k in (2, 3, 4) if k != n] + [n])
            b = rng.choice(create_isobar_topologies(m))
            if m == n:  # same size, other ids
                return variant(rng, b, rng.choice(list(itertools.permutations(range(m)))), 1)
            return topo_to_data(b) if rng.random() < 0.5 else \
                variant(rng, b, rng.choice(list(itertools.permutations(range(m)))), 0)

        init = [same() for _ in range(rng.randint(1, 2))]
        if c == 0:
            ops = [["create"], ["permutate"], ["create"]]
        elif c == 1:
            ops = [["create"], ["register", topo_to_data(create_isobar_topologies(2)[0])], ["create"],
                   ["register", topo_to_data(create_isobar_topologies(4)[0])], ["create"]]
            init = [topo_to_data(create_isobar_topologies(3)[0])]
        else:
            ops = []
            for _ in range(rng.randint(3, 6)):
                r = rng.random()
                if r < 0.4:
                    ops.append(["create"])
                elif r < 0.55:
                    ops.append(["permutate"])
                elif r < 0.8:
                    ops.append(["register", same()])
                else:
                    ops.append(["register", foreign()])
            ops.append(["create"])
        out.append({"kind": "history", "n": n, "init": init, "ops": ops, "permutate": False})
    return out


# ----------------------------------------------------------------------------- implementation side
def abstract_dict(exprs):
    memo, impl = {}, {}
    for k, v in exprs.items():
        name = str(k)
        impl[name] = ["?", f"two different symbols print as {name}"] if name in impl else abstract(v, memo)
    return impl


def run_history_impl(case):
    adapter = HelicityAdapter([data_to_topo(d) for d in case["init"]])
    outcomes = []
    for op in case["ops"]:
        if op[0] == "create":
            outcomes.append(["create", abstract_dict(adapter.create_expressions())])
        elif op[0] == "permutate":
            adapter.permutate_registered_topologies()
            outcomes.append(["perm", len(adapter.registered_topologies)])
        else:
            try:
                adapter.register_topology(data_to_topo(op[1]))
                outcomes.append(["reg", 1, ""])
            except ValueError as exc:
                outcomes.append(["reg", 0, str(exc)[:80]])
    return [topo_to_data(t) for t in adapter.registered_topologies], {"__history__": outcomes}


def run_impl(case):
    """-> (ordered registered topologies as data, {name: abstract value}, registered set as data)"""
    if case["kind"] == "history":
        return run_history_impl(case)
    topos = [data_to_topo(d) for d in case["init"]]
    adapter = HelicityAdapter(topos[:1])
    for t in topos[1:]:
        adapter.register_topology(t)
    if case["permutate"]:
        adapter.permutate_registered_topologies()
    private = getattr(adapter, "_HelicityAdapter__topologies", None)
    order = list(private) if private is not None else list(adapter.registered_topologies)
    exprs = adapter.create_expressions()
    memo = {}
    impl = {}
    for k, v in exprs.items():
        name = str(k)
        if name in impl:
            impl[name] = ["?", f"two different symbols print as {name}"]
        else:
            impl[name] = abstract(v, memo)
    return [topo_to_data(t) for t in order], impl


PRELUDE = """(* GENERATED by bridge/tie_C07.py — inputs of the correspondence run; evaluated by the model. *)
From AV Require Import Kin.
From Coq Require Import ZArith List.
Import ListNotations.
Open Scope Z_scope.
Set Printing Width 1000000.
Set Printing Depth 1000000.
Definition E i o e := {| re_id := i; re_orig := o; re_end := e |}.
(* the same pipeline with the model of the PROPOSED repair (Kin.hel true) *)
Definition model_create_expressions_repaired (ts : list rtopo) :=
  match omap tree_of_topo ts with
  | Some trees => Some (enc_dict (create_expressions_gen true trees))
  | None => None
  end.
"""


def history_to_coq(idx: int, case) -> str:
    ops = []
    for op in case["ops"]:
        ops.append({"create": "HCreate", "permutate": "HPermutate"}.get(op[0]) or f"HRegister ({topo_to_coq(op[1])})")
    out = [f"Definition ini_{idx} : list rtopo := fold_left (fun acc t => add_topo t acc) ["
           + ";\n  ".join(topo_to_coq(d) for d in case["init"]) + "] [].",
           f"Definition ops_{idx} : list hop := [" + ";\n  ".join(ops) + "]."]
    for what, fixed in ((3, "false"), (4, "true")):
        out.append(f"Eval vm_compute in (({idx}), {what}, let r := run_history {fixed} ini_{idx} ops_{idx} in "
                   "(map enc_topo (fst r), snd r)).")
    return "\n".join(out) + "\n"


def case_to_coq(idx: int, case, order) -> str:
    if case["kind"] == "history":
        return history_to_coq(idx, case)
    out = [f"Definition ord_{idx} : list rtopo := [" + ";\n  ".join(topo_to_coq(d) for d in order) + "]."]
    out.append(f"Eval vm_compute in (({idx}), 0, model_create_expressions ord_{idx}).")
    if any(has_double(d) for d in order):
        out.append(f"Eval vm_compute in (({idx}), 2, model_create_expressions_repaired ord_{idx}).")
    if case["permutate"]:
        out.append(f"Definition ini_{idx} : list rtopo := [" + ";\n  ".join(topo_to_coq(d) for d in case["init"]) + "].")
        out.append(f"Eval vm_compute in (({idx}), 1, map enc_topo (permutate ini_{idx})).")
    return "\n".join(out) + "\n"


def parse_coq_output(text: str):
    """-> {(idx, what): python value}"""
    res = {}
    for m in re.finditer(r"^\s*= (\(.*?)\n\s*: ", text, re.S | re.M):
        s = m.group(1).replace("\n", " ")
        s = s.replace(";", ",").replace("Some ", "").replace("%Z", "")
        try:
            val = ast.literal_eval(s)
        except Exception:  # noqa: BLE001
            continue
        idx, what, payload = val
        res[(idx, what)] = payload
    return res


def edge_set(d_or_enc):
    if isinstance(d_or_enc, dict):
        return frozenset((i, -99 if o is None else o, -99 if e is None else e) for i, o, e in d_or_enc["edges"])
    return frozenset(tuple(x) for x in d_or_enc)


def compare_history(case, order, impl, model):
    """model = (final registered topologies, per-op results) of Kin.run_history"""
    if model is None:
        return [("tie_model_output_missing", "no model output for the history")]
    final, results = model
    ops = case["ops"]
    for k, (op, got, exp) in enumerate(zip(ops, impl["__history__"], results)):
        where = f"history op {k} of {[o[0] for o in ops]}"
        if got[0] == "reg":
            want = exp[0][1][0][0]
            if got[1] != want:
                edges = op[1]["edges"]
                return [("tie_history_register_mismatch",
                         f"{where}: register_topology {'accepted' if got[1] else 'refused (' + got[2] + ')'} the topology "
                         f"{edges}, the documented guards (isobar, same initial and final state ids as the registered "
                         f"topologies) {'accept' if want else 'refuse'} it")]
        elif got[0] == "perm":
            if got[1] != exp[0][1][0][0]:
                return [("tie_permutate_mismatch", f"{where}: {got[1]} registered topologies, model {exp[0][1][0][0]}")]
        else:
            fs = _compare(case, order, got[1], exp, None)
            if fs:
                sig, what = fs[0]
                if sig == "tie_value_mismatch":
                    sig = "tie_history_create_mismatch"
                return [(sig, f"{where}: create_expressions() is not the dictionary of the registered set: {what}")]
    if {edge_set(t) for t in final} != {edge_set(d) for d in order}:
        return [("tie_history_registered_mismatch",
                 f"registered_topologies after the history: model {len(final)} vs implementation {len(order)}")]
    return []


def compare(case, order, impl, model_dict, model_perm, model_other=None, repaired=False):
    """-> list of (signature, what).  repaired=True: the code is expected to follow Kin.hel true
    (after the fix of angle_name_overwritten_two_decaying_children has landed in /repo)."""
    if repaired and model_other is not None:
        model_dict, model_other = model_other, model_dict
    fails = _compare(case, order, impl, model_dict, model_perm)
    if fails and fails[0][0] == "tie_value_mismatch" and model_other is not None:
        if not _compare(case, order, impl, model_other, None):
            which = "current-code model (hel false)" if repaired else "REPAIRED model (hel true)"
            fails = [(s, w + f" -- the implementation agrees with the {which} on this case: "
                      "flip MODEL_REPAIRED in runners/C07.py if /repo's behaviour at nodes with two "
                      "decaying children was changed on purpose") for s, w in fails]
    return fails


def _compare(case, order, impl, model_dict, model_perm):
    fails = []
    unparsed = {k: v for k, v in impl.items() if v and v[0] == "?"}
    if unparsed:
        k, v = sorted(unparsed.items())[0]
        return [("tie_unparsed", f"{k}: {v[1]}")]
    if model_dict is None:
        return [("tie_model_rejects_topology", "tree_of_topo = None for a topology the adapter accepted")]
    model = {}
    for kn, kv in model_dict:
        model[render_name(kn)] = [list(x) if isinstance(x, (list, tuple)) else x for x in kv]
    norm = lambda v: [list(x) for x in v]  # noqa: E731
    for name in sorted(set(model) | set(impl)):
        a, b = model.get(name), impl.get(name)
        if a is None or b is None or norm(a) != norm(b):
            fails.append(("tie_value_mismatch",
                          f"{name}: model {a} vs implementation {b} ({case['kind']}, {len(order)} topologies)"))
            break
    if case["permutate"] and model_perm is not None:
        ms = {edge_set(t) for t in model_perm}
        ps = {edge_set(d) for d in order}
        if ms != ps:
            fails.append(("tie_permutate_mismatch",
                          f"registered set after permutate: model {len(ms)} vs implementation {len(ps)} topologies"))
    return fails


def main():
    mode = sys.argv[1]
    if mode == "gen":
        seed, tier, outdir = int(sys.argv[2]), sys.argv[3], sys.argv[4]
        cases = gen_cases(seed, tier)
        recs, files, errors = [], [], []
        chunk = 150
        for k0 in range(0, len(cases), chunk):
            fname = f"Cases_C07_{k0 // chunk}.v"
            with open(os.path.join(outdir, fname), "w") as f:
                f.write(PRELUDE)
                for idx in range(k0, min(k0 + chunk, len(cases))):
                    case = cases[idx]
                    try:
                        order, impl = run_impl(case)
                    except Exception as exc:  # noqa: BLE001
                        errors.append({"idx": idx, "case": case, "error": f"{type(exc).__name__}: {exc}"[:300]})
                        order, impl = [], None
                    recs.append({"case": case, "order": order, "impl": impl})
                    if impl is not None:
                        f.write(case_to_coq(idx, case, order))
            files.append(fname)
        with open(os.path.join(outdir, "cases_C07.json"), "w") as f:
            json.dump(recs, f)
        kinds = {}
        for c in cases:
            key = f"{c['kind']}_n{c['n']}" + ("_double" if any(has_double(d) for d in c["init"]) else "")
            kinds[key] = kinds.get(key, 0) + 1
        print(json.dumps({"files": files, "n": len(cases), "kinds": kinds, "errors": errors}))
    elif mode == "cmp":
        outdir = sys.argv[2]
        repaired = len(sys.argv) > 3 and sys.argv[3] == "repaired"
        recs = json.load(open(os.path.join(outdir, "cases_C07.json")))
        parsed = {}
        for fn in sorted(os.listdir(outdir)):
            if re.fullmatch(r"Cases_C07_\d+\.out", fn):
                parsed.update(parse_coq_output(open(os.path.join(outdir, fn)).read()))
        failures, n_ok, n_vars, samples = [], 0, 0, []
        seen = set()
        for idx, r in enumerate(recs):
            if r["impl"] is None:
                continue
            if r["case"]["kind"] == "history":
                fs = compare_history(r["case"], r["order"], r["impl"], parsed.get((idx, 4 if repaired else 3)))
                n_vars += sum(len(o[1]) for o in r["impl"]["__history__"] if o[0] == "create")
                if not fs:
                    n_ok += 1
                    if "history" not in seen:
                        seen.add("history")
                        samples.append({"kind": "history", "n": r["case"]["n"], "edges": r["case"]["init"][0]["edges"],
                                        "ops": [o[0] for o in r["case"]["ops"]],
                                        "outcomes": [o[:2] if o[0] != "create" else ["create", len(o[1])]
                                                     for o in r["impl"]["__history__"]]})
                for sig, what in fs:
                    failures.append({"signature": sig, "what": what, "case": r["case"], "input": sig != "tie_unparsed"})
                continue
            if (idx, 0) not in parsed:
                failures.append({"signature": "tie_model_output_missing", "what": f"case {idx}: no model output",
                                 "case": r["case"], "input": False})
                continue
            fs = compare(r["case"], r["order"], r["impl"], parsed[(idx, 0)], parsed.get((idx, 1)),
                         parsed.get((idx, 2)), repaired)
            n_vars += len(r["impl"])
            if not fs:
                n_ok += 1
                if len(samples) < 4 and r["case"]["kind"] not in seen:
                    seen.add(r["case"]["kind"])
                    k = sorted(r["impl"])[0]
                    samples.append({"kind": r["case"]["kind"], "n": r["case"]["n"],
                                    "edges": r["case"]["init"][0]["edges"], "var": k, "value": r["impl"][k]})
            for sig, what in fs:
                failures.append({"signature": sig, "what": what, "case": r["case"],
                                 "input": sig not in ("tie_unparsed",)})
        print(json.dumps({"cases": len(recs), "agree": n_ok, "variables": n_vars, "samples": samples,
                          "failures": failures[:20]}))
    elif mode == "one":
        outdir = sys.argv[2]
        case = json.load(sys.stdin)
        order, impl = run_impl(case)
        with open(os.path.join(outdir, "Case_one.v"), "w") as f:
            f.write(PRELUDE + case_to_coq(0, case, order))
        json.dump({"case": case, "order": order, "impl": impl}, open(os.path.join(outdir, "one.json"), "w"))
        print(json.dumps({"ok": True}))
    elif mode == "cmp1":
        outdir = sys.argv[2]
        repaired = len(sys.argv) > 3 and sys.argv[3] == "repaired"
        r = json.load(open(os.path.join(outdir, "one.json")))
        parsed = parse_coq_output(open(os.path.join(outdir, "Case_one.out")).read())
        if r["case"]["kind"] == "history":
            fs = compare_history(r["case"], r["order"], r["impl"], parsed.get((0, 4 if repaired else 3)))
        else:
            fs = compare(r["case"], r["order"], r["impl"], parsed.get((0, 0)), parsed.get((0, 1)),
                         parsed.get((0, 2)), repaired)
        print(json.dumps({"still_fails": bool(fs), "failures": fs[:3]}))


if __name__ == "__main__":
    main()
