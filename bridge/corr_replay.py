"""Replay of a disagreeing correspondence case: re-run implementation and model on that one input."""
from __future__ import annotations

import json
import os
import subprocess
import sys
import tempfile

import common  # noqa: F401

doc = json.load(open(sys.argv[2]))
case = doc["replay"]["case"]
mode = case.get("mode", doc["property"])
verif = os.path.dirname(os.path.dirname(os.path.abspath(__file__)))
with tempfile.TemporaryDirectory() as d:
    import classtab
    import corr_uneval as C
    import uneval_ir as U

    tab = classtab.build()
    classtab.emit(tab, os.path.join(d, "ClassTable.v"))
    # rebuild the single case through the generator's own code path
    import pickle

    obj = U.from_ir(C_ir := json.loads(json.dumps(case["ir"]), object_hook=None))
    ir = U.to_ir(obj)
    op = case["op"]
    name = "e_0"
    lines = [f"Definition {name} : expr := {U.coq(ir)}."]
    import gen_uneval as G

    def t(x):
        return tuple(t(i) for i in x) if isinstance(x, list) else x

    er = [(t(k), t(v)) for k, v in case.get("er", [])]
    ar = [(t(k), t(v)) for k, v in case.get("ar", [])]
    m = G.py_rule(er, ar) if (er or ar) else {}
    ty = "string"
    if op == "xreplace":
        ce, im = f"show (xreplace gen_table Shallow {G.coq_rule(er)} {G.coq_arule(ar)} {name})", C.impl(lambda: obj.xreplace(m))
    elif op == "subs":
        ko, vo = U.from_ir(er[0][0]), U.from_ir(er[0][1])
        ce, im = f"show (subs1 gen_table Shallow ({U.coq(er[0][0])}) ({U.coq(er[0][1])}) {name})", C.impl(lambda: obj.subs(ko, vo))
    elif op == "doit":
        ce, im = f"show (doitF gen_table {C.FUEL} {name})", C.impl(lambda: obj.doit())
    elif op == "func":
        ce, im = f"show (func gen_table {name} (args_of {name}))", C.impl(lambda: obj.func(*obj.args))
    elif op == "rebuild":
        ce, im = f"show (rebuild gen_table Shallow {name})", C.impl(lambda: pickle.loads(pickle.dumps(obj, protocol=case.get("proto", 4))))  # noqa: S301
    elif op == "eq":
        objb = U.from_ir(t(case["irb"]))
        lines.append(f"Definition b_0 : expr := {U.coq(U.to_ir(objb))}.")
        ce, ty = f"eqb {name} b_0", "bool"
        im = {"ok": bool(obj == objb), "hash_eq": hash(obj) == hash(objb), "sym": bool(objb == obj)}
    elif op == "commute_hyps":
        sm = G.coq_smap(er)
        ce, ty = (f"avoids gen_table {sm} && images_ok gen_table {sm} && stableF gen_table {sm} {C.FUEL} {name} "
                  f"&& wfi gen_table (doitF gen_table {C.FUEL} {name})"), "bool"
        im = {"lhs": C.impl(lambda: obj.xreplace(m).doit()), "rhs": C.impl(lambda: obj.doit().xreplace(m))}
    else:
        ce, ty, im = f"wfi gen_table {name}", "bool", {"ok": True}
    ev = ce if ty == "string" else f"bstr ({ce})"
    with open(os.path.join(d, "Case.v"), "w") as f:
        f.write(C.HEADER + 'Definition bstr (b : bool) : string := if b then "T" else "F".\n' + "\n".join(lines)
                + f"\nEval vm_compute in ({ev}).\n")
    fl = ["-Q", os.path.join(verif, "coq", "theories"), "AV", "-Q", ".", "AVchk"]
    subprocess.run(["coqc", *fl, "ClassTable.v"], cwd=d, capture_output=True)
    p = subprocess.run(["bash", "-c", "ulimit -s unlimited; timeout 300 coqc " + " ".join(fl) + " Case.v"], cwd=d,
                       capture_output=True, text=True)
    outs = U.coq_outputs(p.stdout)
    if len(outs) != 1:
        print(json.dumps({"still_fails": True, "what": "model evaluation failed: " + p.stdout[-300:] + p.stderr[-300:]}))
        sys.exit(0)
    o = outs[0]
    if ty == "bool":
        o = o == "T"
    try:
        why = C.check({"op": op, "ty": ty, "impl": im}, o)
    except Exception as e:  # noqa: BLE001
        why = f"comparison crashed: {e!r}"
    print(json.dumps({"still_fails": why is not None, "what": why or ""}))
