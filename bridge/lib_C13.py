"""C13 shared machinery: corpus reactions as seen by DynamicsSelector/formulate, seeded
assignment histories, running them on the implementation, Gallina serialisation of the same
inputs for coq/theories/Selector.v, and a parser for vm_compute output.

Used by bridge/corr_C13.py (T2 correspondence) and bridge/search_C13.py (property-level search).
"""
from __future__ import annotations

import logging
import random
import re
from fractions import Fraction

import common  # noqa: F401

common.assert_repo_import()
import attrs  # noqa: E402
import reactions  # noqa: E402
import sympy as sp  # noqa: E402

import ampform  # noqa: E402
import ampform.helicity as H  # noqa: E402
from ampform.dynamics import builder as B  # noqa: E402
from ampform.helicity.decay import (  # noqa: E402
    TwoBodyDecay,
    group_by_spin_projection,
    group_by_topology,
)

REACTIONS = ["jpsi_3pi_hel", "jpsi_3pi_can", "lc_pkpi_hel", "lc_pkpi_can", "jpsi_ksp_hel",
             "jpsi_ksp_can", "d0_kkk_hel", "d0_kkk_can", "jpsi_gpipi_f2_hel",
             "jpsi_gpipi_f2_can", "d0_k3pi_hel", "psi2s_ggjpsi_hel", "chic0_omegaomega_hel"]

LIB_BUILDERS = {
    0: B.create_non_dynamic,
    1: B.create_relativistic_breit_wigner,
    2: B.create_relativistic_breit_wigner_with_ff,
    3: B.create_analytic_breit_wigner,
    4: B.create_non_dynamic_with_ff,
}
FIRST_CUSTOM = 5
L_NONE = sp.Symbol("L_None")


# ----------------------------------------------------------------------------- logging capture
class _Capture(logging.Handler):
    def __init__(self):
        super().__init__(level=logging.WARNING)
        self.messages: list[str] = []

    def emit(self, record):
        self.messages.append(record.getMessage())


_CAPTURE = _Capture()


def enable_log_capture():
    """bridge/common.py disables logging globally; C13 observes two warnings of
    ampform.helicity, so re-enable and route that logger into a list (no output)."""
    logging.disable(logging.NOTSET)
    lg = logging.getLogger("ampform.helicity")
    lg.handlers = [_CAPTURE]
    lg.propagate = False
    lg.setLevel(logging.WARNING)


def take_log() -> list[str]:
    out = list(_CAPTURE.messages)
    _CAPTURE.messages.clear()
    return out


# ----------------------------------------------------------------------------- context
class Ctx:
    """A corpus reaction with everything the selector / formulate() iterate over."""

    def __init__(self, name: str):
        self.name = name
        self.reaction = reactions.load(name)
        self.transitions = list(self.reaction.transitions)
        # graphs of the identical-particle combinatorics, per transition (implementation's own)
        self.perms = [[H._freeze(g) for g in H._perform_combinatorics(t)] for t in self.transitions]
        index = {id(t): i for i, t in enumerate(self.transitions)}
        # formulation order of formulate(): spin groups -> topology groups -> transitions -> graphs
        self.chains: list[tuple[int, int]] = []
        self.groups: list[list[tuple[int, int]]] = []  # chains per model.amplitudes entry
        for group in group_by_spin_projection(self.transitions):
            for ts in group_by_topology(group).values():
                g = []
                for t in ts:
                    i = index[id(t)]
                    for j in range(len(self.perms[i])):
                        g.append((i, j))
                self.groups.append(g)
                self.chains.extend(g)
        self.particles: list = []
        self._pidx: dict = {}
        self._a0: dict = {}

    def chain(self, ij):
        return self.perms[ij[0]][ij[1]]

    def parent_names(self) -> list[str]:
        out = []
        for t in self.transitions:
            for n in t.topology.nodes:
                nm = TwoBodyDecay.from_transition(t, n).parent.particle.name
                if nm not in out:
                    out.append(nm)
        return out

    def all_particles(self) -> list:
        out = []
        for t in self.transitions:
            for s in t.states.values():
                if s.particle not in out:
                    out.append(s.particle)
        return out

    def pid(self, p) -> int:
        if p not in self._pidx:
            self._pidx[p] = len(self.particles)
            self.particles.append(p)
        return self._pidx[p]

    def new_builder(self, hc: bool):
        b = ampform.get_builder(self.reaction)
        b.config.use_helicity_couplings = bool(hc)
        return b

    def no_dynamics(self, hc: bool):
        """chain expressions and public amplitudes without any dynamics assigned"""
        if hc not in self._a0:
            b = self.new_builder(hc)
            model = b.formulate()
            seq = getattr(b, "_HelicityAmplitudeBuilder__formulate_sequential_decay")
            self._a0[hc] = ({ij: seq(self.chain(ij)) for ij in self.chains}, model)
        return self._a0[hc]


_CTX: dict[str, Ctx] = {}


def ctx(name: str) -> Ctx:
    if name not in _CTX:
        _CTX[name] = Ctx(name)
    return _CTX[name]


# ----------------------------------------------------------------------------- custom builders
def q_of(x) -> Fraction:
    return Fraction(x)


def make_custom(k: int, entries: list, log: list):
    f = sp.Function(f"dyn_{k}")

    def build(resonance, vp):
        L = vp.angular_momentum
        log.append((k, resonance.name, vp.incoming_state_mass.name, vp.outgoing_state_mass1.name,
                    vp.outgoing_state_mass2.name, L))
        expr = f(vp.incoming_state_mass, vp.outgoing_state_mass1, vp.outgoing_state_mass2,
                 L_NONE if L is None else L)
        ident = resonance.latex or resonance.name
        pars = {}
        for e in entries:
            if e[0] == "G":
                pars[par_symbol(e[1])] = e[2]
            elif e[0] == "R":
                pars[par_symbol(f"{e[1]}_{{{ident}}}")] = e[2]
            else:
                pars[par_symbol(f"{e[1]}_{{{ident}}}")] = resonance.mass
        return expr, pars

    build.__name__ = f"custom_{k}"
    return build


def par_symbol(name: str) -> sp.Symbol:
    """same assumptions as dynamics/builder.py gives its symbols (identity = name)"""
    if name.startswith("d_"):
        return sp.Symbol(name, positive=True)
    return sp.Symbol(name, nonnegative=True)


# ----------------------------------------------------------------------------- case generation
def gen_case(rng: random.Random, name: str, nsteps: int | None = None) -> dict:
    c = ctx(name)
    parents = c.parent_names()
    allp = c.all_particles()
    finals = [p.name for p in c.reaction.final_state.values()]
    ncustom = rng.randint(1, 3)
    custom = {}
    for k in range(FIRST_CUSTOM, FIRST_CUSTOM + ncustom):
        ents = []
        for _ in range(rng.randint(0, 3)):
            r = rng.random()
            if r < 0.35:
                ents.append(["G", rng.choice(["shared", "g"]), rng.choice([1, 1.5, 2, 0.25, k])])
            elif r < 0.75:
                ents.append(["R", rng.choice(["q", "m", "d", "\\Gamma"]), rng.choice([1, 0.5, 2.25, k + 0.125])])
            else:
                ents.append(["M", rng.choice(["m", "q"])])
        # a Python dict cannot return the same key twice: one entry per parameter name
        seen, uniq = set(), []
        for e in ents:
            key = ("G", e[1]) if e[0] == "G" else ("R", e[1])
            if key not in seen:
                seen.add(key)
                uniq.append(e)
        custom[str(k)] = uniq
    conflict_mode = rng.random() < 0.4 and ncustom >= 2
    if conflict_mode:  # every custom builder proposes its own value for one shared name
        for k in custom:
            custom[k] = [["G", "shared", int(k) + 0.5]] + [e for e in custom[k] if e[:2] != ["G", "shared"]]
    bids = list(range(5)) + [int(k) for k in custom]
    weights = [1, 3, 1, 1, 1] + [3] * ncustom
    hist = []
    n = nsteps if nsteps is not None else rng.randint(1, 7)
    for _ in range(n):
        b = rng.choices(bids, weights)[0]
        r = rng.random()
        if r < 0.34:
            q = rng.random()
            if q < 0.7:
                nm = rng.choice(parents)
            elif q < 0.8:
                nm = rng.choice(finals)
            elif q < 0.9:
                nm = rng.choice(parents)[:-1]  # proper prefix
            else:
                nm = rng.choice(parents) + rng.choice(["0", "+", "x", " "])
            sel = {"k": "str", "name": nm}
        elif r < 0.5:
            p = rng.choice(allp)
            ev = None
            if rng.random() < 0.3:
                ev = rng.choice([0.5, 1.25, 3.0])
            sel = {"k": "particle", "name": p.name, "evolve_mass": ev}
        elif r < 0.72:
            ij = rng.choice(c.chains)
            node = rng.choice(sorted(c.chain(ij).topology.nodes))
            mod = None
            if rng.random() < 0.15:
                mod = rng.choice(["l", "proj", "mass"])
            sel = {"k": "decay", "chain": list(ij), "node": node, "mod": mod}
        elif r < 0.9:
            ij = rng.choice(c.chains)
            nodes = sorted(c.chain(ij).topology.nodes)
            node = rng.choice(nodes) if rng.random() < 0.85 else rng.choice([len(nodes), 99, -1])
            sel = {"k": "node", "chain": list(ij), "node": node}
        elif r < 0.95:
            sel = {"k": "badtuple", "v": rng.randint(0, 2)}
        else:
            sel = {"k": "other", "v": rng.randint(0, 3)}
        sel["b"] = b
        hist.append(sel)
    if conflict_mode:  # make sure two different custom builders are in use at the end
        ks = [int(k) for k in custom]
        rng.shuffle(ks)
        names2 = rng.sample(parents, 2) if len(parents) >= 2 else parents * 2
        hist.append({"k": "str", "name": names2[0], "b": ks[0]})
        ij = rng.choice(c.chains)
        if rng.random() < 0.5:
            hist.append({"k": "str", "name": names2[1], "b": ks[1]})
        else:
            hist.append({"k": "node", "chain": list(ij), "node": rng.choice(sorted(c.chain(ij).topology.nodes)), "b": ks[1]})
    return {"reaction": name, "hc": rng.random() < 0.25, "custom": custom, "history": hist}


def realise(c: Ctx, sel: dict):
    """the Python object handed to DynamicsSelector.assign, and (for the model) extra data"""
    k = sel["k"]
    if k == "str":
        return sel["name"]
    if k == "particle":
        p = next(p for p in c.all_particles() if p.name == sel["name"])
        if sel.get("evolve_mass") is not None:
            p = attrs.evolve(p, mass=float(sel["evolve_mass"]))
        return p
    if k == "decay":
        d = TwoBodyDecay.from_transition(c.chain(tuple(sel["chain"])), sel["node"])
        mod = sel.get("mod")
        if mod == "l":
            l0 = d.interaction.l_magnitude
            d = attrs.evolve(d, interaction=attrs.evolve(d.interaction, l_magnitude=(l0 or 0) + 1))
        elif mod == "proj":
            ch0 = d.children[0]
            d = attrs.evolve(d, children=(attrs.evolve(ch0, spin_projection=ch0.spin_projection + 1),
                                          d.children[1]))
        elif mod == "mass":
            par = d.parent
            d = attrs.evolve(d, parent=attrs.evolve(par, particle=attrs.evolve(par.particle, mass=2.5)))
        return d
    if k == "node":
        return (c.chain(tuple(sel["chain"])), sel["node"])
    if k == "badtuple":
        t = c.transitions[0]
        return [(1, 2, 3), (t, "0"), (t,)][sel["v"]]
    return [3, 2.5, None, [c.transitions[0], 0]][sel["v"]]


ERR = {NotImplementedError: "ENotImplemented", ValueError: "EValue", KeyError: "EKey"}


def decay_sig(d: TwoBodyDecay):
    def s(x):
        return [x.id, x.particle.name, [Fraction(x.particle.mass).numerator, Fraction(x.particle.mass).denominator],
                int(2 * x.spin_projection)]
    return ["d", s(d.parent), s(d.children[0]), s(d.children[1]), d.interaction.l_magnitude,
            irest(d.interaction)]


def run_impl(case: dict) -> dict:
    """Execute the history on the implementation and return every observable."""
    c = ctx(case["reaction"])
    take_log()
    b = c.new_builder(case["hc"])
    calllog: list = []
    builders = dict(LIB_BUILDERS)
    for k, ents in case["custom"].items():
        builders[int(k)] = make_custom(int(k), ents, calllog)
    bid = {id(f): k for k, f in builders.items()}
    # bound methods compare equal but have fresh ids: map through ==
    def ident(f):
        for k, g in builders.items():
            if f == g:
                return k
        return -1
    obs = {"init_keys": [decay_sig(d) for d in b.dynamics], "init_builders": [ident(f) for f in b.dynamics.values()],
           "steps": []}
    for sel in case["history"]:
        obj = realise(c, sel)
        try:
            b.dynamics.assign(obj, builders[sel["b"]])
            msgs = take_log()
            res = "notfound" if any("contains no resonance" in m for m in msgs) else "ok"
        except tuple(ERR) as e:
            res = ERR[type(e)]
            take_log()
        items = list(b.dynamics.items())
        # __getitem__ must agree with items()
        for d, f in items:
            assert b.dynamics[d] == f
        obs["steps"].append({"res": res, "builders": [ident(f) for _, f in items],
                             "keys": [decay_sig(d) for d, _ in items]})
    # formulate
    calllog.clear()
    try:
        model = b.formulate()
    except tuple(ERR) as e:
        obs["formulate"] = ERR[type(e)]
        take_log()
        return obs
    msgs = take_log()
    warns = []
    for m in msgs:
        mm = re.match(r'New default value (\S+) for parameter "(.*)" is inconsistent with existing value (\S+)$', m)
        if mm:
            warns.append([mm.group(2), fr(float(mm.group(1))), fr(float(mm.group(3)))])
        else:
            warns.append(["?" + m, [0, 1], [0, 1]])
    obs["formulate"] = "ok"
    obs["warnings"] = warns
    defaults = []
    for s, v in model.parameter_defaults.items():
        if s.name.startswith(("C_{", "H_{")):
            continue
        defaults.append([s.name, fr(v)])
    obs["defaults"] = defaults
    obs["calllog"] = [list(x) for x in calllog]
    obs["_model"] = model
    obs["_builder"] = b
    return obs


def fr(v):
    f = Fraction(v)
    return [f.numerator, f.denominator]


# ----------------------------------------------------------------------------- amplitude checks
def marker_numeric(expr: sp.Expr) -> sp.Expr:
    """replace the opaque markers dyn_k(a,b,c,L) by a concrete function for numeric evaluation"""
    def conv(f):
        k = int(f.func.__name__.split("_")[1])
        a, b_, c_, L = f.args
        L = sp.Integer(7) if L == L_NONE else L
        return (k + 2) + sp.Rational(11, 10) * a + sp.Rational(7, 10) * b_ ** 2 - sp.Rational(13, 10) * c_ + L / 3 + sp.I * a * c_
    return expr.replace(lambda e: isinstance(e, sp.Function) and e.func.__name__.startswith("dyn_"), conv)


def expected_factor(call) -> sp.Expr:
    """the builder's expression on the predicted variables; call = (b, vs, params) with
    vs = (m, ma, mb, L) names and params the predicted [(name, value)] of that call"""
    from ampform.dynamics import (
        EqualMassPhaseSpaceFactor,
        FormFactor,
        PhaseSpaceFactor,
        relativistic_breit_wigner,
        relativistic_breit_wigner_with_ff,
    )

    b, (m, ma, mb, L), pars = call
    M, MA, MB = (sp.Symbol(x, nonnegative=True) for x in (m, ma, mb))
    names = [p[0] for p in pars]
    if b == 0:
        return sp.S.One
    if b == 1:
        return relativistic_breit_wigner(M**2, par_symbol(names[0]), par_symbol(names[1]))
    if b in (2, 3):
        return relativistic_breit_wigner_with_ff(
            M**2, par_symbol(names[0]), par_symbol(names[1]), MA, MB, L, par_symbol(names[2]),
            phsp_factor=PhaseSpaceFactor if b == 2 else EqualMassPhaseSpaceFactor)
    if b == 4:
        return FormFactor(M**2, MA, MB, L, par_symbol(names[0]))
    return sp.Function(f"dyn_{b}")(M, MA, MB, L_NONE if L is None else L)


def numeric_equal(e1: sp.Expr, e2: sp.Expr, rng: random.Random, npoints=2) -> tuple[bool, str]:
    """e1 == e2 at random points (WignerD unfolded, markers made concrete)."""
    e1 = marker_numeric(e1).doit()
    e2 = marker_numeric(e2).doit()
    syms = sorted(e1.free_symbols | e2.free_symbols, key=str)
    done = 0
    for _ in range(6 * npoints):
        sub = {}
        for s in syms:
            if s.name.startswith("m_") and "{" not in s.name:
                sub[s] = sp.Rational(rng.randint(997, 4999), 997)  # kinematic masses
            else:
                sub[s] = sp.Rational(rng.randint(100, 1999), 1009)
        try:
            v1 = complex(sp.sympify(e1.xreplace(sub)).evalf(30))
            v2 = complex(sp.sympify(e2.xreplace(sub)).evalf(30))
        except TypeError:
            continue  # singular point of a lineshape (0/0 at a threshold): draw another point
        if v1 != v1 or v2 != v2 or abs(v1) == float("inf") or abs(v2) == float("inf"):
            continue
        # the same exact expression evaluated with 30 digits: agreement far below 1e-9 expected
        if abs(v1 - v2) > 1e-9 * (abs(v1) + abs(v2)) + 1e-12:
            return False, f"{v1} vs {v2} at {sub}"
        done += 1
        if done >= npoints:
            break
    if done == 0:
        return False, "no regular evaluation point found"
    return True, ""


# ----------------------------------------------------------------------------- Gallina output
def gstr(s: str) -> str:
    assert all(32 <= ord(ch) < 127 for ch in s), s
    return '"' + s.replace('"', '""') + '"'


def gZ(z: int) -> str:
    return f"({z})%Z"


def gQ(v) -> str:
    f = Fraction(v)
    return f"(Qmake ({f.numerator})%Z {f.denominator}%positive)"


def gopt(x, f) -> str:
    return "None" if x is None else f"(Some {f(x)})"


def gnat(n: int) -> str:
    return f"{int(n)}%nat"


def prest(p) -> str:
    d = attrs.asdict(p, recurse=True)
    for k in ("name", "latex", "mass", "width", "spin"):
        d.pop(k)
    return repr(sorted(d.items()))


def irest(i) -> str:
    return repr((i.l_projection, i.s_magnitude, i.s_projection, i.parity_prefactor))


def gparticle(p) -> str:
    assert 2 * p.spin == int(2 * p.spin)
    return (f"(mkParticle {gstr(p.name)} {gopt(p.latex, gstr)} {gQ(p.mass)} {gQ(p.width)} "
            f"{gnat(int(2 * p.spin))} {gstr(prest(p))})")


def gstate(c: Ctx, s) -> str:
    return f"(mkState P{c.pid(s.particle)} {gZ(int(2 * s.spin_projection))})"


def gint(i) -> str:
    return f"(mkInt {gopt(i.l_magnitude, gnat)} {gstr(irest(i))})"


def gtransition(c: Ctx, t) -> str:
    top = t.topology
    nodes = "[" + "; ".join(gZ(n) for n in top.nodes) + "]"
    edges = "[" + "; ".join(
        f"mkEdge {gZ(i)} {gopt(e.originating_node_id, gZ)} {gopt(e.ending_node_id, gZ)}"
        for i, e in top.edges.items()) + "]"
    states = "[" + "; ".join(f"({gZ(i)}, {gstate(c, s)})" for i, s in t.states.items()) + "]"
    ints = "[" + "; ".join(f"({gZ(n)}, {gint(i)})" for n, i in t.interactions.items()) + "]"
    return f"(mkTr {nodes} {edges} {states} {ints})"


def gdecay(c: Ctx, d: TwoBodyDecay) -> str:
    def w(x):
        return f"(mkSwid {gZ(x.id)} (mkState P{c.pid(x.particle)} {gZ(int(2 * x.spin_projection))}))"
    return f"(mkDecay {w(d.parent)} {w(d.children[0])} {w(d.children[1])} {gint(d.interaction)})"


def gselection(c: Ctx, sel: dict) -> str:
    k = sel["k"]
    if k == "str":
        return f"(SelStr {gstr(sel['name'])})"
    if k == "particle":
        return f"(SelParticle P{c.pid(realise(c, sel))})"
    if k == "decay":
        return f"(SelDecay {gdecay(c, realise(c, sel))})"
    if k == "node":
        i, j = sel["chain"]
        return f"(SelNode G{i}_{j} {gZ(sel['node'])})"
    if k == "badtuple":
        return "SelBadTuple"
    return "SelOther"


HEADER = """From Coq Require Import String List ZArith QArith Bool.
From AV Require Import Selector.
Import ListNotations.
Local Open Scope string_scope.
Set Printing Width 1000000.
Set Printing Depth 1000000.
Definition qp (q : Q) := (Qnum q, Zpos (Qden q)).
Definition sw (w : swid) := (w_id w, p_name (s_part (w_state w)), qp (p_mass (s_part (w_state w))), s_proj2 (w_state w)).
Definition dsig (d : decay) := ("d", sw (d_parent d), sw (d_c1 d), sw (d_c2 d), i_l (d_int d), i_rest (d_int d)).
Definition vsig (v : varset) := (v_m v, v_ma v, v_mb v, v_L v).
Definition psig (ps : params) := map (fun kv => (fst kv, qp (snd kv))) ps.
Definition show_init (r : err + choices) :=
  match r with inl e => inl e | inr ch => inr (map (fun kv => (snd kv, dsig (fst kv))) ch) end.
Definition show_trace (n0 : nat) (tr : list ((err + bool) * choices)) :=
  map (fun rc => (fst rc, map snd (snd rc), map (fun kv => dsig (fst kv)) (skipn n0 (snd rc)))) tr.
Definition show_call (P : builder -> particle -> varset -> option params) (c : node_call) :=
  match c with
  | None => None
  | Some (b, p, vs) => Some (b, p_name p, vsig vs, match P b p vs with Some ps => Some (psig ps) | None => None end)
  end.
Definition show_formulate (P : builder -> particle -> varset -> option params) (ch : choices) (chains : list transition) :=
  match all_calls ch chains with
  | inl e => inl e
  | inr css =>
    inr (map (map (show_call P)) css,
         match collect_params P (concat css) ([], []) with
         | inl e => inl e
         | inr (ds, ws) => inr (psig ds, map (fun w => (fst (fst w), qp (snd (fst w)), qp (snd w))) ws)
         end)
  end.
Definition final_choices (r : err + choices) (h : list (selection * builder)) : choices :=
  match r with inl _ => [] | inr ch => run_history ch h end.
Definition trace_of (r : err + choices) (h : list (selection * builder)) :=
  match r with inl _ => [] | inr ch => show_trace (length ch) (trace_history ch h) end.
"""


def gallina_reaction(c: Ctx, cases: list[dict]) -> str:
    """definitions for one reaction plus one block of Eval commands per case"""
    body = []
    # transitions and permuted graphs (this fills c.particles)
    tdefs = []
    for i, t in enumerate(c.transitions):
        tdefs.append(f"Definition T{i} : transition := {gtransition(c, t)}.")
        for j, g in enumerate(c.perms[i]):
            tdefs.append(f"Definition G{i}_{j} : transition := {gtransition(c, g)}.")
    rx = "[" + "; ".join(
        f"(T{i}, [" + "; ".join(f"G{i}_{j}" for j in range(len(c.perms[i]))) + "])"
        for i in range(len(c.transitions))) + "]"
    chains = "[" + "; ".join(f"G{i}_{j}" for i, j in c.chains) + "]"
    case_txt = []
    for n, case in enumerate(cases):
        hist = "[" + "; ".join(f"({gselection(c, s)}, {gnat(s['b'])})" for s in case["history"]) + "]"
        ct = "[" + "; ".join(
            f"({gnat(int(k))}, [" + "; ".join(gcentry(e) for e in ents) + "])"
            for k, ents in case["custom"].items()) + "]"
        case_txt.append(f"""Definition H{n} : list (selection * builder) := {hist}.
Definition CT{n} : ctable := {ct}.
Eval vm_compute in ("CASE", {n}%nat, "trace", trace_of INIT H{n}).
Eval vm_compute in ("CASE", {n}%nat, "formulate", show_formulate (all_params CT{n}) (final_choices INIT H{n}) CHAINS).""")
    pdefs = [f"Definition P{k} : particle := {gparticle(p)}." for k, p in enumerate(c.particles)]
    body.append(HEADER)
    body.extend(pdefs)
    body.extend(tdefs)
    body.append(f"Definition RX : reaction := {rx}.")
    body.append(f"Definition CHAINS : list transition := {chains}.")
    body.append("Definition INIT := init RX.")
    body.append('Eval vm_compute in ("REACTION", "wf", forallb wf_transition (flat_map snd RX ++ map fst RX)%list).')
    body.append('Eval vm_compute in ("REACTION", "init", show_init INIT).')
    body.append('Eval vm_compute in ("REACTION", "init_pinned_len", match init_pinned RX with inr ch => Some (length ch) | inl _ => None end).')
    body.append('Eval vm_compute in ("REACTION", "chains_covered", chains_covered RX CHAINS).')
    body.extend(case_txt)
    return "\n".join(body) + "\n"


def gcentry(e) -> str:
    if e[0] == "G":
        return f"CGlobal {gstr(e[1])} {gQ(e[2])}"
    if e[0] == "R":
        return f"CPerRes {gstr(e[1])} {gQ(e[2])}"
    return f"CMass {gstr(e[1])}"


# ----------------------------------------------------------------------------- Coq value parser
TOKEN = re.compile(r'\s*(?:%[A-Za-z_]+)?\s*(?:("(?:[^"]|"")*")|(\(|\)|\[|\]|;|,)|([A-Za-z_][A-Za-z0-9_\']*)|(-?\d+)|$)')


def parse_value(text: str):
    """Parse a Coq value printed by vm_compute (tuples, lists, strings, numbers, constructors
    applied to arguments) into Python lists / str / int / ('Ctor', args...)."""
    toks = []
    pos = 0
    text = text.strip()
    while pos < len(text):
        m = TOKEN.match(text, pos)
        if not m:
            if text[pos:].strip() == "":
                break
            raise ValueError("cannot tokenise at: " + text[pos:pos + 60])
        pos = m.end()
        if m.group(1) is not None:
            toks.append(("s", m.group(1)[1:-1].replace('""', '"')))
        elif m.group(2) is not None:
            toks.append(("p", m.group(2)))
        elif m.group(3) is not None:
            toks.append(("i", m.group(3)))
        elif m.group(4) is not None:
            toks.append(("n", int(m.group(4))))
        else:
            break
    i = 0

    def atom():
        nonlocal i
        k, v = toks[i]
        if k == "s" or k == "n":
            i += 1
            return v
        if k == "i":
            i += 1
            return (v,)
        if v == "(":
            i += 1
            items = [expr()]
            while toks[i] == ("p", ","):
                i += 1
                items.append(expr())
            assert toks[i] == ("p", ")"), toks[i]
            i += 1
            return items[0] if len(items) == 1 else items
        if v == "[":
            i += 1
            items = []
            if toks[i] != ("p", "]"):
                items.append(expr())
                while toks[i] == ("p", ";"):
                    i += 1
                    items.append(expr())
            assert toks[i] == ("p", "]"), toks[i]
            i += 1
            return ("list", items)
        raise ValueError(f"unexpected token {toks[i]}")

    def expr():
        nonlocal i
        head = atom()
        if isinstance(head, tuple) and len(head) == 1 and head[0] not in ("list",):
            args = []
            while i < len(toks) and not (toks[i][0] == "p" and toks[i][1] in ")];,"):
                args.append(atom())
            return (head[0], *args)
        return head

    v = expr()
    return v


def simplify(v):
    """('list', items) -> list; ('Some', x) -> x; ('None',) -> None; ('true',) -> True;
    ('inl', x) -> {'inl': x}; ('inr', x) -> {'inr': x}; Coq tuples (nested pairs) are flat lists."""
    if isinstance(v, tuple):
        if v[0] == "list":
            return [simplify(x) for x in v[1]]
        if v[0] == "Some":
            return simplify(v[1])
        if v[0] == "None":
            return None
        if v[0] in ("true", "false"):
            return v[0] == "true"
        if v[0] in ("inl", "inr"):
            return {v[0]: simplify(v[1])}
        if len(v) == 1:
            return v[0]
        return [v[0], *[simplify(x) for x in v[1:]]]
    if isinstance(v, list):
        return [simplify(x) for x in v]
    return v


def coq_results(out: str) -> list:
    """all '= value : type' answers of a coqc run, parsed"""
    res = []
    for m in re.finditer(r"^\s*= (.*)$", out, re.M):
        line = m.group(1)
        # strip the trailing ': type' (types contain no string literals with ' : ' at depth 0)
        depth = 0
        instr = False
        cut = None
        for idx, chh in enumerate(line):
            if chh == '"':
                instr = not instr
            elif not instr:
                if chh in "([":
                    depth += 1
                elif chh in ")]":
                    depth -= 1
                elif chh == ":" and depth == 0 and line[idx - 1] == " ":
                    cut = idx
                    break
        res.append(simplify(parse_value(line[:cut] if cut else line)))
    return res


# ----------------------------------------------------------------------------- comparison
def res_of_model(r) -> str:
    if "inl" in r:
        return r["inl"]
    return "ok" if r["inr"] else "notfound"


def compare(case: dict, obs: dict, pred: dict, rng: random.Random, n_numeric: int = 1,
            tag: str = "corr") -> tuple[list, dict]:
    """Diff the implementation's observables with a prediction.
    pred = {"init": [[b, sig]...] | None, "steps": [[res, builders|None, newkeys|None]...],
            "formulate": "EValue" | {"calls": [[call|None...]...], "defaults": [...]|None,
            "warnings": [...]|None}}  with call = [b, parent name, [m, ma, mb, L], params]."""
    fails = []
    stats = {"decay_lookups": 0, "chain_ratios": 0, "numeric": 0, "structural": 0, "cases_with_warnings": 0,
             "formulate_ok": 0, "error_steps": 0, "notfound_steps": 0}
    stats["cases_with_warnings"] = int(bool(obs.get("warnings")))
    stats["formulate_ok"] = int(obs["formulate"] == "ok")
    stats["error_steps"] = sum(1 for st in obs["steps"] if st["res"].startswith("E"))
    stats["notfound_steps"] = sum(1 for st in obs["steps"] if st["res"] == "notfound")

    def fail(sig, what):
        fails.append({"signature": f"{tag}:{sig}", "what": f"{case['reaction']}: {what}"[:600], "case": case})

    if pred.get("init") is not None:
        mine = [[b, k] for b, k in zip(obs["init_builders"], obs["init_keys"])]
        if mine != pred["init"]:
            fail("init_keys", f"initial selector differs: impl {len(mine)} keys, predicted {len(pred['init'])}")
    n0 = len(obs["init_keys"])
    for i, (st, pr) in enumerate(zip(obs["steps"], pred["steps"])):
        if st["res"] != pr[0]:
            fail("step_result", f"step {i} {case['history'][i]}: impl {st['res']} predicted {pr[0]}")
        if pr[1] is not None and st["builders"] != pr[1]:
            diff = [j for j, (a, b) in enumerate(zip(st["builders"], pr[1])) if a != b]
            fail("step_builders", f"step {i} {case['history'][i]}: builders differ at keys {diff[:6]} "
                                  f"(impl {[st['builders'][j] for j in diff[:6]]}, predicted {[pr[1][j] for j in diff[:6]]}); "
                                  f"lengths {len(st['builders'])}/{len(pr[1])}")
        if pr[2] is not None and st["keys"][n0:] != pr[2]:
            fail("new_keys", f"step {i}: appended keys differ")
        stats["decay_lookups"] += len(st["builders"])
    pf = pred["formulate"]
    if isinstance(pf, str) or obs["formulate"] != "ok":
        if obs["formulate"] != pf:
            fail("formulate_error", f"formulate(): impl {obs['formulate']} predicted "
                                    f"{pf if isinstance(pf, str) else 'ok'}")
        return fails, stats
    if pf.get("defaults") is not None and obs["defaults"] != pf["defaults"]:
        fail("defaults", f"parameter_defaults differ: impl {obs['defaults'][:6]} predicted {pf['defaults'][:6]}")
    if pf.get("warnings") is not None and obs["warnings"] != pf["warnings"]:
        fail("warnings", f"collision warnings differ: impl {obs['warnings'][:4]} predicted {pf['warnings'][:4]}")
    c = ctx(case["reaction"])
    calls = pf["calls"]
    want_log = [[cl[0], cl[1], *cl[2]] for chain in calls for cl in chain if cl is not None and cl[0] >= FIRST_CUSTOM]
    if obs["calllog"] != want_log:
        fail("call_order", f"custom builder calls differ: impl {obs['calllog'][:3]} predicted {want_log[:3]} "
                           f"({len(obs['calllog'])}/{len(want_log)})")
    # chain amplitudes
    b = obs["_builder"]
    model = obs["_model"]
    a0, _ = c.no_dynamics(case["hc"])
    seq = getattr(b, "_HelicityAmplitudeBuilder__formulate_sequential_decay")
    a1 = {}
    bad = 0
    numeric_left = n_numeric
    order = list(range(len(c.chains)))
    numeric_pick = set(rng.sample(order, min(n_numeric, len(order))))
    for ci, ij in enumerate(c.chains):
        e1 = seq(c.chain(ij))
        a1[ij] = e1
        factors = [expected_factor((cl[0], cl[2], cl[3] or [])) for cl in calls[ci] if cl is not None]
        expected = sp.Mul(a0[ij], *factors)
        stats["chain_ratios"] += 1
        same = e1 == expected
        stats["structural"] += bool(same)
        if not same:
            stats["mismatch"] = stats.get("mismatch", 0) + 1
        # numeric evaluation: the sampled chains, and the first structural mismatches of a case
        if (not same and bad == 0 and stats.get("mismatch", 0) <= 3) or ci in numeric_pick:
            ok, msg = numeric_equal(e1, expected, rng)
            stats["numeric"] += 1
            if not ok or not same:
                # a structural mismatch that is numerically equal is still reported when the
                # marker applications differ (wrong argument symbols with the same value cannot
                # happen at random points, so numeric equality decides)
                if not ok:
                    bad += 1
                    if bad <= 1:
                        got = sorted(str(f) for f in e1.atoms(sp.Function) if str(f.func).startswith("dyn_"))
                        fail("chain_factor", f"chain {ij} nodes {[(cl[1], cl[0], cl[2]) if cl else None for cl in calls[ci]]}: "
                                             f"amplitude with dynamics != amplitude without * predicted factors; markers in impl {got[:4]}; {msg[:200]}")
    take_log()
    # the public model.amplitudes entries are the sums of these chains per (spin group, topology)
    sums = [sp.Add(*[a1[ij] for ij in g]) for g in c.groups]
    pub = list(model.amplitudes.values())
    # (amplitude symbols of projection combinations without any transition are defined as 0)
    pub = [e for e in pub if e != 0]
    if sorted(map(sp.srepr, sums)) != sorted(map(sp.srepr, pub)):
        fail("public_amplitude", "model.amplitudes is not the per-topology sum of the chain amplitudes")
    return fails, stats


def strip(obs: dict) -> dict:
    return {k: v for k, v in obs.items() if not k.startswith("_")}
