"""C06 worker: executes operation histories on the running ampform, digests formulate() results,
monitors every functools-memoised value, and extracts the skeleton the Coq theorems assume.

  purity_C06.py info                 stdin {"reactions": [...]}          -> topology tables etc.
  purity_C06.py fresh                stdin {"cfg": {...}}                -> digest of ONE canonical build
  purity_C06.py freshbatch           stdin {"cfgs": [[key, cfg], ...]}   -> one canonical build per forked child
  purity_C06.py hist                 stdin {"histories": [...], "monitor": bool} -> one JSON line per history
  purity_C06.py skeleton <out.v>     probes -> Skel_C06.v + facts JSON

No source hook: functools.cache / functools.lru_cache are replaced by recording versions in THIS
process before ampform is imported, so the identity of every memoised object is known.
"""
from __future__ import annotations

import functools
import hashlib
import itertools
import json
import os
import sys

import sympy as sp  # third-party caches are not recorded (module filter below)

# ---------------------------------------------------------------------------------------
# deep snapshots of memo values (only the mutable parts can change)
def has_mutable(obj, _depth=0) -> bool:
    if isinstance(obj, (dict, list, set, bytearray)):
        return True
    if isinstance(obj, (tuple, frozenset)) and _depth < 6:
        return any(has_mutable(x, _depth + 1) for x in obj)
    return False


def deep(obj) -> str:
    if isinstance(obj, sp.Basic):
        return "S:" + sp.srepr(obj)
    if isinstance(obj, dict):
        return "{" + ",".join(deep(k) + ":" + deep(v) for k, v in obj.items()) + "}"
    if isinstance(obj, (list, tuple)):
        return ("[" if isinstance(obj, list) else "(") + ",".join(deep(x) for x in obj) + "]"
    if isinstance(obj, (set, frozenset)):
        return "set(" + ",".join(sorted(deep(x) for x in obj)) + ")"
    if isinstance(obj, (str, int, float, complex, bool, type(None))):
        return repr(obj)
    return f"<{type(obj).__module__}.{type(obj).__qualname__}>"


def snap(obj) -> str:
    """Snapshot of the parts of a memo value that could be written."""
    if not has_mutable(obj):
        return "IMM"
    if isinstance(obj, tuple):
        return "(" + ",".join(snap(x) for x in obj) + ")"
    return deep(obj)


# ---------------------------------------------------------------------------------------
# recording memoisers (installed before ampform is imported)
_ORIG_LRU = functools.lru_cache
_ORIG_CACHE = functools.cache
RECORDERS: list = []


class Recorder:
    def __init__(self, fn, inner):
        self.fn = fn
        self.inner = inner
        self.name = f"{fn.__module__}.{fn.__qualname__}"
        self.entries: dict = {}  # key -> dict(obj, snap, args, kwargs)
        self.calls = 0
        self.evicted = False


def _recording(decorator_factory):
    def deco(fn):
        inner = decorator_factory(fn)
        mod = getattr(fn, "__module__", "") or ""
        if not mod.startswith("ampform"):
            return inner
        rec = Recorder(fn, inner)
        RECORDERS.append(rec)

        @functools.wraps(fn)
        def wrapper(*args, **kwargs):
            res = inner(*args, **kwargs)
            rec.calls += 1
            key = (args, tuple(sorted(kwargs.items())))
            ent = rec.entries.get(key)
            if ent is not None and any(a is not b for a, b in zip(args, ent["args"])) and rec.name not in KEY_COLLISIONS:
                # a hit through EQUAL but not identical arguments: if they are distinguishable (repr) the
                # memo key must still determine the result
                try:
                    if repr(args) != repr(ent["args"]) and deep(rec.fn(*args, **kwargs)) != deep(res):
                        KEY_COLLISIONS.append(rec.name)
                except Exception:  # noqa: BLE001
                    pass
            if ent is None:
                rec.entries[key] = {"obj": res, "snap": snap(res), "args": args, "kwargs": kwargs,
                                    "deep0": deep(res) if has_mutable(res) else None}
            elif ent["obj"] is not res:
                rec.evicted = True  # lru eviction: a new object was computed for a known key
                ent["obj"], ent["snap"] = res, snap(res)
            if has_mutable(res):
                MEMO_MUTABLE_CALLS.append(rec.name)
            return res

        wrapper.cache_clear = inner.cache_clear
        wrapper.cache_info = inner.cache_info
        wrapper.cache_parameters = getattr(inner, "cache_parameters", None)
        wrapper.__c06_recorder__ = rec
        return wrapper

    return deco


def _lru_cache(maxsize=128, typed=False):
    if callable(maxsize) and isinstance(typed, bool):  # used as @lru_cache without call
        fn = maxsize
        return _recording(lambda f: _ORIG_LRU(128, typed)(f))(fn)
    return _recording(lambda f: _ORIG_LRU(maxsize, typed)(f))


def _cache(fn):
    return _recording(lambda f: _ORIG_LRU(None)(f))(fn)


MEMO_MUTABLE_CALLS: list = []
KEY_COLLISIONS: list = []  # memoised functions whose key equates arguments that give different results
functools.lru_cache = _lru_cache
functools.cache = _cache

import common  # noqa: E402  (forces /repo/src, silences noise)

common.assert_repo_import()
import attrs  # noqa: E402
import qrules  # noqa: E402

import ampform  # noqa: E402
import ampform.dynamics.builder as dynb  # noqa: E402
import reactions  # noqa: E402
from ampform.helicity.align import NoAlignment, SpinAlignment  # noqa: E402
from ampform.helicity.align.axisangle import AxisAngleAlignment  # noqa: E402
from ampform.helicity.align.dpd import DalitzPlotDecomposition, relabel_edge_ids  # noqa: E402

import importlib  # noqa: E402
import pkgutil  # noqa: E402

for _m in pkgutil.walk_packages(ampform.__path__, "ampform."):  # every module: caches created at import time
    try:  # (module level, static/class methods, nested classes) are decorated by the recording versions
        importlib.import_module(_m.name)
    except Exception:  # noqa: BLE001  optional dependencies
        pass
import ampform.dynamics.phasespace as phsp  # noqa: E402

functools.lru_cache = _ORIG_LRU  # everything of the package is imported by now
functools.cache = _ORIG_CACHE


def mutable_ids(obj, acc: set, _depth=0):
    if isinstance(obj, (dict, list, set)):
        acc.add(id(obj))
    if _depth > 6:
        return
    if isinstance(obj, dict):
        for v in obj.values():
            mutable_ids(v, acc, _depth + 1)
    elif isinstance(obj, (list, tuple, set, frozenset)):
        for v in obj:
            mutable_ids(v, acc, _depth + 1)


def memo_mutable_ids() -> set:
    acc: set = set()
    for rec in RECORDERS:
        for ent in rec.entries.values():
            mutable_ids(ent["obj"], acc)
    return acc


def check_memo_writes() -> list:
    """Functions one of whose memoised values differs from its snapshot at insertion."""
    out = []
    for rec in RECORDERS:
        for ent in rec.entries.values():
            if ent["snap"] != "IMM" and snap(ent["obj"]) != ent["snap"]:
                out.append(rec.name)
                break
    return out


def check_memo_stale() -> list:
    """Functions whose un-memoised recomputation now differs from the value stored at insertion, or whose
    key equated arguments that give different results."""
    out = list(KEY_COLLISIONS)
    for rec in RECORDERS:
        raw = rec.fn
        for ent in list(rec.entries.values()):
            try:
                again = raw(*ent["args"], **ent["kwargs"])
            except Exception:  # noqa: BLE001
                continue
            first = ent["deep0"] if ent["deep0"] is not None else deep(ent["obj"])
            if deep(again) != first:
                out.append(rec.name)
                break
    return out


# ---------------------------------------------------------------------------------------
# define_symbols observation (run-time wrapper, no source edit)
DEFINE_OBS: dict = {}  # class name -> set of modes observed


def _all_subclasses(cls):
    for sub in cls.__subclasses__():
        yield sub
        yield from _all_subclasses(sub)


def install_define_symbols_observer():
    for cls in set(_all_subclasses(SpinAlignment)):
        raw = cls.__dict__.get("define_symbols")
        if raw is None or getattr(raw, "__c06__", False):
            continue
        is_static = isinstance(raw, staticmethod)
        f = raw.__func__ if is_static else raw

        def make(f=f, cls=cls):
            def wrapped(*a, **k):
                n0 = len(MEMO_MUTABLE_CALLS)
                res = f(*a, **k)
                used = len(MEMO_MUTABLE_CALLS) > n0
                ids = memo_mutable_ids()
                mode = "MemoAlias" if id(res) in ids else ("MemoCopy" if used else "Fresh")
                DEFINE_OBS.setdefault(cls.__name__, set()).add(mode)
                LAST_DEFINE.append((cls.__name__, mode))
                return res

            wrapped.__c06__ = True
            return wrapped

        w = make()
        setattr(cls, "define_symbols", staticmethod(w) if is_static else w)


LAST_DEFINE: list = []

# ---------------------------------------------------------------------------------------
def _custom_builder(resonance, variable_pool):
    """A user-written ResonanceDynamicsBuilder (fresh objects on every call)."""
    name = resonance.latex or resonance.name
    g = sp.Symbol(f"g_{{{name}}}", real=True)
    m0 = sp.Symbol(f"m_{{{name}}}", nonnegative=True)
    return g / (m0**2 - variable_pool.incoming_state_mass**2), {g: 1.5, m0: resonance.mass}


_RBW = dynb.RelativisticBreitWignerBuilder
DYN = [
    dynb.create_non_dynamic,                                           # 0
    dynb.create_relativistic_breit_wigner,                             # 1  prebuilt helper
    dynb.create_relativistic_breit_wigner_with_ff,                     # 2  prebuilt helper
    dynb.create_analytic_breit_wigner,                                 # 3  prebuilt helper
    dynb.create_non_dynamic_with_ff,                                   # 4
    _RBW(form_factor=True, energy_dependent_width=False),              # 5  fixed width x form factor
    _RBW(form_factor=False, energy_dependent_width=True),              # 6
    _RBW(form_factor=True, energy_dependent_width=True, phsp_factor=phsp.PhaseSpaceFactorAbs),    # 7
    _RBW(form_factor=False, energy_dependent_width=True, phsp_factor=phsp.PhaseSpaceFactorSWave),  # 8
    _RBW(form_factor=True, energy_dependent_width=False, phsp_factor=phsp.PhaseSpaceFactorComplex),  # 9
    _RBW(form_factor=False, energy_dependent_width=False),             # 10 a second plain instance
    _custom_builder,                                                   # 11
]
_REACTIONS: dict = {}


def topo_key(t):
    return tuple(sorted((i, -9 if e.originating_node_id is None else e.originating_node_id,
                         -9 if e.ending_node_id is None else e.ending_node_id)
                        for i, e in t.edges.items()))


def permuted(topology):
    """All relabellings of the final-state ids (written independently of HelicityAdapter)."""
    fs = sorted(topology.outgoing_edge_ids)
    out = []
    for perm in itertools.permutations(fs):
        m = dict(zip(fs, perm))
        out.append(attrs.evolve(topology, edges={m.get(i, i): e for i, e in topology.edges.items()}))
    return out


INFO: dict = {}  # name -> tables computed once by the `info` mode in ANOTHER process


def twin_reaction(reaction):
    from qrules.transition import ReactionInfo, State  # noqa: PLC0415

    inter = set(reaction.get_intermediate_particles().names)

    def twin(p):
        if p.name not in inter:
            return p
        return attrs.evolve(p, name="X" + p.name, latex="X[" + (p.latex or p.name) + "]")

    transitions = [attrs.evolve(t, states={i: State(twin(st.particle), st.spin_projection) for i, st in t.states.items()})
                   for t in reaction.transitions]
    return ReactionInfo(transitions, formalism=reaction.formalism)


class RInfo:
    def __init__(self, name: str):
        self.name = name
        r0 = reactions.load(name)
        self.variants = [r0]
        try:
            self.variants.append(relabel_edge_ids(r0))
        except Exception:  # noqa: BLE001
            self.variants.append(r0)
        # variants 2, 3: TWIN reactions — every resonance is a particle with the same quantum numbers, mass and
        # width but another name and LaTeX (qrules' Particle.__eq__/__hash__ ignore name, pid and latex, so
        # the twin compares EQUAL to the original: anything memoised on particles/states/transitions/reactions
        # must not depend on what the particle is called)
        self.variants += [twin_reaction(r) for r in self.variants[:2]]
        self.canonical = "canonical" in (r0.formalism or "")
        self.resonances_of = [sorted(r.get_intermediate_particles().names) for r in self.variants]
        self.resonances = self.resonances_of[0]
        self.universe, self.base, self.perms = [], [], []
        self.rdigest = [None, None, None, None]
        if name in INFO:
            # rebuild the topology tables from data: no ampform function runs before the first operation
            from qrules.topology import Edge, Topology  # noqa: PLC0415

            inf = INFO[name]
            self.base, self.perms = inf["base"], inf["perms"]
            for uni in inf["universe"]:
                self.universe.append([Topology(nodes=frozenset(t["nodes"]),
                                               edges={int(i): Edge(e[0], e[1]) for i, e in t["edges"].items()})
                                      for t in uni])
            return
        for r in self.variants:
            b = ampform.get_builder(r)
            base = list(b.adapter.registered_topologies)
            uni = {topo_key(t): t for t in base}
            for t in base:
                for p in permuted(t):
                    uni.setdefault(topo_key(p), p)
            keys = sorted(uni)
            self.universe.append([uni[k] for k in keys])
            self.base.append(sorted(keys.index(topo_key(t)) for t in base))
            self.perms.append([sorted({keys.index(topo_key(p)) for p in permuted(uni[k])}) for k in keys])

    def reaction_digest(self, v: int) -> str:
        if self.rdigest[v] is None:
            d = qrules.io.asdict(self.variants[v])
            self.rdigest[v] = h(json.dumps(d, sort_keys=True, default=str))
        return self.rdigest[v]


def rinfo(name: str) -> RInfo:
    if name not in _REACTIONS:
        _REACTIONS[name] = RInfo(name)
    return _REACTIONS[name]


def h(s: str) -> str:
    return hashlib.sha256(s.encode()).hexdigest()[:12]


def digest_model(m, ri: RInfo, variant: int) -> dict:
    out = {"intensity": [["", h(sp.srepr(m.intensity))]]}
    out["amplitudes"] = [[str(k), h(sp.srepr(k) + "=" + sp.srepr(v))] for k, v in m.amplitudes.items()]
    out["parameter_defaults"] = [[str(k), h(sp.srepr(k) + "=" + repr(v))] for k, v in m.parameter_defaults.items()]
    out["kinematic_variables"] = [[str(k), h(sp.srepr(k) + "=" + sp.srepr(v))] for k, v in m.kinematic_variables.items()]
    out["components"] = [[str(k), h(repr(k) + "=" + sp.srepr(v))] for k, v in m.components.items()]
    from ampform.helicity.naming import natural_sorting  # noqa: PLC0415

    for attr, names in (("amplitudes", [str(k) for k in m.amplitudes]),
                        ("kinematic_variables", [k.name for k in m.kinematic_variables]),
                        ("components", list(m.components))):
        keys = [repr((natural_sorting(n), n)) for n in names]
        if len(set(keys)) != len(keys):  # the sorting converter's key is not injective on this dictionary
            out.setdefault("_ties", []).append(attr)
    same = m.reaction_info is ri.variants[variant] or m.reaction_info == ri.variants[variant]
    out["reaction_info"] = [["", ri.reaction_digest(variant) if same else h(repr(m.reaction_info))]]
    return out


def alignment(code: int):
    if code == 0:
        return NoAlignment()
    if code == 1:
        return AxisAngleAlignment()
    return DalitzPlotDecomposition(code - 10)


class Executor:
    """Runs ops on real builders.  Builder index = creation order; ops on missing builders are skipped."""

    def __init__(self, name: str):
        self.ri = rinfo(name)
        self.builders: list = []
        self.variant: list = []

    def apply(self, op):
        kind = op[0]
        if kind == "new":
            v = int(op[1])
            self.builders.append(ampform.get_builder(self.ri.variants[v]))
            self.variant.append(v)
            return None
        i = op[1]
        if not (0 <= i < len(self.builders)):
            return None
        b, v = self.builders[i], self.variant[i]
        if kind == "align":
            b.config.spin_alignment = alignment(op[2])
        elif kind == "scalar":
            b.config.scalar_initial_state_mass = bool(op[2])
        elif kind == "stable":
            b.config.stable_final_state_ids = None if op[2] is None else list(op[2])
        elif kind == "helcoup":
            b.config.use_helicity_couplings = bool(op[2])
        elif kind == "naming":
            attr = {"parent": "insert_parent_helicities", "child": "insert_child_helicities",
                    "ls": "insert_ls_combinations"}[op[2]]
            setattr(b.naming, attr, bool(op[3]))
        elif kind == "assign":
            names = self.ri.resonances_of[v]
            b.dynamics.assign(names[op[2] % len(names)], DYN[op[3]])
        elif kind == "assigndecay":
            # the two by-node overloads of DynamicsSelector.assign: TwoBodyDecay and (transition, node_id)
            from ampform.helicity.decay import TwoBodyDecay  # noqa: PLC0415

            decay = list(b.dynamics)[op[2]]
            target = decay
            if len(op) > 4 and op[4] == "tuple":
                for t in b.reaction.transitions:
                    hit = [n for n in t.topology.nodes if TwoBodyDecay.from_transition(t, n) == decay]
                    if hit:
                        target = (t, hit[0])
                        break
            b.dynamics.assign(target, DYN[op[3]])
        elif kind == "regtopo":
            b.adapter.register_topology(self.ri.universe[v][op[2]])
        elif kind == "permutate":
            b.adapter.permutate_registered_topologies()
        elif kind == "formulate":
            try:
                m = b.formulate()
            except Exception as e:  # noqa: BLE001
                return {"error": [["", h(type(e).__name__ + ":" + str(e))]], "_exc": type(e).__name__ + ": " + str(e)[:120]}
            return digest_model(m, self.ri, v)
        else:
            raise ValueError(kind)
        return None


def build_canonical(cfg: dict):
    """One builder configured by a canonical op sequence from a decoded configuration."""
    ex = Executor(cfg["reaction"])
    ri = ex.ri
    v = cfg["variant"]
    ops = [["new", v], ["align", 0, cfg["align"]], ["scalar", 0, cfg["scalar"]],
           ["stable", 0, cfg["stable"]], ["helcoup", 0, cfg["helcoup"]],
           ["naming", 0, "parent", cfg["parent"]], ["naming", 0, "child", cfg["child"]]]
    if ri.canonical:
        ops.append(["naming", 0, "ls", cfg["ls"]])
    for sel, bld in cfg["dyn"]:
        ops.append(["assigndecay", 0, sel, bld, "decay"])
    for t in cfg["topos"]:
        if t not in ri.base[v]:
            ops.append(["regtopo", 0, t])
    missing = [t for t in ri.base[v] if t not in cfg["topos"]]
    for op in ops:
        ex.apply(op)
    if missing:
        return ex, {"error": [["", "config lacks base topology %s" % missing]]}
    return ex, ex.apply(["formulate", 0, []])


def run_history(hist: dict, monitor: bool) -> dict:
    LAST_DEFINE.clear()
    ex = Executor(hist["reaction"])
    out = {"id": hist.get("id"), "formulates": [], "memo_written": [], "op_errors": []}
    for k, op in enumerate(hist["ops"]):
        try:
            res = ex.apply(op)
        except Exception as e:  # noqa: BLE001
            out["op_errors"].append([k, type(e).__name__ + ": " + str(e)[:100]])
            res = None
        if op[0] == "formulate" and 0 <= op[1] < len(ex.builders):
            out["formulates"].append({"op": k, "digest": res})
        if monitor:
            for fn in check_memo_writes():
                if not any(fn == w[1] for w in out["memo_written"]):
                    out["memo_written"].append([k, fn])
    if monitor:
        out["memo_stale"] = check_memo_stale()
        out["define_modes"] = {k: sorted(v) for k, v in DEFINE_OBS.items()}
        out["memo_functions"] = {rec.name: [len(rec.entries),
                                            sum(1 for e in rec.entries.values() if e["snap"] != "IMM")]
                                 for rec in RECORDERS}
    return out


def forked(fn, *args):
    """Run fn(*args) in a forked child (state isolation between histories); returns its JSON result."""
    r, w = os.pipe()
    pid = os.fork()
    if pid == 0:
        os.close(r)
        try:
            res = fn(*args)
        except BaseException as e:  # noqa: BLE001
            res = {"crash": type(e).__name__ + ": " + str(e)[:300]}
        with os.fdopen(w, "w") as fh:
            json.dump(res, fh, default=str)
        os._exit(0)
    os.close(w)
    with os.fdopen(r) as fh:
        data = fh.read()
    os.waitpid(pid, 0)
    return json.loads(data) if data else {"crash": "no output"}


# ---------------------------------------------------------------------------------------
# skeleton extraction
PROBE_REACTIONS = ["jpsi_ksp_hel", "jpsi_gpipi_f2_can"]


def probe_histories() -> list:
    hs = []
    for name in PROBE_REACTIONS:
        for code in (0, 1, 11, 12, 13):
            v = 1 if code >= 10 else 0
            hs.append({"id": f"probe:{name}:{code}", "reaction": name, "ops": [
                ["new", v], ["align", 0, code], ["formulate", 0, []],
                ["stable", 0, [1, 2]], ["formulate", 0, []],
                ["new", v], ["align", 1, code], ["scalar", 1, True], ["formulate", 1, []],
                ["stable", 0, None], ["formulate", 0, []],
            ]})
    for name in PROBE_REACTIONS:
        hs.append({"id": f"probe:{name}:twin", "reaction": name, "ops": [
            ["new", 0], ["helcoup", 0, True], ["formulate", 0, []], ["new", 2], ["helcoup", 1, True], ["formulate", 1, []],
            ["new", 3], ["align", 2, 11], ["formulate", 2, []], ["new", 1], ["align", 3, 11], ["formulate", 3, []],
        ]})
        hs.append({"id": f"probe:{name}:dyn", "reaction": name, "ops": [
            ["new", 0], ["assign", 0, 0, 5], ["formulate", 0, []], ["assign", 0, 0, 1], ["formulate", 0, []],
            ["new", 0], ["assign", 1, 0, 10], ["assign", 1, 1, 7], ["formulate", 1, []],
            ["assign", 0, 0, 6], ["assign", 0, 1, 4], ["formulate", 0, []], ["assign", 1, 1, 9], ["assign", 1, 0, 11],
            ["formulate", 1, []], ["assign", 0, 1, 2], ["assign", 0, 0, 3], ["formulate", 0, []],
            ["assigndecay", 0, 1, 1, "decay"], ["assigndecay", 0, 2, 5, "tuple"], ["formulate", 0, []],
        ]})
    return hs


def probe_reset(name: str) -> dict:
    """Behavioural: formulate A (helicity couplings, dynamics) then B on ONE builder vs B on a new one.
    Direct: poison the scratch object (when it can be found) and look for the poison in the model."""
    ri = rinfo(name)
    r = ri.variants[0]
    b = ampform.get_builder(r)
    b.config.use_helicity_couplings = True
    for n in ri.resonances:
        b.dynamics.assign(n, dynb.create_relativistic_breit_wigner)
    b.formulate()
    b.config.use_helicity_couplings = False
    for n in ri.resonances:
        b.dynamics.assign(n, dynb.create_non_dynamic)
    m_ab = b.formulate()
    m_b = ampform.get_builder(r).formulate()
    same_keys = (list(map(str, m_ab.parameter_defaults)) == list(map(str, m_b.parameter_defaults))
                 and list(m_ab.components) == list(m_b.components)
                 and list(map(str, m_ab.amplitudes)) == list(map(str, m_b.amplitudes)))
    poisoned = None
    for val in vars(b).values():
        if type(val).__module__.startswith("ampform") and "ngredient" in type(val).__name__:
            names = [a.name for a in attrs.fields(type(val))] if attrs.has(type(val)) else list(getattr(val, "__dict__", {}))
            fields = [f for f in names if isinstance(getattr(val, f, None), dict)]
            for f in fields:
                key = "__C06_poison__" if f == "components" else (
                    sp.IndexedBase("__C06_poison__")[0] if f == "amplitudes" else sp.Symbol("__C06_poison__"))
                getattr(val, f)[key] = sp.S.Zero
            m = b.formulate()
            txt = " ".join(map(str, list(m.parameter_defaults) + list(m.components) + list(m.amplitudes)
                               + list(m.kinematic_variables)))
            poisoned = "__C06_poison__" in txt
    return {"behavioural_reset": same_keys, "poison_survives": poisoned,
            "resets": bool(same_keys and not poisoned)}


def probe_reregister(name: str) -> dict:
    """After ANY single setter call (whatever was set before it) the derived coefficient-name table must
    equal the one of a generator constructed with the same flags."""
    ri = rinfo(name)
    r = ri.variants[0]
    bad, checked = [], 0
    flags = ["insert_parent_helicities", "insert_child_helicities"] + (["insert_ls_combinations"] if ri.canonical else [])
    for last in flags:
        others = [f for f in flags if f != last]
        for combo in itertools.product([False, True], repeat=len(others)):
            for val in (False, True):
                b = ampform.get_builder(r)
                for f, v in zip(others, combo):
                    setattr(b.naming, f, v)
                setattr(b.naming, last, val)  # the setter under test is the LAST one called
                now = {**dict(zip(others, combo)), last: val}
                ref = type(b.naming)(r, **now)
                checked += 1
                if dict(b.naming.parity_partner_coefficient_mapping) != dict(ref.parity_partner_coefficient_mapping):
                    bad.append(last)
    return {"reregisters": not bad, "checked": checked, "offending_setters": sorted(set(bad))}


def extract_skeleton(out_v: str) -> dict:
    install_define_symbols_observer()
    facts = {"memo_written": [], "memo_stale": [], "define": {}, "probes": 0, "failures": []}
    for hist in probe_histories():
        res = run_history(hist, True)  # same process on purpose: memo tables are shared by all probes
        facts["probes"] += 1
        for k, fn in res["memo_written"]:
            if fn not in [x[0] for x in facts["memo_written"]]:
                facts["memo_written"].append([fn, hist, k])
        for fn in res["memo_stale"]:
            if fn not in [x[0] for x in facts["memo_stale"]]:
                facts["memo_stale"].append([fn, hist])
    facts["define"] = {k: sorted(v) for k, v in DEFINE_OBS.items()}
    facts["memo_functions"] = {rec.name: [len(rec.entries), sum(1 for e in rec.entries.values() if e["snap"] != "IMM")]
                               for rec in RECORDERS}
    facts["reset"] = {n: probe_reset(n) for n in PROBE_REACTIONS}
    facts["reregister"] = {n: probe_reregister(n) for n in PROBE_REACTIONS}

    def mode(cls):
        seen = set(facts["define"].get(cls, []))
        for m in ("MemoAlias", "MemoCopy", "Fresh"):
            if m in seen:
                return m
        return "Fresh"

    known = {"NoAlignment", "AxisAngleAlignment", "DalitzPlotDecomposition"}
    extra_alias = [c for c, v in facts["define"].items() if c not in known and "MemoAlias" in v]
    resets = all(v["resets"] for v in facts["reset"].values())
    rereg = all(v["reregisters"] for v in facts["reregister"].values())
    written = bool(facts["memo_written"]) or bool(extra_alias)
    stale = bool(facts["memo_stale"])
    b = lambda x: "true" if x else "false"  # noqa: E731
    with open(out_v, "w") as fh:
        fh.write("(* generated by bridge/purity_C06.py from OBSERVATION of the running implementation *)\n")
        fh.write("From AV Require Import Purity.\n")
        fh.write("Definition observed : skeleton :=\n  {| sk_none := %s; sk_axis := %s; sk_dpd := %s;\n"
                 "     sk_resets := %s; sk_reregisters := %s |}.\n"
                 % (mode("NoAlignment"), mode("AxisAngleAlignment"), mode("DalitzPlotDecomposition"),
                    b(resets), b(rereg)))
        fh.write("Definition memo_written_after_insertion : bool := %s.\n" % b(written))
        fh.write("Definition memo_stale_on_recompute : bool := %s.\n" % b(stale))
        fh.write("(* memoised functions seen (entries, entries holding mutable objects): %s *)\n"
                 % json.dumps(facts["memo_functions"]))
    facts["skeleton"] = {"sk_none": mode("NoAlignment"), "sk_axis": mode("AxisAngleAlignment"),
                         "sk_dpd": mode("DalitzPlotDecomposition"), "sk_resets": resets,
                         "sk_reregisters": rereg, "memo_written": written, "memo_stale": stale}
    return facts


# ---------------------------------------------------------------------------------------
def main():
    mode = sys.argv[1]
    if mode == "info":
        req = json.load(sys.stdin)
        out = {}
        for name in req["reactions"]:
            ri = rinfo(name)
            out[name] = {"canonical": ri.canonical, "n_res": len(ri.resonances), "base": ri.base,
                         "perms": ri.perms, "n_topos": [len(u) for u in ri.universe],
                         "n_final": len(ri.variants[0].final_state), "n_dyn": len(DYN),
                         "decays_of": [[[i for i, d in enumerate(ampform.get_builder(r).dynamics)
                                         if d.parent.particle.name == nm] for nm in ri.resonances_of[vv]]
                                       for vv, r in enumerate(ri.variants)],
                         "n_decays": [len(ampform.get_builder(r).dynamics) for r in ri.variants],
                         "universe": [[{"nodes": sorted(t.nodes),
                                        "edges": {str(i): [e.originating_node_id, e.ending_node_id]
                                                  for i, e in t.edges.items()}} for t in u]
                                      for u in ri.universe]}
        print(json.dumps(out))
    elif mode == "fresh":
        req = json.load(sys.stdin)
        INFO.update(req.get("info") or {})
        _, dig = build_canonical(req["cfg"])
        print(json.dumps({"digest": dig}))
    elif mode == "freshbatch":
        # each configuration is built in a forked child of this interpreter, which has only IMPORTED
        # ampform (no builder, empty memo tables): process state == a fresh interpreter after import
        req = json.load(sys.stdin)
        INFO.update(req.get("info") or {})
        for k, cfg in req["cfgs"]:
            res = forked(lambda c=cfg: {"digest": build_canonical(c)[1]})
            res["key"] = k
            print(json.dumps(res), flush=True)
    elif mode == "hist":
        req = json.load(sys.stdin)
        INFO.update(req.get("info") or {})
        if req.get("monitor"):
            install_define_symbols_observer()
        for hist in req["histories"]:
            res = forked(run_history, hist, bool(req.get("monitor")))
            res.setdefault("id", hist.get("id"))
            print(json.dumps(res), flush=True)
    elif mode == "skeleton":
        facts = extract_skeleton(sys.argv[2])
        print(json.dumps(facts, default=str))
    else:
        raise SystemExit("unknown mode " + mode)


if __name__ == "__main__":
    main()
