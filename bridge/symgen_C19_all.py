"""C19: run both regenerators; argv[1] is the path of Gen_C19.v, Gen_C19_dpd.v is written next to it."""
import os
import runpy
import sys

here = os.path.dirname(os.path.abspath(__file__))
target = sys.argv[1]
sys.argv = ["symgen_C19.py", target]
runpy.run_path(os.path.join(here, "symgen_C19.py"), run_name="__main__")
sys.argv = ["symgen_C19_dpd.py", os.path.join(os.path.dirname(os.path.abspath(target)), "Gen_C19_dpd.v")]
runpy.run_path(os.path.join(here, "symgen_C19_dpd.py"), run_name="__main__")
