"""C17 differential harness on the IMPLEMENTATION: checks the property as stated, with an oracle
written from the property text (not from rename_symbols):

  S = the symbol map "every free Symbol whose name is in the rename map gets the new name and
      keeps its assumptions", applied with SymPy's xreplace to every attribute of the ORIGINAL;
  m' = model.rename_symbols(map) must have intensity/amplitudes/components/parameter
  defaults/kinematic variables/expression equal to that, sorted as HelicityModel sorts, with
  assumptions preserved, unrelated symbols untouched, the original unchanged (digest), the C01
  closure preserved, and the same numeric intensity at carried-over values.

usage: search_C17.py <seed> <n> [quick|thorough]   -> JSON {evaluations, distinct, samples, kinds, failures}
       search_C17.py --replay <json-file>          -> JSON {still_fails: bool}
"""
from __future__ import annotations

import json
import random
import re
import sys

import lib_C17 as L
import numpy as np
import sympy as sp

KNOWN_A = "rename_merges_kinvar_with_parameter"
KNOWN_B = "rename_merges_two_kinvars"
FALLBACKS: list = []  # comparisons decided by value because SymPy's two forms differ structurally


def natkey(text: str):
    """Natural sort key, written independently: digit runs (optionally with a fraction) compare as numbers."""
    parts = re.split(r"[+-]?([0-9]+(?:[.][0-9]*)?|[.][0-9]+)", text)
    return [float(p) if i % 2 else p for i, p in enumerate(parts)]


def free_syms(m) -> set:
    """Symbols in the scope of rename_symbols as documented: those of expression (= amplitude
    definitions), parameter_defaults, components, kinematic_variables.  A symbol that occurs ONLY
    inside the intensity / the amplitude keys (IndexedBase label, summation index) is private: a
    homonymous symbol with other assumptions elsewhere does not drag it along."""
    out = set()
    trees = [m.expression, *m.amplitudes.values(), *m.parameter_defaults, *m.kinematic_variables,
             *m.kinematic_variables.values(), *m.components.values()]
    for t in trees:
        out |= {s for s in t.free_symbols if isinstance(s, sp.Symbol)}
    return out


_DOIT: dict = {}


def numeric(m, m2, S, rng):
    """|I'(rho) - I(rho o S)| at a random point; None if not comparable."""
    key = id(m)
    if key not in _DOIT:
        _DOIT[key] = (m, m.expression.doit())
    e1 = _DOIT[key][1]
    e2 = m2.expression.doit()
    _DOIT[id(m2)] = (m2, e2)
    a1 = sorted(e1.free_symbols, key=lambda s: (s.name, str(sorted(s.assumptions0.items()))))
    a2 = sorted(e2.free_symbols, key=lambda s: (s.name, str(sorted(s.assumptions0.items()))))
    if not all(isinstance(s, sp.Symbol) for s in a1 + a2):
        return None
    f1 = sp.lambdify(a1, e1, "numpy", cse=True, dummify=True)
    f2 = sp.lambdify(a2, e2, "numpy", cse=True, dummify=True)
    worst = 0.0
    for _ in range(2):
        draw = lambda: np.float64(rng.choice([rng.uniform(0.3, 2.5), rng.randint(1, 9) / 4]))  # noqa: E731
        rho = {s: draw() for s in a2}
        for s in a1:  # a symbol that dropped out of the renamed expression (|exp(i phi)| = 1) is free to vary
            rho.setdefault(S.get(s, s), draw())
        try:
            v2 = complex(f2(*[rho[s] for s in a2]))
            v1 = complex(f1(*[rho[S.get(s, s)] for s in a1]))
        except (ZeroDivisionError, FloatingPointError, OverflowError):
            continue
        if not (np.isfinite(v1) and np.isfinite(v2)):
            continue
        worst = max(worst, abs(v1 - v2) / max(1e-300, abs(v1), abs(v2)))
    return ("ok", worst)


def check_step(m, m2, pairs, rng, do_numeric=True):
    """Property checks for one rename; -> list of (signature, what)."""
    r = dict(pairs)
    fails = []
    kin_par, kin_kin = L.classify_merge(m, pairs)
    F = free_syms(m)
    S = {s: sp.Symbol(r[s.name], **s.assumptions0) for s in F if s.name in r}
    xs = lambda e: e.xreplace(S)  # noqa: E731
    if not pairs:
        if m2 is not m and L.model_digest(m2) != L.model_digest(m):
            fails.append(("empty_map_changes_model", "rename_symbols({}) differs from the model"))
        return fails
    # --- every attribute equals the original with S applied
    if m2.intensity != xs(m.intensity):
        fails.append(("intensity_not_xreplaced", "intensity != intensity.xreplace(S)"))
    exp_amp = {xs(k): xs(v) for k, v in m.amplitudes.items()}
    if dict(m2.amplitudes) != exp_amp:
        fails.append(("amplitudes_not_xreplaced", "amplitudes != {S(k): S(v)}"))
    exp_comp = {k: xs(v) for k, v in m.components.items()}
    if dict(m2.components) != exp_comp:
        bad = [k for k in exp_comp if m2.components.get(k) != exp_comp[k]]
        fails.append(("components_not_xreplaced", f"components differ at {bad[:2]}"))
    if not kin_kin:
        exp_kv = {xs(k): xs(v) for k, v in m.kinematic_variables.items()}
        if dict(m2.kinematic_variables) != exp_kv:
            bad = [str(k) for k in exp_kv if m2.kinematic_variables.get(k) != exp_kv[k]]
            fails.append(("kinematic_variables_not_xreplaced", f"kinematic variables differ at {bad[:3]}"))
    else:
        defs = {}
        for k, v in m.kinematic_variables.items():
            defs.setdefault(xs(k), set()).add(xs(v))
        lost = [str(k) for k, vs in defs.items() if len(vs) > 1]
        if lost:
            fails.append((KNOWN_B, f"map {pairs} identifies two kinematic variables; the definitions "
                          f"{lost[:2]} collapse to one, silently"))
        if set(m2.kinematic_variables) != set(defs) or any(
                v not in defs[k] for k, v in m2.kinematic_variables.items()):
            fails.append(("kinematic_variables_not_xreplaced", "merged kinematic variables: unexpected keys/values"))
    # parameters: keys S(k); a value must be carried over from a preimage
    pre = {}
    for k, v in m.parameter_defaults.items():
        pre.setdefault(xs(k), []).append(v)
    if set(m2.parameter_defaults) != set(pre):
        fails.append(("parameters_not_rekeyed", f"parameter keys {[str(k) for k in set(m2.parameter_defaults) ^ set(pre)][:3]}"))
    elif any(not any(v == w and type(v) is type(w) for w in pre[k]) for k, v in m2.parameter_defaults.items()):
        fails.append(("parameter_value_not_carried_over", "a parameter default is not the value of a preimage"))
    if m2.expression != xs(m.expression):
        # all five attributes were compared structurally above; `expression` is derived from them and
        # may differ from expression.xreplace(S) in SymPy's evaluation order only (lib_C17.same_value)
        verdict = L.same_value(m2.expression, xs(m.expression), random.Random(rng.randint(0, 10**9)))
        if verdict is True:
            FALLBACKS.append("expression")
        else:
            fails.append(("expression_not_xreplaced",
                          "expression(renamed) != expression.xreplace(S)"
                          + (" (values differ)" if verdict is False else " (no finite point to compare values)")))
    # --- orderings established by the attrs converters
    if [k.name for k in m2.kinematic_variables] != sorted((k.name for k in m2.kinematic_variables), key=natkey):
        fails.append(("kinematic_variables_unsorted", "kinematic variables not in natural sort order"))
    if list(m2.components) != sorted(m2.components, key=natkey):
        fails.append(("components_unsorted", "components not in natural sort order"))
    if [str(a) for a in m2.amplitudes] != sorted((str(a) for a in m2.amplitudes), key=natkey):
        fails.append(("amplitudes_unsorted", "amplitudes not in natural sort order"))
    # --- assumptions preserved, unrelated symbols untouched
    F2 = free_syms(m2)
    for s in F:
        t = S.get(s, s)
        if t not in F2:
            same_name = [u for u in F2 if u.name == t.name]
            if same_name and s.name in r:
                fails.append(("assumptions_changed", f"{s.name}: {s.assumptions0} became {same_name[0].assumptions0}"))
            elif s.name in r:
                fails.append(("symbol_not_renamed", f"{s.name} -> {t.name} missing in the renamed model"))
            else:
                fails.append(("unrelated_symbol_touched", f"{s.name} (not in the map) vanished"))
            break
    extra = F2 - {S.get(s, s) for s in F}
    if extra:
        fails.append(("unexpected_symbol", f"{[str(s) for s in list(extra)[:3]]} appear after renaming"))
    # --- closure (C01): parameter xor kinematic variable, never neither
    def closure(mm):
        p, k = set(mm.parameter_defaults), set(mm.kinematic_variables)
        both = [s for s in mm.expression.free_symbols if s in p and s in k]
        neither = [s for s in mm.expression.free_symbols if s not in p and s not in k]
        return both, neither

    b0, n0 = closure(m)
    if not b0 and not n0:
        b1, n1 = closure(m2)
        if b1 and kin_par:
            fails.append((KNOWN_A, f"map {pairs} identifies a kinematic variable with a parameter; accepted "
                          f"silently, {b1[0]} is now both"))
        elif b1 or n1:
            fails.append(("closure_broken", f"both={[str(s) for s in b1[:2]]} neither={[str(s) for s in n1[:2]]}"))
    # --- numeric intensity with carried-over values
    if do_numeric:
        try:
            res = numeric(m, m2, S, rng)
        except Exception as ex:  # noqa: BLE001
            res = ("error", f"{type(ex).__name__}: {str(ex)[:120]}")
        if res is not None:
            if res[0] == "error":
                fails.append(("numeric_evaluation_error", res[1]))
            elif res[1] > 1e-8:  # same operations up to re-association: rounding only (~1e-15)
                fails.append(("numeric_intensity_differs", f"relative difference {res[1]:.3g}"))
    return fails


def run_case(case, rng_seed):
    rng = random.Random(rng_seed)
    m = L.build(case["model"])
    d0 = L.model_digest(m)
    fails = []
    cur = m
    for step in case["steps"]:
        dcur = L.model_digest(cur)
        try:
            nxt = L.apply_impl(cur, [tuple(p) for p in step["pairs"]], step["pass_as"])
        except Exception as ex:  # noqa: BLE001
            fails.append((case.get("exc_signature") or f"exception_{type(ex).__name__}",
                          f"rename_symbols raised {type(ex).__name__}: {str(ex)[:160]} for {step['pairs']}"))
            break
        if L.model_digest(cur) != dcur:
            fails.append(("original_model_mutated", f"the model rename_symbols was called on changed ({step['kind']})"))
        if step["pairs"] and nxt is cur:
            fails.append(("returned_self", "same object returned for a non-empty map"))
        fails += check_step(cur, nxt, [tuple(p) for p in step["pairs"]], rng, case.get("numeric", True))
        fails += L.independence(cur, nxt, [tuple(p) for p in step["pairs"]], step["pass_as"], rng)
        cur = nxt
    if L.model_digest(m) != d0:
        fails.append(("original_model_mutated", "the zoo model changed"))
    return fails


def main():
    if sys.argv[1] == "--replay":
        doc = json.load(open(sys.argv[2]))
        case = doc["replay"]["case"]
        fails = run_case(case, case.get("rng", 0))
        print(json.dumps({"still_fails": any(s == doc["signature"] for s, _ in fails),
                          "signatures": sorted({s for s, _ in fails})}))
        return
    seed, n = int(sys.argv[1]), int(sys.argv[2])
    tier = sys.argv[3] if len(sys.argv) > 3 else "quick"
    rng = random.Random(seed * 104729 + 3)
    zoo = L.QUICK_ZOO if tier == "quick" else [z for z in L.ZOO if z != "lc_pkpi_can"]
    small = {"etac_ll_hel", "pipi2_hel", "gpipi_hel", "d0kkk_hel_dpd", "gpipi_hel_bw", "d0kkk_hel_bw"}
    failures, kinds, samples, distinct = [], {}, [], set()
    evaluations = 0
    for case in L.fixed_cases():
        distinct.add(json.dumps(case, sort_keys=True))
        for s_ in case["steps"]:
            kinds[s_["kind"]] = kinds.get(s_["kind"], 0) + 1
            evaluations += 1
        for sig, what in run_case(case, case["rng"]):
            if not any(f["signature"] == sig for f in failures):
                failures.append({"signature": sig, "what": f"{what} (model {case['model']})", "case": case})
    for i in range(n):
        name = zoo[i % len(zoo)]
        m = L.build(name)
        steps = []
        for _ in range(rng.choice([1, 2, 2, 3])):
            kind = L.KINDS[(i + 3 * len(steps)) % len(L.KINDS)] if rng.random() < 0.6 else rng.choice(L.KINDS)
            g = L.gen_map(rng, m, kind)
            if g is None:
                continue
            steps.append({"kind": kind, "pairs": [list(p) for p in g[0]], "pass_as": g[1]})
            try:
                m = L.apply_impl(m, g[0], g[1])
            except Exception:  # noqa: BLE001
                break
        if not steps:
            continue
        case = {"model": name, "steps": steps, "rng": rng.randint(0, 10**9),
                "numeric": name in small or rng.random() < 0.15}
        distinct.add(json.dumps(case, sort_keys=True))
        for s in steps:
            kinds[s["kind"]] = kinds.get(s["kind"], 0) + 1
            evaluations += 1
        if len(samples) < 5:
            samples.append({"model": name, "steps": [[s["kind"], [[a[:24], b[:24]] for a, b in s["pairs"][:2]]]
                                                     for s in steps]})
        for sig, what in run_case(case, case["rng"]):
            if not any(f["signature"] == sig for f in failures):
                failures.append({"signature": sig, "what": f"{what} (model {name})", "case": case})
    print(json.dumps({"evaluations": evaluations, "distinct": len(distinct), "samples": samples, "kinds": kinds,
                      "failures": failures, "value_fallbacks": len(FALLBACKS)}))


if __name__ == "__main__":
    main()
