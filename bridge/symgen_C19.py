"""C19 model regeneration: call the DPD angle builders of the CURRENT /repo on every index
tuple in {0..3}^2 / {0..3}^3 and serialise what they return.

For each tuple the builder either returns (symbol, expression) or raises.  The expression is
serialised AFTER `.doit()`: the only ampform-specific node inside is `Kallen(x, y, z)` and the
returned tree cannot be evaluated/lambdified before it is unfolded (SymPy's NumPy printer
rejects the `Kallen` class), so `.doit()` is what every user of these expressions executes;
it runs `Kallen.evaluate()` of the current source (tied separately through `gen_kallen`).
A raised exception is recorded as `inr "<ExceptionClass>"`.

Output: named trees `gen_scat_i_j`, `gen_that_i_j`, `gen_zeta_i_j_k` and the three tables
`scat_tab`, `that_tab`, `zeta_tab : list (key * (expr + string))` that list ALL tuples.
"""
import sys

import common  # noqa: F401
import sympy as sp
from ser import ser, write_gen

common.assert_repo_import()
from ampform.kinematics.angles import (  # noqa: E402
    formulate_scattering_angle,
    formulate_theta_hat_angle,
    formulate_zeta_angle,
)
from ampform.kinematics.phasespace import Kallen  # noqa: E402

out = sys.argv[1]
x, y, z = sp.symbols("x y z")
defs = {"gen_kallen": Kallen(x, y, z).doit()}
ALLOWED_SYMBOLS = {"m_0", "m_1", "m_2", "m_3", "m_12", "m_13", "m_23"}


def call(fn, *idx):
    try:
        _sym, expr = fn(*idx)
    except Exception as exc:  # noqa: BLE001  (error branches are part of the model)
        return None, type(exc).__name__
    expr = sp.sympify(expr).doit()
    names = {s.name for s in expr.free_symbols}
    if not names <= ALLOWED_SYMBOLS:
        raise SystemExit(f"unexpected symbols {names - ALLOWED_SYMBOLS} in {fn.__name__}{idx}")
    return expr, None


def table(tag, fn, arity):
    rows = []
    rng = range(4)
    tuples = [(i, j) for i in rng for j in rng] if arity == 2 else \
        [(i, j, k) for i in rng for j in rng for k in rng]
    n_ok = 0
    for idx in tuples:
        expr, err = call(fn, *idx)
        key = "(" + ", ".join(f"{v}%nat" for v in idx) + ")"
        if err is not None:
            if any(ord(c) > 126 for c in err):
                raise SystemExit("non-ascii exception class")
            rows.append(f"({key}, inr \"{err}\")")
        else:
            name = f"gen_{tag}_" + "_".join(map(str, idx))
            defs[name] = expr
            rows.append(f"({key}, inl {name})")
            n_ok += 1
    keyty = "(nat * nat)" if arity == 2 else "(nat * nat * nat)"
    defs[f"{tag}_tab"] = f"RAW:([\n  " + ";\n  ".join(rows) + f"] : list ({keyty} * (expr + string)))"
    return n_ok, len(tuples)


stats = {
    "scat": table("scat", formulate_scattering_angle, 2),
    "that": table("that", formulate_theta_hat_angle, 2),
    "zeta": table("zeta", formulate_zeta_angle, 3),
}
# ---- Kallen on structurally equal / vanishing arguments (a shortcut branch of evaluate() would show here)
one, four, quarter = sp.Integer(1), sp.Integer(4), sp.Rational(1, 4)
KALLEN_CASES = {
    "gen_kallen_xyy": (x, y, y), "gen_kallen_xxz": (x, x, z), "gen_kallen_xyx": (x, y, x),
    "gen_kallen_xxx": (x, x, x), "gen_kallen_x00": (x, 0, 0), "gen_kallen_0yy": (0, y, y),
    "gen_kallen_xy0": (x, y, 0), "gen_kallen_x0z": (x, 0, z), "gen_kallen_000": (0, 0, 0),
    "gen_kallen_sq_equal": (x, y**2, y**2), "gen_kallen_sq_first": (x**2, x**2, z**2),
    "gen_kallen_num_44": (x, four, four), "gen_kallen_num_q": (x, quarter, quarter),
    "gen_kallen_num_11": (one, one, z),
}
for name, args in KALLEN_CASES.items():
    defs[name] = Kallen(*[sp.sympify(a) for a in args]).doit()

# ---- the angle expressions with EQUAL MASS SYMBOLS substituted before doit() (the builders create their
# symbols themselves, so equal symbols can only be introduced by substitution into the returned,
# still unevaluated expression; this is the fixed-equal-masses workflow).  One entry per distinct
# arccos (positive orientation) and per identification: (tag, generic tree, variant tree);
# tag 0: m_2:=m_1, 1: m_3:=m_1, 2: m_3:=m_2, 3: m_2:=m_1 and m_3:=m_1.
m0s, m1s, m2s, m3s = sp.symbols("m_0 m_1 m_2 m_3", nonnegative=True)
IDENT = {0: {m2s: m1s}, 1: {m3s: m1s}, 2: {m3s: m2s}, 3: {m2s: m1s, m3s: m1s}}
rows, seen = [], []
for tag_, fn, keys in (
    ("that", formulate_theta_hat_angle, [(1, 2), (2, 3), (3, 1)]),
    ("scat", formulate_scattering_angle, [(1, 2), (2, 1), (1, 3), (3, 1), (2, 3), (3, 2)]),
    ("zeta", formulate_zeta_angle, [(1, 1, 3), (1, 2, 1), (1, 2, 3), (2, 2, 1), (2, 3, 2), (2, 3, 1),
                                    (3, 3, 2), (3, 1, 3), (3, 1, 2)]),
):
    for idx in keys:
        try:
            raw = sp.sympify(fn(*idx)[1])
        except Exception:  # noqa: BLE001  (then the table above records the raise; nothing to identify)
            continue
        gname = f"gen_{tag_}_" + "_".join(map(str, idx))
        if gname not in defs:
            continue
        for t, sub in IDENT.items():
            vname = f"{gname}_eq{t}"
            defs[vname] = raw.xreplace(sub).doit()
            rows.append(f"({t}%nat, {gname}, {vname})")
defs["eqmass_variants"] = "RAW:([\n  " + ";\n  ".join(rows) + "] : list (nat * expr * expr))"
stats["eqmass_variants"] = len(rows)
write_gen(out, "bridge/symgen_C19.py", defs)
print("ok", stats)
