"""C19 model regeneration: call the DPD angle builders of the CURRENT /repo on every index
tuple in {0..3}^2 / {0..3}^3 and serialise what they return.

For each tuple the builder either returns (symbol, expression) or raises.  The expression is
serialised AFTER `.doit()`: the only ampform-specific node inside is `Kallen(x, y, z)` and the
returned tree cannot be evaluated/lambdified before it is unfolded (SymPy's NumPy printer
rejects the `Kallen` class), so `.doit()` is what every user of these expressions executes;
it runs `Kallen.evaluate()` of the current source (tied separately through `gen_kallen`).
A raised exception is recorded as `inr "<ExceptionClass>"`.

Output: named trees `gen_scat_i_j`, `gen_that_i_j`, `gen_zeta_i_j_k` and the three tables
`scat_tab`, `that_tab`, `zeta_tab : list (key * (expr + string))` that list ALL tuples.
"""
import sys

import common  # noqa: F401
import sympy as sp
from ser import ser, write_gen

common.assert_repo_import()
from ampform.kinematics.angles import (  # noqa: E402
    formulate_scattering_angle,
    formulate_theta_hat_angle,
    formulate_zeta_angle,
)
from ampform.kinematics.phasespace import Kallen  # noqa: E402

out = sys.argv[1]
x, y, z = sp.symbols("x y z")
defs = {"gen_kallen": Kallen(x, y, z).doit()}
ALLOWED_SYMBOLS = {"m_0", "m_1", "m_2", "m_3", "m_12", "m_13", "m_23"}


def call(fn, *idx):
    try:
        _sym, expr = fn(*idx)
    except Exception as exc:  # noqa: BLE001  (error branches are part of the model)
        return None, type(exc).__name__
    expr = sp.sympify(expr).doit()
    names = {s.name for s in expr.free_symbols}
    if not names <= ALLOWED_SYMBOLS:
        raise SystemExit(f"unexpected symbols {names - ALLOWED_SYMBOLS} in {fn.__name__}{idx}")
    return expr, None


def table(tag, fn, arity):
    rows = []
    rng = range(4)
    tuples = [(i, j) for i in rng for j in rng] if arity == 2 else \
        [(i, j, k) for i in rng for j in rng for k in rng]
    n_ok = 0
    for idx in tuples:
        expr, err = call(fn, *idx)
        key = "(" + ", ".join(f"{v}%nat" for v in idx) + ")"
        if err is not None:
            if any(ord(c) > 126 for c in err):
                raise SystemExit("non-ascii exception class")
            rows.append(f"({key}, inr \"{err}\")")
        else:
            name = f"gen_{tag}_" + "_".join(map(str, idx))
            defs[name] = expr
            rows.append(f"({key}, inl {name})")
            n_ok += 1
    keyty = "(nat * nat)" if arity == 2 else "(nat * nat * nat)"
    defs[f"{tag}_tab"] = f"RAW:([\n  " + ";\n  ".join(rows) + f"] : list ({keyty} * (expr + string)))"
    return n_ok, len(tuples)


stats = {
    "scat": table("scat", formulate_scattering_angle, 2),
    "that": table("that", formulate_theta_hat_angle, 2),
    "zeta": table("zeta", formulate_zeta_angle, 3),
}
write_gen(out, "bridge/symgen_C19.py", defs)
print("ok", stats)
