"""T3: class table of the CURRENT ampform package -> Gallina (AV.Uneval.table) + JSON.

  python classtab.py <out.v> <out.json>

Every decorated class is translated; a class the translator cannot handle makes the run FAIL.
Classes whose evaluate() inspects argument VALUES need an entry in VALUE_CASES (one template per
decidable case); the faithfulness probe below fails the run for any other class whose evaluate()
is not "instantiate the template".
"""
from __future__ import annotations

import dataclasses
import json
import sys

import common  # noqa: F401
import sympy as sp
import uneval_ir as U
from uneval_ir import IRError

# class -> (sympy-field index inspected, numeric values that get their own template)
VALUE_CASES = {
    # evaluate(): `if ell.free_symbols: <Hankel formula> else <polynomial from lambdify(simplify(..))>`
    "ampform.dynamics.form_factor.BlattWeisskopfSquared": (1, [0, 1, 2]),
}
# classes deliberately not translated (none today); each entry needs a justification
SKIP: dict[str, str] = {}


def holes(n):
    return [sp.Symbol(f"__h{i}") for i in range(n)]


def to_tmpl(ir, nh):
    k = ir[0]
    if k == "Y":
        m = ir[1]
        for i in range(nh):
            if m == f"Symbol('__h{i}')":
                return ("H", i)
        if "__h" in m:
            raise IRError(f"hole with changed assumptions in template: {m}")
        return ("Y", m)
    if k == "N":
        return ir
    if k == "A":
        h = ir[1]
        if h.startswith("fn:__call_"):
            return ("C", int(h[len("fn:__call_"):]), [to_tmpl(a, nh) for a in ir[2]])
        if h.startswith("atom:") and "__h" in h:
            raise IRError(f"hole inside an atom: {h}")
        return ("A", h, [to_tmpl(a, nh) for a in ir[2]])
    if k == "U":
        tas = [("field", a[1]) if a[0] == "m" else ("const", a) for a in ir[3]]
        return ("U", ir[1], [to_tmpl(a, nh) for a in ir[2]], tas)
    raise IRError(f"bad ir {ir!r}")


def inst_py(t, args, attrs):
    """Python mirror of Uneval.inst (used only by the faithfulness probe)."""
    k = t[0]
    if k == "H":
        return args[t[1]]
    if k in "YN":
        return t
    if k == "A":
        return ("A", t[1], [inst_py(a, args, attrs) for a in t[2]])
    if k == "U":
        return ("U", t[1], [inst_py(a, args, attrs) for a in t[2]],
                [attrs[a[1]] if a[0] == "field" else a[1] for a in t[3]])
    if k == "C":
        a = attrs[t[1]]
        es = [inst_py(x, args, attrs) for x in t[2]]
        if a[0] == "c" and a[1] in U.decorated():
            c = U.decorated()[a[1]]
            inst = c(*[U.from_ir(e) for e in es])
            return U.to_ir(inst)
        if a[0] in "co":
            return ("A", "call:" + a[1], es)
        raise IRError("call of non-callable attribute")
    raise IRError(f"bad tmpl {t!r}")


def template_of(c, sym_vals, nh):
    af = U.attr_fields(c)
    names = [f.name for f in dataclasses.fields(c)]
    kw = {f.name: U.Marker(j) for j, f in enumerate(af)}
    sf = U.sym_fields(c)
    kw.update({f.name: v for f, v in zip(sf, sym_vals)})
    inst = c(*[kw[n] for n in names])
    if not isinstance(inst, c):
        raise IRError(f"{c.__name__}: constructor returned {type(inst).__name__}")
    return to_tmpl(U.to_ir(inst.evaluate()), nh)


def numpy_mode(c, nh):
    if not hasattr(c, "_numpycode"):
        return "NNone"
    if not hasattr(c, "evaluate"):
        return "NLayout"
    from sympy.printing.numpy import NumPyPrinter

    try:
        sf = U.sym_fields(c)
        inst = c(*holes(len(sf)))
        a = NumPyPrinter().doprint(inst)
        b = NumPyPrinter().doprint(inst.evaluate())
        return "NPrintsEvaluate" if a == b else "NLayout"
    except Exception:  # noqa: BLE001
        return "NLayout"


def probe(c, q, templates):
    """evaluate() on other arguments must equal the instantiated template (rebuilt through SymPy)."""
    sf, af = U.sym_fields(c), U.attr_fields(c)
    n = len(sf)
    trials = [[sp.Symbol(f"q{i}", real=True) for i in range(n)],
              [sp.sin(sp.Symbol("a")) ** (i + 1) for i in range(n)],  # no Add: SymPy distributes numbers over Add
              [sp.Rational(2 * i + 3, 2) if i % 2 else sp.Integer(i + 2) for i in range(n)]]
    done = 0
    for tr in trials:
        attrs_ir = [("n",) if f.name == "name" else (U.attr_ir(f.default) if f.default is not dataclasses.MISSING else ("n",))
                    for f in af]
        try:
            names = [f.name for f in dataclasses.fields(c)]
            kw = dict(zip([f.name for f in sf], tr))
            kw.update({f.name: U.attr_py(a) for f, a in zip(af, attrs_ir)})
            inst = c(*[kw[x] for x in names])
            if not isinstance(inst, c):
                continue
        except Exception:  # noqa: BLE001
            continue  # the class does not accept such arguments
        t = None
        for g, tt in templates:
            if g[0] == "GTrue" or (g[0] == "GHasFree" and inst.args[g[1]].free_symbols) or \
                    (g[0] == "GNumIs" and inst.args[g[1]] == sp.Rational(g[2], g[3])):
                t = tt
                break
        if t is None:
            continue  # outside the listed cases (the model has no template there either)
        try:
            want = inst.evaluate()
        except Exception:  # noqa: BLE001
            continue
        args_ir = [U.to_ir(a) for a in inst.args]
        got = U.from_ir(inst_py(t, args_ir, attrs_ir))
        if U.canon_dummies(got) != U.canon_dummies(U.norm(want)):
            raise IRError(f"{q}: evaluate() is not an instance of its template on {tr} "
                          f"(inspects argument values? add VALUE_CASES)")
        done += 1
    return done


def build():
    dec = U.decorated()
    tab = []
    for q, c in dec.items():
        if q in SKIP:
            continue
        sf, af = U.sym_fields(c), U.attr_fields(c)
        fields = []
        for f in dataclasses.fields(c):
            s = bool(f.metadata.get("sympify"))
            if f.default_factory is not dataclasses.MISSING:
                raise IRError(f"{q}.{f.name}: default_factory not supported")
            if f.default is dataclasses.MISSING:
                d = None
            elif s:
                d = ("DE", U.to_ir(sp.sympify(f.default)))
            else:
                d = ("DA", U.attr_ir(f.default))
            fields.append({"name": f.name, "sympify": s, "default": d})
        has_doit = "doit" in U._mro_dict(c) and U._mro_dict(c)["doit"] is not sp.Basic.doit \
            and getattr(c.doit, "__wrapped__", None) is not None
        templates = []
        if has_doit or hasattr(c, "evaluate"):
            nh = len(sf)
            if q in VALUE_CASES:
                i, vals = VALUE_CASES[q]
                for v in vals:
                    hs = holes(nh)
                    hs[i] = sp.Integer(v)
                    templates.append((("GNumIs", i, v, 1), template_of(c, hs, nh)))
                templates.append((("GHasFree", i), template_of(c, holes(nh), nh)))
            else:
                templates.append((("GTrue",), template_of(c, holes(nh), nh)))
            nprobe = probe(c, q, templates)
        else:
            nprobe = 0
        tab.append({"name": q, "fields": fields, "doit": bool(has_doit), "templates": templates,
                    "numpy": numpy_mode(c, len(sf)), "latex": hasattr(c, "_latex") or hasattr(c, "_latex_repr_"),
                    "probes": nprobe, "has_evaluate": hasattr(c, "evaluate")})
    return tab


def tattr_coq(a):
    return f"TAfield {a[1]}" if a[0] == "field" else f"TAconst ({U.attr_coq(a[1])})"


def tmpl_coq(t):
    k = t[0]
    if k == "H":
        return f"THole {t[1]}"
    if k == "Y":
        return f"TSym {U.cstr(t[1])}"
    if k == "N":
        return f"TNum (Qmake ({t[1]})%Z {t[2]}%positive)"
    if k == "A":
        return f"TApp {U.cstr(t[1])} [" + "; ".join("(" + tmpl_coq(a) + ")" for a in t[2]) + "]"
    if k == "U":
        return (f"TUnev {U.cstr(t[1])} [" + "; ".join("(" + tmpl_coq(a) + ")" for a in t[2]) + "] ["
                + "; ".join("(" + tattr_coq(a) + ")" for a in t[3]) + "]")
    if k == "C":
        return f"TCall {t[1]} [" + "; ".join("(" + tmpl_coq(a) + ")" for a in t[2]) + "]"
    raise IRError(str(t))


def guard_coq(g):
    if g[0] == "GTrue":
        return "GTrue"
    if g[0] == "GNumIs":
        return f"GNumIs {g[1]} (Qmake ({g[2]})%Z {g[3]}%positive)"
    return f"GHasFree {g[1]}"


def emit(tab, path):
    out = ["(* GENERATED on every run from /repo's working tree by bridge/classtab.py — do not edit. *)",
           "From Coq Require Import String List ZArith QArith.", "From AV Require Import Uneval.",
           "Import ListNotations.", "Open Scope string_scope.", ""]
    names = []
    for i, ci in enumerate(tab):
        fl = []
        for f in ci["fields"]:
            d = f["default"]
            dc = "DNone" if d is None else (f"DE ({U.coq(d[1])})" if d[0] == "DE" else f"DA ({U.attr_coq(d[1])})")
            fl.append(f"{{| fname := {U.cstr(f['name'])}; fsym := {'true' if f['sympify'] else 'false'}; fdef := {dc} |}}")
        ts = "; ".join(f"({guard_coq(g)}, {tmpl_coq(t)})" for g, t in (ci["templates"] if ci["doit"] else []))
        out.append(f"Definition class_{i} : cinfo := {{| cname := {U.cstr(ci['name'])};\n  cfields := [" + "; ".join(fl)
                   + f"];\n  cdoit := {'true' if ci['doit'] else 'false'};\n  ctemplates := [{ts}];\n"
                   + f"  cnumpy := {ci['numpy']}; clatex := {'true' if ci['latex'] else 'false'} |}}.\n")
        names.append(f"class_{i}")
    out.append("Definition gen_table : table := [" + "; ".join(names) + "].\n")
    out.append(f"Definition gen_n_classes : nat := {len(tab)}.\n")
    with open(path, "w") as f:
        f.write("\n".join(out))


if __name__ == "__main__":
    tab = build()
    emit(tab, sys.argv[1])
    with open(sys.argv[2], "w") as f:
        json.dump({"classes": tab, "helpers": sorted(U.helpers())}, f)
    print(json.dumps({"classes": len(tab), "with_doit": sum(c["doit"] for c in tab),
                      "with_attr_fields": sum(any(not f["sympify"] for f in c["fields"]) for c in tab),
                      "probes": sum(c["probes"] for c in tab),
                      "numpy": {m: sum(c["numpy"] == m for c in tab) for m in ("NNone", "NPrintsEvaluate", "NLayout")}}))
