"""C12 numeric harness on the implementation (exploration + failing-input search).

usage: search_C12.py <seed> <n> | --replay <file>
"""
import json
import math
import random
import sys

import common  # noqa: F401
import sympy as sp

common.assert_repo_import()
import qrules  # noqa: E402
from ampform.dynamics import (  # noqa: E402
    EnergyDependentWidth,
    FormFactor,
    relativistic_breit_wigner,
    relativistic_breit_wigner_with_ff,
)
from ampform.dynamics.builder import (  # noqa: E402
    RelativisticBreitWignerBuilder,
    TwoBodyKinematicVariableSet,
)
from ampform.dynamics.form_factor import BlattWeisskopfSquared  # noqa: E402
from ampform.dynamics.phasespace import (  # noqa: E402
    EqualMassPhaseSpaceFactor,
    PhaseSpaceFactor,
    PhaseSpaceFactorAbs,
    PhaseSpaceFactorComplex,
    PhaseSpaceFactorSWave,
)

PHSP = {"PhaseSpaceFactor": PhaseSpaceFactor, "PhaseSpaceFactorAbs": PhaseSpaceFactorAbs,
        "PhaseSpaceFactorComplex": PhaseSpaceFactorComplex, "PhaseSpaceFactorSWave": PhaseSpaceFactorSWave,
        "EqualMassPhaseSpaceFactor": EqualMassPhaseSpaceFactor}
s, m0, g0, ma, mb, d, z, Ls = sp.symbols("s m0 g0 ma mb d z L")
_cache = {}


def lam(key, args, build):
    if key not in _cache:
        _cache[key] = sp.lambdify(args, build(), "numpy")
    return _cache[key]


def hankel_bw(L, zval):
    """Independent evaluation of |h_L(1)|^2 / (|h_L(sqrt z)|^2 z) with exact integer coefficients."""
    def hmod2(x):
        S = 0j
        for k in range(L + 1):
            c = math.factorial(L + k) // (math.factorial(L - k) * math.factorial(k))
            S += c * (1j / (2 * x)) ** k
        return abs(S) ** 2 / x**2
    return hmod2(1.0) / (hmod2(math.sqrt(zval)) * zval)


def close(a, b, rel=1e-9):
    return abs(a - b) <= rel * max(1.0, abs(a), abs(b))


def make_phsp(scale, thr):
    """User-written phase-space factors following PhaseSpaceFactorProtocol: closures of ONE factory (same
    __qualname__, different behaviour)."""
    def fixed_channel_phsp(s_, m1_, m2_):
        return scale * sp.sqrt(sp.Abs(s_ - thr)) / (1 + s_)
    return fixed_channel_phsp


def ff_num(sv, a, b, L, dv):
    f = lam(("ffnum", L), (s, ma, mb, d), lambda: FormFactor(s, ma, mb, L, d).doit())
    return complex(f(sv, a, b, dv))


def ref_bw_ff(sv, m, g, a, b, L, dv, rho):
    """The documented definition, assembled here from numbers."""
    width = g * (ff_num(sv, a, b, L, dv) / ff_num(m * m, a, b, L, dv)) ** 2 * rho(sv) / rho(m * m)
    return m * g * ff_num(sv, a, b, L, dv) / (m * m - sv - 1j * m * width), width


def run_case(c):
    fails = []
    k = c["kind"]
    if k == "numeric_first":
        # numbers put into the function API BEFORE doit() (exact rationals from a coarse grid, so that s may
        # coincide with another argument) against the symbolic tree the theorems are about, evaluated afterwards
        cls = PHSP[c["phsp"]]
        L = c["L"]
        q = {n_: sp.Rational(*c[n_]) for n_ in ("s", "m0", "g0", "ma", "mb", "d")}
        fl = {n_: float(v) for n_, v in q.items()}
        for what, build in (
            ("width", lambda S_, M_, G_, A_, B_, D_: EnergyDependentWidth(S_, M_, G_, A_, B_, L, D_, phsp_factor=cls)),
            ("breit_wigner", lambda S_, M_, G_, A_, B_, D_: relativistic_breit_wigner_with_ff(S_, M_, G_, A_, B_, L, D_, phsp_factor=cls)),
            ("form_factor", lambda S_, M_, G_, A_, B_, D_: FormFactor(S_, A_, B_, L, D_)),
        ):
            f = lam(("nf", what, c["phsp"], L), (s, m0, g0, ma, mb, d), lambda: build(s, m0, g0, ma, mb, d).doit())
            try:
                with_symbols = complex(f(fl["s"], fl["m0"], fl["g0"], fl["ma"], fl["mb"], fl["d"]))
            except ZeroDivisionError:
                continue  # 0/0 point of the definition itself (pole exactly at a threshold): outside the statement
            try:
                direct = complex(sp.N(build(q["s"], q["m0"], q["g0"], q["ma"], q["mb"], q["d"]).doit()))
            except Exception as exc:  # noqa: BLE001
                fails.append((f"numeric_first_exception/{what}", f"{what} with numbers inserted before doit(): {type(exc).__name__}: {exc}"[:250]))
                continue
            if with_symbols != with_symbols or direct != direct or abs(with_symbols) == float("inf") or abs(direct) == float("inf"):
                continue
            if not close(with_symbols, direct, 1e-8):
                fails.append((f"numeric_first/{what}/{c['phsp']}", f"{what}(L={L}) with numbers inserted before doit() = {direct}, "
                              f"the symbolic expression evaluated at the same numbers = {with_symbols}"))
        return fails
    if k == "closure_pair":
        # history: the same resonance arguments with a first, then a second user-written phase-space closure
        L = c["L"]
        for scale, thr in c["phsp_params"]:
            rho_sym = make_phsp(sp.Float(scale), sp.Float(thr))
            rho = lambda x, scale=scale, thr=thr: scale * abs(x - thr) ** 0.5 / (1 + x)  # noqa: E731
            want_bw, want_w = ref_bw_ff(c["s"], c["m0"], c["g0"], c["ma"], c["mb"], L, c["d"], rho)
            args = [sp.Float(c[n_]) for n_ in ("s", "m0", "g0", "ma", "mb")]
            if c["symbolic"]:
                sy = (s, m0, g0, ma, mb, d)
                vals = {s: c["s"], m0: c["m0"], g0: c["g0"], ma: c["ma"], mb: c["mb"], d: c["d"]}
                got_w = complex(sp.N(EnergyDependentWidth(s, m0, g0, ma, mb, L, d, phsp_factor=rho_sym).doit().xreplace(vals)))
                got_bw = complex(sp.N(relativistic_breit_wigner_with_ff(s, m0, g0, ma, mb, L, d, phsp_factor=rho_sym).doit().xreplace(vals)))
            else:
                got_w = complex(sp.N(EnergyDependentWidth(*args, L, sp.Float(c["d"]), phsp_factor=rho_sym).doit()))
                got_bw = complex(sp.N(relativistic_breit_wigner_with_ff(*args, L, sp.Float(c["d"]), phsp_factor=rho_sym).doit()))
            particle = qrules.particle.Particle(name="R", latex="R", pid=99, spin=1, mass=c["m0"], width=c["g0"])
            sy2 = {n_: sp.Symbol(n_, nonnegative=True) for n_ in ("m_12", "m_1", "m_2")}
            pool = TwoBodyKinematicVariableSet(sy2["m_12"], sy2["m_1"], sy2["m_2"], sp.Symbol("theta"), sp.Symbol("phi"),
                                               angular_momentum=L)
            expr, defaults = RelativisticBreitWignerBuilder(True, True, rho_sym)(particle, pool)
            sub = dict(defaults)
            sub.update({sy2["m_12"]: c["s"] ** 0.5, sy2["m_1"]: c["ma"], sy2["m_2"]: c["mb"]})
            sub[sp.Symbol("d_{R}", positive=True)] = c["d"]
            got_builder = complex(sp.N(expr.doit().xreplace(sub)))
            tag = f"user phase-space closure (scale={scale}, threshold={thr})"
            if not close(got_w, want_w, 1e-8):
                fails.append(("custom_phsp_width", f"{tag}: width {got_w} vs definition {want_w}"))
            if not close(got_bw, want_bw, 1e-8):
                fails.append(("custom_phsp_function", f"{tag}: function API {got_bw} vs definition {want_bw}"))
            if not close(got_builder, want_bw, 1e-8):
                fails.append(("custom_phsp_builder", f"{tag}: builder API {got_builder} vs definition {want_bw}"))
        return fails
    if k == "width":
        cls = PHSP[c["phsp"]]
        L = c["L"]
        f = lam(("w", c["phsp"], L), (s, m0, g0, ma, mb, d),
                lambda: EnergyDependentWidth(s, m0, g0, ma, mb, L, d, phsp_factor=cls).doit())
        v = complex(f(c["m0"] ** 2, c["m0"], c["g0"], c["ma"], c["mb"], c["d"]))
        if v != v:
            return None  # undefined at this point (0/0): outside the statement
        if not close(v, c["g0"]):
            fails.append((f"width_at_pole/{c['phsp']}", f"Gamma(m0^2) = {v} expected {c['g0']} (L={L})"))
    elif k == "bw":
        L, zv = c["L"], c["z"]
        f = lam(("bw", L), (z,), lambda: BlattWeisskopfSquared(z, L).doit())
        v = float(f(zv))
        ref = hankel_bw(L, zv)
        if not close(v, ref, 1e-8):
            fails.append((f"bw_poly_vs_hankel/L={L}", f"B_{L}^2({zv}) = {v}, Hankel definition {ref}"))
        one = float(f(1.0))
        if not close(one, 1.0):
            fails.append((f"bw_norm/L={L}", f"B_{L}^2(1) = {one}"))
        cmax = float(f(1e12))
        if not (0 <= v <= cmax * (1 + 1e-9)):
            fails.append((f"bw_bounded/L={L}", f"B_{L}^2({zv}) = {v} outside [0, {cmax}]"))
        if L > 0:
            r1, r2 = float(f(1e-6)) / 1e-6**L, float(f(2e-6)) / 2e-6**L
            if not (r1 > 0 and close(r1, r2, 1e-4)):
                fails.append((f"bw_threshold/L={L}", f"B/z^L at 1e-6, 2e-6: {r1}, {r2}"))
        # symbolic-L route (the SphericalHankel1 sum), substituted afterwards
        g = lam(("bwsym",), (z, Ls), lambda: BlattWeisskopfSquared(z, Ls).doit())
        try:
            vs = complex(sp.N(BlattWeisskopfSquared(sp.Float(zv), Ls).doit().subs(Ls, L).doit()))
            if not close(vs, v, 1e-8):
                fails.append((f"bw_symbolic_L/L={L}", f"symbolic-L path {vs} vs polynomial {v}"))
        except Exception as exc:  # noqa: BLE001
            fails.append((f"bw_symbolic_L_exception/L={L}", f"{type(exc).__name__}: {exc}"[:200]))
    elif k == "builder":
        particle = qrules.particle.Particle(name="R", latex="R", pid=99, spin=1, mass=c["mass"], width=c["width"])
        sy = {n: sp.Symbol(n, nonnegative=True) for n in ("m_12", "m_1", "m_2")}
        pool = TwoBodyKinematicVariableSet(sy["m_12"], sy["m_1"], sy["m_2"], sp.Symbol("theta"), sp.Symbol("phi"),
                                           angular_momentum=c["L"])
        cls = PHSP[c["phsp"]]
        bld = RelativisticBreitWignerBuilder(c["ff"], c["edw"], cls)
        for pm, pw, pL in c.get("prior", []):
            # history: the SAME builder object was used before, on a same-named resonance with other mass / width / L
            prior_particle = qrules.particle.Particle(name="R", latex="R", pid=99, spin=1, mass=pm, width=pw)
            bld(prior_particle, TwoBodyKinematicVariableSet(sy["m_12"], sy["m_1"], sy["m_2"], sp.Symbol("theta"),
                                                          sp.Symbol("phi"), angular_momentum=pL))
        expr, defaults = bld(particle, pool)
        mR, gR, dR = sp.Symbol("m_{R}", nonnegative=True), sp.Symbol(R"\Gamma_{R}", nonnegative=True), \
            sp.Symbol("d_{R}", positive=True)
        S = sy["m_12"] ** 2
        if c["edw"]:
            ref = relativistic_breit_wigner_with_ff(S, mR, gR, sy["m_1"], sy["m_2"], c["L"], dR, phsp_factor=cls)
            if not c["ff"]:
                ref = ref / FormFactor(S, sy["m_1"], sy["m_2"], c["L"], dR)
        else:
            ref = relativistic_breit_wigner(S, mR, gR)
            if c["ff"]:
                ref = ref * FormFactor(S, sy["m_1"], sy["m_2"], c["L"], dR)
        want = {mR: c["mass"], gR: c["width"]}
        if c["ff"] or c["edw"]:
            want[dR] = 1
        if {k_: float(v) for k_, v in defaults.items()} != {k_: float(v) for k_, v in want.items()}:
            fails.append(("builder_defaults", f"defaults {defaults} expected {want}"))
        args = (sy["m_12"], sy["m_1"], sy["m_2"], mR, gR, dR)
        vals = (c["m12"], c["m1"], c["m2"], c["mass"], c["width"], c["d"])
        a = complex(sp.lambdify(args, expr.doit(), "numpy")(*vals))
        b = complex(sp.lambdify(args, ref.doit(), "numpy")(*vals))
        if a == a and b == b and not close(a, b):
            fails.append((f"builder_vs_function/ff={c['ff']}/edw={c['edw']}/{c['phsp']}",
                          f"builder {a} vs function {b}"))
    return fails


def gen_cases(seed, n):
    rng = random.Random(seed)
    out = []
    names = list(PHSP)
    grid = [(1, 2), (1, 1), (3, 2), (2, 1), (1, 4), (3, 1), (5, 2), (4, 1)]
    for i in range(n):
        k = i % 3
        if i % 10 == 9:
            out.append({"kind": "numeric_first", "phsp": names[(i // 10) % len(names)], "L": rng.choice([0, 1, 2, 3, 4]),
                        **{n_: rng.choice(grid) for n_ in ("s", "m0", "g0", "d")},
                        "ma": rng.choice([(1, 4), (1, 2), (1, 8)]), "mb": rng.choice([(1, 4), (1, 2), (1, 8)])})
            continue
        if i % 10 == 4:
            a, b = rng.uniform(0.05, 0.6), rng.uniform(0.05, 0.6)
            out.append({"kind": "closure_pair", "L": rng.choice([0, 1, 2]), "symbolic": rng.random() < 0.5,
                        "phsp_params": [[round(rng.uniform(0.5, 2), 3), round(rng.uniform(0.0, 1.0), 3)] for _ in range(2)],
                        "s": (a + b + rng.uniform(0.1, 1.5)) ** 2, "m0": a + b + rng.uniform(0.1, 1.5),
                        "g0": rng.uniform(0.05, 0.5), "ma": a, "mb": b, "d": rng.uniform(0.5, 3)})
            continue
        if k == 0:
            a, b = rng.uniform(0.05, 1.5), rng.uniform(0.05, 1.5)
            if rng.random() < 0.3:
                b = a
            phsp = names[(i // 3) % len(names)]
            lo = (a + b) * 1.02 if phsp in ("PhaseSpaceFactor",) or rng.random() < 0.7 else abs(a - b) * 1.05 + 0.01
            out.append({"kind": "width", "phsp": phsp, "L": (i // 15) % 5, "m0": lo + rng.uniform(0.0, 2.0),
                        "g0": rng.uniform(0.01, 1.0), "ma": a, "mb": b, "d": rng.uniform(0.2, 5.0)})
        elif k == 1:
            out.append({"kind": "bw", "L": (i // 3) % 11, "z": 10 ** rng.uniform(-3, 3)})
        else:
            a, b = rng.uniform(0.05, 1.0), rng.uniform(0.05, 1.0)
            out.append({"kind": "builder", "ff": bool((i // 3) & 1), "edw": bool((i // 3) & 2),
                        "phsp": names[(i // 12) % len(names)], "L": (i // 60) % 4, "mass": rng.uniform(0.5, 3.0),
                        "width": rng.uniform(0.01, 0.6), "m12": a + b + rng.uniform(0.01, 2.0), "m1": a, "m2": b,
                        "d": rng.uniform(0.3, 4.0)})
            if rng.random() < 0.5:  # every other builder case: the builder object has a history
                out[-1]["prior"] = [[round(rng.uniform(0.5, 3.0), 3), round(rng.uniform(0.01, 0.6), 3), rng.choice([0, 1, 2])]
                                    for _ in range(rng.choice([1, 2]))]
    return out


def main():
    if sys.argv[1] == "--replay":
        doc = json.load(open(sys.argv[2]))
        fails = run_case(doc["replay"]["case"])
        print(json.dumps({"still_fails": bool(fails), "fails": fails}))
        return
    seed, n = int(sys.argv[1]), int(sys.argv[2])
    cases = gen_cases(seed, n)
    failures, kinds, samples, distinct, nev = [], {}, [], set(), 0
    for c in cases:
        try:
            fails = run_case(c)
        except Exception as exc:  # noqa: BLE001
            fails = [("exception_" + type(exc).__name__, f"{type(exc).__name__}: {exc}"[:300])]
        if fails is None:
            continue
        nev += 1
        distinct.add(json.dumps(c, sort_keys=True))
        tag = c["kind"] + "/" + str(c.get("phsp", c.get("L")))
        kinds[tag] = kinds.get(tag, 0) + 1
        if len(samples) < 3 and c["kind"] not in [s_["kind"] for s_ in samples]:
            samples.append(c)
        for sig, what in fails:
            failures.append({"signature": sig, "what": what, "case": c})
        if len(failures) >= 20:  # enough to report; do not spend the failing-input search budget on more
            break
    print(json.dumps({"evaluations": nev, "distinct": len(distinct), "samples": samples, "kinds": kinds,
                      "failures": failures[:20]}))


main()
