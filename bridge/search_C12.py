"""C12 numeric harness on the implementation (exploration + failing-input search).

usage: search_C12.py <seed> <n> | --replay <file>
"""
import json
import math
import random
import sys

import common  # noqa: F401
import sympy as sp

common.assert_repo_import()
import qrules  # noqa: E402
from ampform.dynamics import (  # noqa: E402
    EnergyDependentWidth,
    FormFactor,
    relativistic_breit_wigner,
    relativistic_breit_wigner_with_ff,
)
from ampform.dynamics.builder import (  # noqa: E402
    RelativisticBreitWignerBuilder,
    TwoBodyKinematicVariableSet,
)
from ampform.dynamics.form_factor import BlattWeisskopfSquared  # noqa: E402
from ampform.dynamics.phasespace import (  # noqa: E402
    EqualMassPhaseSpaceFactor,
    PhaseSpaceFactor,
    PhaseSpaceFactorAbs,
    PhaseSpaceFactorComplex,
    PhaseSpaceFactorSWave,
)

PHSP = {"PhaseSpaceFactor": PhaseSpaceFactor, "PhaseSpaceFactorAbs": PhaseSpaceFactorAbs,
        "PhaseSpaceFactorComplex": PhaseSpaceFactorComplex, "PhaseSpaceFactorSWave": PhaseSpaceFactorSWave,
        "EqualMassPhaseSpaceFactor": EqualMassPhaseSpaceFactor}
s, m0, g0, ma, mb, d, z, Ls = sp.symbols("s m0 g0 ma mb d z L")
_cache = {}


def lam(key, args, build):
    if key not in _cache:
        _cache[key] = sp.lambdify(args, build(), "numpy")
    return _cache[key]


def hankel_bw(L, zval):
    """Independent evaluation of |h_L(1)|^2 / (|h_L(sqrt z)|^2 z) with exact integer coefficients."""
    def hmod2(x):
        S = 0j
        for k in range(L + 1):
            c = math.factorial(L + k) // (math.factorial(L - k) * math.factorial(k))
            S += c * (1j / (2 * x)) ** k
        return abs(S) ** 2 / x**2
    return hmod2(1.0) / (hmod2(math.sqrt(zval)) * zval)


def close(a, b, rel=1e-9):
    return abs(a - b) <= rel * max(1.0, abs(a), abs(b))


def run_case(c):
    fails = []
    k = c["kind"]
    if k == "width":
        cls = PHSP[c["phsp"]]
        L = c["L"]
        f = lam(("w", c["phsp"], L), (s, m0, g0, ma, mb, d),
                lambda: EnergyDependentWidth(s, m0, g0, ma, mb, L, d, phsp_factor=cls).doit())
        v = complex(f(c["m0"] ** 2, c["m0"], c["g0"], c["ma"], c["mb"], c["d"]))
        if v != v:
            return None  # undefined at this point (0/0): outside the statement
        if not close(v, c["g0"]):
            fails.append((f"width_at_pole/{c['phsp']}", f"Gamma(m0^2) = {v} expected {c['g0']} (L={L})"))
    elif k == "bw":
        L, zv = c["L"], c["z"]
        f = lam(("bw", L), (z,), lambda: BlattWeisskopfSquared(z, L).doit())
        v = float(f(zv))
        ref = hankel_bw(L, zv)
        if not close(v, ref, 1e-8):
            fails.append((f"bw_poly_vs_hankel/L={L}", f"B_{L}^2({zv}) = {v}, Hankel definition {ref}"))
        one = float(f(1.0))
        if not close(one, 1.0):
            fails.append((f"bw_norm/L={L}", f"B_{L}^2(1) = {one}"))
        cmax = float(f(1e12))
        if not (0 <= v <= cmax * (1 + 1e-9)):
            fails.append((f"bw_bounded/L={L}", f"B_{L}^2({zv}) = {v} outside [0, {cmax}]"))
        if L > 0:
            r1, r2 = float(f(1e-6)) / 1e-6**L, float(f(2e-6)) / 2e-6**L
            if not (r1 > 0 and close(r1, r2, 1e-4)):
                fails.append((f"bw_threshold/L={L}", f"B/z^L at 1e-6, 2e-6: {r1}, {r2}"))
        # symbolic-L route (the SphericalHankel1 sum), substituted afterwards
        g = lam(("bwsym",), (z, Ls), lambda: BlattWeisskopfSquared(z, Ls).doit())
        try:
            vs = complex(sp.N(BlattWeisskopfSquared(sp.Float(zv), Ls).doit().subs(Ls, L).doit()))
            if not close(vs, v, 1e-8):
                fails.append((f"bw_symbolic_L/L={L}", f"symbolic-L path {vs} vs polynomial {v}"))
        except Exception as exc:  # noqa: BLE001
            fails.append((f"bw_symbolic_L_exception/L={L}", f"{type(exc).__name__}: {exc}"[:200]))
    elif k == "builder":
        particle = qrules.particle.Particle(name="R", latex="R", pid=99, spin=1, mass=c["mass"], width=c["width"])
        sy = {n: sp.Symbol(n, nonnegative=True) for n in ("m_12", "m_1", "m_2")}
        pool = TwoBodyKinematicVariableSet(sy["m_12"], sy["m_1"], sy["m_2"], sp.Symbol("theta"), sp.Symbol("phi"),
                                           angular_momentum=c["L"])
        cls = PHSP[c["phsp"]]
        expr, defaults = RelativisticBreitWignerBuilder(c["ff"], c["edw"], cls)(particle, pool)
        mR, gR, dR = sp.Symbol("m_{R}", nonnegative=True), sp.Symbol(R"\Gamma_{R}", nonnegative=True), \
            sp.Symbol("d_{R}", positive=True)
        S = sy["m_12"] ** 2
        if c["edw"]:
            ref = relativistic_breit_wigner_with_ff(S, mR, gR, sy["m_1"], sy["m_2"], c["L"], dR, phsp_factor=cls)
            if not c["ff"]:
                ref = ref / FormFactor(S, sy["m_1"], sy["m_2"], c["L"], dR)
        else:
            ref = relativistic_breit_wigner(S, mR, gR)
            if c["ff"]:
                ref = ref * FormFactor(S, sy["m_1"], sy["m_2"], c["L"], dR)
        want = {mR: c["mass"], gR: c["width"]}
        if c["ff"] or c["edw"]:
            want[dR] = 1
        if {k_: float(v) for k_, v in defaults.items()} != {k_: float(v) for k_, v in want.items()}:
            fails.append(("builder_defaults", f"defaults {defaults} expected {want}"))
        args = (sy["m_12"], sy["m_1"], sy["m_2"], mR, gR, dR)
        vals = (c["m12"], c["m1"], c["m2"], c["mass"], c["width"], c["d"])
        a = complex(sp.lambdify(args, expr.doit(), "numpy")(*vals))
        b = complex(sp.lambdify(args, ref.doit(), "numpy")(*vals))
        if a == a and b == b and not close(a, b):
            fails.append((f"builder_vs_function/ff={c['ff']}/edw={c['edw']}/{c['phsp']}",
                          f"builder {a} vs function {b}"))
    return fails


def gen_cases(seed, n):
    rng = random.Random(seed)
    out = []
    names = list(PHSP)
    for i in range(n):
        k = i % 3
        if k == 0:
            a, b = rng.uniform(0.05, 1.5), rng.uniform(0.05, 1.5)
            if rng.random() < 0.3:
                b = a
            phsp = names[(i // 3) % len(names)]
            lo = (a + b) * 1.02 if phsp in ("PhaseSpaceFactor",) or rng.random() < 0.7 else abs(a - b) * 1.05 + 0.01
            out.append({"kind": "width", "phsp": phsp, "L": (i // 15) % 5, "m0": lo + rng.uniform(0.0, 2.0),
                        "g0": rng.uniform(0.01, 1.0), "ma": a, "mb": b, "d": rng.uniform(0.2, 5.0)})
        elif k == 1:
            out.append({"kind": "bw", "L": (i // 3) % 11, "z": 10 ** rng.uniform(-3, 3)})
        else:
            a, b = rng.uniform(0.05, 1.0), rng.uniform(0.05, 1.0)
            out.append({"kind": "builder", "ff": bool((i // 3) & 1), "edw": bool((i // 3) & 2),
                        "phsp": names[(i // 12) % len(names)], "L": (i // 60) % 4, "mass": rng.uniform(0.5, 3.0),
                        "width": rng.uniform(0.01, 0.6), "m12": a + b + rng.uniform(0.01, 2.0), "m1": a, "m2": b,
                        "d": rng.uniform(0.3, 4.0)})
    return out


def main():
    if sys.argv[1] == "--replay":
        doc = json.load(open(sys.argv[2]))
        fails = run_case(doc["replay"]["case"])
        print(json.dumps({"still_fails": bool(fails), "fails": fails}))
        return
    seed, n = int(sys.argv[1]), int(sys.argv[2])
    cases = gen_cases(seed, n)
    failures, kinds, samples, distinct, nev = [], {}, [], set(), 0
    for c in cases:
        try:
            fails = run_case(c)
        except Exception as exc:  # noqa: BLE001
            fails = [("exception_" + type(exc).__name__, f"{type(exc).__name__}: {exc}"[:300])]
        if fails is None:
            continue
        nev += 1
        distinct.add(json.dumps(c, sort_keys=True))
        tag = c["kind"] + "/" + str(c.get("phsp", c.get("L")))
        kinds[tag] = kinds.get(tag, 0) + 1
        if len(samples) < 3 and c["kind"] not in [s_["kind"] for s_ in samples]:
            samples.append(c)
        for sig, what in fails:
            failures.append({"signature": sig, "what": what, "case": c})
    print(json.dumps({"evaluations": nev, "distinct": len(distinct), "samples": samples, "kinds": kinds,
                      "failures": failures[:20]}))


main()
