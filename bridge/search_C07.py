"""C07 numeric differential harness: the property as stated, on the IMPLEMENTATION.

  search_C07.py <seed> <n_cases>      last stdout line: JSON summary
  search_C07.py --replay <file>       re-run one stored failing case -> {"still_fails": bool}

Per case: a set of isobar topologies registered in one HelicityAdapter (single / several /
permutate_registered_topologies), create_expressions() lambdified with cse on and off, a batch of
physical events (sequential two-body decays: massless, near-threshold and highly boosted included;
centre-of-mass or boosted lab frame).  Checked against oracles written from the documentation:

  mass      m_<ids>            == sqrt(E^2-|p|^2) of the summed momenta named in the subscript
  angle     phi/theta_<..>^<..> == angle of the documented momentum in the documented frame chain
                                   (bridge/frames.py, axis projection + boost in longdouble)
  dalitz    3-body, CM frame: polar helicity angle == formulate_scattering_angle's closed form
  names     a name never denotes two numerically different quantities across the registered
            topologies (every topology's own dictionary evaluated separately)
  cse       cse=True and cse=False give the same numbers

Tolerances: every comparison uses  tol = 5e-7 + 1e5 * (max change of the ORACLE value when the
input momenta are perturbed componentwise by +-2^-52 x the largest energy of the event, three random perturbations): an empirical
condition-number bound (the float64 chain of up to four boosts loses a further factor over the
input-perturbation estimate, each boost computing gamma from 1-beta^2; ratios error/deviation
up to ~1e4 were seen on the clean tree, hence 1e5; "max_err_over_dev" in the output is the largest
error/tolerance among accepted comparisons above the base, i.e. how close the clean tree comes).
The base 5e-7 covers Theta = acos(p_z/|p|) within ~1e-7 of a pole (absolute error sqrt(eps)) and
the same loss in sin(Theta) = sqrt(1-cos^2) of a frame rotation when a subsystem flies within
~1e-7 rad of the current z axis (collinear massless pairs do that); masses are compared through
m^2 with base 1e-12 * E^2; so poles (theta ~ 0, phi undefined), near-threshold decays and large
boosts widen their own tolerance; a variable whose tolerance exceeds 1e-3 for an event is
counted as ill-conditioned and skipped for that event.  phi is compared modulo 2 pi.
"""
from __future__ import annotations

import itertools
import json
import random
import sys

import common  # noqa: F401

common.assert_repo_import()
import numpy as np  # noqa: E402
import sympy as sp  # noqa: E402
from qrules.topology import create_isobar_topologies  # noqa: E402

import frames  # noqa: E402
from tie_C07 import data_to_topo, gen_histories, has_double, topo_to_data, variant  # noqa: E402

from ampform.kinematics import HelicityAdapter  # noqa: E402
from ampform.kinematics.angles import formulate_scattering_angle  # noqa: E402

AMPLIFY = 1e5  # see module docstring
BASE_PHI_THETA = 5e-7
RATIO = [0.0]  # largest observed |implementation - oracle| / oracle-deviation (diagnostic)
KNOWN_FAMILY = "angle_name_overwritten_two_decaying_children"
NAN_ALONG_Z = "angle_nan_subsystem_along_z"


# ----------------------------------------------------------------------------- spec from the docs
def tree_of(d):
    """('L', id) | ('N', id, child, child) read off the raw edges."""
    edges = {i: (o, e) for i, o, e in d["edges"]}
    root = [i for i, (o, e) in edges.items() if o is None]
    assert len(root) == 1

    def build(i):
        end = edges[i][1]
        if end is None:
            return ("L", i)
        kids = [k for k, (o, _) in edges.items() if o == end]
        assert len(kids) == 2
        return ("N", i, build(kids[0]), build(kids[1]))

    return build(root[0])


def leaf_ids(t):
    return [t[1]] if t[0] == "L" else sorted(leaf_ids(t[2]) + leaf_ids(t[3]))


def join(ids):
    return "".join(map(str, ids))


def suffix(sub, anc):
    s = "_" + join(sub)
    if anc:
        s += "^" + ",".join(join(a) for a in anc)
    return s


def angle_spec(t, anc=()):
    """{name: (kind, target ids, frames outermost first, is_double_node, opposite ids)}"""
    out = {}
    if t[0] == "L":
        return out
    a, b = t[2], t[3]
    h, o = (a, b) if tuple(leaf_ids(a)) < tuple(leaf_ids(b)) else (b, a)  # helicity / opposite state
    if h[0] == "L" and o[0] == "N":
        target = o                       # doctest: theta_0 = Theta(p1 + p2)
    else:
        target = h                       # "the angles of the helicity state"
    double = h[0] == "N" and o[0] == "N"
    fr = [list(x) for x in reversed(anc)]
    for kind in ("phi", "theta"):
        out[kind + suffix(leaf_ids(h), anc)] = (kind, leaf_ids(target), fr, double, leaf_ids(o))
    for c in (a, b):
        out.update(angle_spec(c, (tuple(leaf_ids(c)),) + tuple(anc)))
    return out


def parse_mass_name(name, final_ids):
    digits = name[2:]
    ids = [int(ch) for ch in digits]
    assert all(i in final_ids for i in ids), name
    return ids


# ----------------------------------------------------------------------------- events
MASSES = [0.0, 0.0, 0.000511, 0.13957, 0.49368, 0.93827, 1.86484, 5.279]


def two_body(rng, M, m1, m2, n):
    # product form: no cancellation near threshold, q > 0 whenever M > m1 + m2
    assert M > m1 + m2, (M, m1, m2)
    q2 = (M - m1 - m2) * (M + m1 + m2) * (M - m1 + m2) * (M + m1 - m2)
    q = np.sqrt(np.maximum(q2, 0)) / (2 * M)
    c = rng.uniform(-1, 1, n)
    ph = rng.uniform(-np.pi, np.pi, n)
    s = np.sqrt(1 - c * c)
    v = np.stack([s * np.cos(ph), s * np.sin(ph), c], axis=1) * q
    p1 = np.concatenate([np.sqrt(m1 * m1 + q * q) * np.ones((n, 1)), v], axis=1)
    p2 = np.concatenate([np.sqrt(m2 * m2 + q * q) * np.ones((n, 1)), -v], axis=1)
    return p1, p2


def boost_by(p, parent):
    """boost p from the rest frame of `parent` (n,4) to the frame parent is given in."""
    b = parent[:, 1:] / parent[:, :1]
    b2 = (b * b).sum(axis=1)
    g = 1 / np.sqrt(1 - b2)
    bp = (b * p[:, 1:]).sum(axis=1)
    with np.errstate(all="ignore"):
        k = np.where(b2 > 0, (g - 1) / np.where(b2 > 0, b2, 1), 0.5)
    E = g * (p[:, 0] + bp)
    v = p[:, 1:] + ((k * bp + g * p[:, 0])[:, None]) * b
    return np.concatenate([E[:, None], v], axis=1)


def gen_events(rng: np.random.Generator, ids, n, mode, lab):
    """sequential two-body decays over a random binary tree on `ids` -> {id: (n,4) float64}"""
    ids = list(ids)
    rng.shuffle(ids)

    def rand_tree(xs):
        if len(xs) == 1:
            return xs[0]
        k = int(rng.integers(1, len(xs)))
        return (rand_tree(xs[:k]), rand_tree(xs[k:]))

    tree = rand_tree(ids)
    mleaf = {i: float(rng.choice(MASSES)) for i in ids}
    if mode == "massless":
        mleaf = {i: 0.0 for i in ids}

    def mass_of(t):
        if not isinstance(t, tuple):
            return mleaf[t]
        m1, m2 = m(t[0]), m(t[1])  # cached: one mass per subsystem
        kind = mode if mode in ("threshold", "boosted") else rng.choice(["plain", "plain", "threshold", "boosted"])
        scale = max(m1 + m2, 0.1)
        if kind == "threshold":
            delta = scale * 10 ** rng.uniform(-6, -3)
        elif kind == "boosted":
            delta = scale * 10 ** rng.uniform(1, 2.7)
        else:
            delta = scale * rng.uniform(0.05, 2.0)
        return m1 + m2 + delta

    cache = {}

    def m(t):
        if id(t) not in cache:
            cache[id(t)] = mass_of(t)
        return cache[id(t)]

    out = {}

    def decay(t, p):
        if not isinstance(t, tuple):
            out[t] = p
            return
        M = m(t)
        p1, p2 = two_body(rng, M, m(t[0]), m(t[1]), n)
        decay(t[0], boost_by(p1, p))
        decay(t[1], boost_by(p2, p))

    M0 = m(tree)
    top = np.zeros((n, 4))
    top[:, 0] = M0
    if lab:
        bg = 10 ** rng.uniform(-1, 2.5, n)  # beta*gamma of the lab boost
        d = rng.normal(size=(n, 3))
        d /= np.linalg.norm(d, axis=1)[:, None]
        top = np.concatenate([(M0 * np.sqrt(1 + bg * bg))[:, None], d * (M0 * bg)[:, None]], axis=1)
    decay(tree, top)
    return {i: np.ascontiguousarray(p, dtype=np.float64) for i, p in out.items()}, M0


# ----------------------------------------------------------------------------- evaluation
def mdoit(e, memo):
    """expr.doit() with sharing: ampform's doit is  evaluate().doit()  and SymPy's is
    func(*[a.doit() for a in args]); both re-unfold a shared subtree once per occurrence, which is
    exponential in the depth of a frame chain.  Same unfolding, memoised.  Checked against the real
    expr.doit() on every case with <= 3 final states (signature harness_unfold_differs)."""
    if e in memo:
        return memo[e]
    if getattr(type(e).doit, "__wrapped__", None) is not None and hasattr(e, "evaluate"):
        r = mdoit(e.evaluate(), memo)
    elif isinstance(e, sp.Basic) and e.args:
        new = [mdoit(a, memo) if isinstance(a, sp.Basic) else a for a in e.args]
        r = e if all(a is b for a, b in zip(new, e.args)) else e.func(*new)
    else:
        r = e
    memo[e] = r
    return r


def lambdify_dict(exprs: dict, cse: bool, check_unfold=False):
    names = list(exprs)
    syms = sorted({s for e in exprs.values() for s in e.free_symbols}, key=str)
    memo = {}
    unfolded = [mdoit(exprs[k], memo) for k in names]
    if check_unfold:
        for k, u in zip(names, unfolded):
            if u != exprs[k].doit():
                raise AssertionError(f"harness_unfold_differs: {k}")
    f = sp.lambdify(syms, unfolded, modules="numpy", cse=cse)
    return names, syms, f


def evaluate(names, syms, f, momenta, n):
    args = [momenta[int(str(s)[1:])] for s in syms]
    vals = f(*args)
    return {str(k): np.broadcast_to(np.asarray(v), (n,)).astype(complex) for k, v in zip(names, vals)}


def angdiff(a, b):
    return np.abs((np.asarray(a - b, dtype=float) + np.pi) % (2 * np.pi) - np.pi)


def perturbed(rng, momenta):
    """absolute perturbation of every component by +-2^-52 x (largest energy in the event): the size
    of the rounding error of float64 sums/products of the momenta (NOT component-relative: a
    particle nearly at rest is perturbed at the scale of the others it is added to)."""
    scale = np.max(np.stack([np.abs(p[:, 0]) for p in momenta.values()]), axis=0)[:, None]
    out = {}
    for i, p in momenta.items():
        out[i] = p + rng.choice([-1.0, 1.0], size=p.shape) * rng.uniform(0.5, 1.0, size=p.shape) * 2.0 ** -52 * scale
    return out


def oracle_with_tol(fun, momenta, rng, periodic, base=None):
    """fun(momenta) -> (n,) longdouble; returns (value, tol)"""
    v0 = fun(momenta)
    dev = np.zeros(len(v0))
    for _ in range(3):
        v1 = fun(perturbed(rng, momenta))
        d = angdiff(v1, v0) if periodic else np.abs(np.asarray(v1 - v0, dtype=float))
        dev = np.maximum(dev, np.where(np.isfinite(d), d, np.inf))
    return v0, (BASE_PHI_THETA if base is None else base) + AMPLIFY * dev


def build_adapter(case):
    topos = [data_to_topo(d) for d in case["init"]]
    adapter = HelicityAdapter(topos[:1])
    for t in topos[1:]:
        adapter.register_topology(t)
    if case["permutate"]:
        adapter.permutate_registered_topologies()
    return adapter


def check_case(case, momenta, n, rng_tol, M0, adapter=None, label=""):
    """-> (n_evaluations, n_illcond, failures[list of (signature, what, var)])"""
    fails = []
    if adapter is None:
        adapter = build_adapter(case)
    registered = [topo_to_data(t) for t in adapter.registered_topologies]
    exprs = adapter.create_expressions()
    # create_expressions() is a function of the registered set: a fresh adapter over the same set agrees
    fresh = HelicityAdapter(list(adapter.registered_topologies)).create_expressions()
    e_names, f_names = {str(k): v for k, v in exprs.items()}, {str(k): v for k, v in fresh.items()}
    if set(e_names) != set(f_names):
        miss = sorted(set(f_names) - set(e_names))
        extra = sorted(set(e_names) - set(f_names))
        fails.append(("create_not_function_of_registered_set",
                      f"{label}create_expressions() of this adapter and of a fresh adapter over the same "
                      f"{len(registered)} registered topologies differ: missing {miss[:6]} ({len(miss)}), extra {extra[:6]} "
                      f"({len(extra)})", (miss + extra)[0]))
    by_name = {}
    for k in exprs:
        if str(k) in by_name:
            fails.append(("two_symbols_one_name", f"{k} appears twice with different assumptions", str(k)))
        by_name[str(k)] = k
    names, syms, f = lambdify_dict(exprs, case["cse"], check_unfold=len(momenta) <= 3)
    got = evaluate(names, syms, f, momenta, n)
    final_ids = sorted(momenta)
    n_eval = n_ill = 0
    tols = {}

    # specs of all registered topologies, per name
    specs = {}
    for d in registered:
        for name, sp_ in angle_spec(tree_of(d)).items():
            specs.setdefault(name, []).append((sp_, d))

    def cmp(name, val, oracle, tol, periodic, sig, detail):
        nonlocal n_eval, n_ill
        ok = tol < 1e-3
        n_ill += int((~ok).sum())
        n_eval += int(ok.sum())
        err = angdiff(val.real, oracle) if periodic else np.abs(val.real - np.asarray(oracle, dtype=float))
        tols[name] = tol
        bad = ok & ~((err <= tol) & (np.abs(val.imag) <= tol))
        if not bad.any() and ok.any():
            r = np.where(ok & (err > BASE_PHI_THETA), err / np.maximum(tol, 1e-300), 0)
            RATIO[0] = max(RATIO[0], float(np.nanmax(r)))
        if bad.any():
            j = int(np.argmax(np.where(bad, np.nan_to_num(err, nan=np.inf), -1)))
            if case["kind"] == "aligned" and np.isnan(val[j]):
                sig = NAN_ALONG_Z
                detail += "; the isobar flies exactly along the z axis: Phi = atan2(0, 0) = 0 is documented, the generated code divides 0/0"
            fails.append((sig, f"{name}: implementation {val[j]:.12g} vs oracle {float(oracle[j]):.12g} "
                               f"(tol {tol[j]:.2g}, event {j}; {detail})", name))
            return False
        return True

    for name, val in got.items():
        if name.startswith("m_"):
            ids = parse_mass_name(name, final_ids)
            m2, tol = oracle_with_tol(lambda mom, ids=ids: frames.invariant_mass2(mom, ids), momenta, rng_tol, False, base=0.0)
            scale = np.asarray(sum(momenta[i][:, 0] for i in ids) ** 2, dtype=float)
            v2 = val * val  # compare squares: m = sqrt(E^2-p^2) is ill-conditioned at m -> 0
            cmp(name, v2, m2, tol + 1e-12 * scale, False, "mass_not_minkowski_norm",
                f"Minkowski norm^2 of p{'+p'.join(map(str, ids))}")
        elif name.startswith(("phi_", "theta_")):
            if name not in specs:
                fails.append(("angle_name_not_documented", f"{name} is not a documented variable of any registered topology", name))
                continue
            # all registered topologies must agree on what the name means (spec level)
            (kind, target, fr, double, opp), d0 = specs[name][0]
            idx = 0 if kind == "phi" else 1
            fun = lambda mom, target=target, fr=fr, idx=idx: frames.angles_in_chain(mom, target, fr)[idx]  # noqa: E731
            ora, tol = oracle_with_tol(fun, momenta, rng_tol, kind == "phi")
            any_double = any(s[0][3] for s in specs[name])
            if any_double:
                # classify: is it the opposite child's angle?
                before = len(fails)
                if not cmp(name, val, ora, tol, kind == "phi", KNOWN_FAMILY, "documented: helicity child of a node whose two children decay"):
                    sig, what, var = fails.pop()
                    fun2 = lambda mom, opp=opp, fr=fr, idx=idx: frames.angles_in_chain(mom, opp, fr)[idx]  # noqa: E731
                    ora2, tol2 = oracle_with_tol(fun2, momenta, rng_tol, kind == "phi")
                    err2 = angdiff(val.real, ora2) if kind == "phi" else np.abs(val.real - np.asarray(ora2, dtype=float))
                    if ((err2 <= tol2) | (tol2 >= 1e-3)).all():
                        fails.append((KNOWN_FAMILY, what + "; the value is the angle of the OPPOSITE-helicity child "
                                      f"p{'+p'.join(map(str, opp))}", var))
                    else:
                        fails.append(("angle_not_documented_frame", what, var))
                assert len(fails) >= before
            else:
                cmp(name, val, ora, tol, kind == "phi", "angle_not_documented_frame",
                    f"{kind} of p{'+p'.join(map(str, target))} after frames {fr}")
            # every registered topology that documents this name must agree with the merged value
            seen_specs = {(tuple(target), tuple(map(tuple, fr)))}
            for (k2, tg2, fr2, _d2, _o2), _top in specs[name][1:]:
                key2 = (tuple(tg2), tuple(map(tuple, fr2)))
                if key2 in seen_specs:
                    continue
                seen_specs.add(key2)
                fun3 = lambda mom, tg2=tg2, fr2=fr2, idx=idx: frames.angles_in_chain(mom, tg2, fr2)[idx]  # noqa: E731
                ora3, tol3 = oracle_with_tol(fun3, momenta, rng_tol, kind == "phi")
                cmp(name, val, ora3, tol3, kind == "phi", "name_denotes_two_quantities",
                    f"another registered topology documents {name} as {kind} of p{'+p'.join(map(str, tg2))} after frames "
                    f"{fr2}, the first one as {kind} of p{'+p'.join(map(str, target))} after frames {fr}")
        else:
            fails.append(("unknown_variable", f"unexpected variable {name}", name))
    for name in specs:
        if name not in got:
            fails.append(("angle_missing", f"documented variable {name} is missing from create_expressions()", name))
    for d in registered:
        t = tree_of(d)

        def subtrees(t):
            yield t
            if t[0] == "N":
                yield from subtrees(t[2])
                yield from subtrees(t[3])
        for s in subtrees(t):
            nm = "m_" + join(leaf_ids(s))
            if nm not in got:
                fails.append(("mass_missing", f"{nm} missing", nm))

    # ---- name consistency across registered topologies (each topology's own dictionary)
    if len(registered) > 1:
        per_name = {}
        for d in registered:
            own = HelicityAdapter([data_to_topo(d)]).create_expressions()
            for k, e in own.items():
                per_name.setdefault(str(k), [])
                if not any(e == e2 for e2, _ in per_name[str(k)]):
                    per_name[str(k)].append((e, d))
        multi = {k: v for k, v in per_name.items() if len(v) > 1}
        for k, lst in sorted(multi.items()):
            ex = {sp.Symbol(f"v{j}"): e for j, (e, _) in enumerate(lst)}
            nm, sy, ff = lambdify_dict(ex, True)
            vals = list(evaluate(nm, sy, ff, momenta, n).values())
            periodic = k.startswith("phi")
            base = vals[0]
            for j in range(1, len(vals)):
                d_ = angdiff(vals[j].real, base.real) if periodic else np.abs(vals[j] - base)
                n_eval += n
                if (d_ > 1e-6).any():
                    dbl = any(has_double(dd) for _, dd in lst) and k in specs and any(s[0][3] for s in specs[k])
                    fails.append((KNOWN_FAMILY if dbl else "name_denotes_two_quantities",
                                  f"{k} = {str(lst[0][0])[:60]} in one registered topology and {str(lst[j][0])[:60]} "
                                  f"in another (differ by {float(d_.max()):.3g})", k))
                    break

    # ---- 3-body: Dalitz closed form
    if case.get("dalitz") and set(final_ids) == {1, 2, 3}:
        masses = {f"m_{i}": np.sqrt(np.maximum(np.asarray(frames.invariant_mass2(momenta, [i]), dtype=float), 0)) for i in (1, 2, 3)}
        for (i, j) in [(1, 2), (2, 3), (3, 1), (2, 1), (3, 2), (1, 3)]:  # cyclic and anti-cyclic argument orders
            pair = sorted((i, j))
            hel = min(i, j)
            name = f"theta_{hel}^{join(pair)}"
            if name not in got:
                continue
            sym, expr = formulate_scattering_angle(i, j)
            fs = sorted(expr.free_symbols, key=str)
            g = sp.lambdify(fs, expr.doit(), modules="numpy")

            def closed(mom, fs=fs, g=g):
                env = {"m_0": np.sqrt(np.asarray(frames.invariant_mass2(mom, [1, 2, 3]), dtype=float))}
                for a in (1, 2, 3):
                    env[f"m_{a}"] = np.sqrt(np.maximum(np.asarray(frames.invariant_mass2(mom, [a]), dtype=float), 0))
                for a, b in ((1, 2), (2, 3), (1, 3)):
                    env[f"m_{a}{b}"] = np.sqrt(np.asarray(frames.invariant_mass2(mom, [a, b]), dtype=float))
                with np.errstate(all="ignore"):
                    return np.asarray(g(*[env[str(s)] for s in fs]), dtype=complex).real

            # massless final states: the masses m_i enter the closed form through sqrt(E^2-p^2), whose
            # rounding (sqrt(eps)*E) is far larger than a relative 2^-52 perturbation suggests
            cf, tol = oracle_with_tol(closed, momenta, rng_tol, False)
            extra = 1e-6 if min(float(masses[f"m_{a}"].min()) for a in (1, 2, 3)) < 1e-3 else 0.0
            val = got[name]
            hel_theta = val if hel == i else np.pi - val  # siblings are back to back in the isobar rest frame
            cmp(name, hel_theta, cf, tol * 50 + extra, False, "theta_not_dalitz",
                f"closed form {sym} of formulate_scattering_angle({i},{j})")
    return n_eval, n_ill, fails, got, tols


def run_case(case, want_cse_cross=True):
    rng = np.random.default_rng(case["event_seed"])
    topos_all = list(case["init"]) + [op[1] for op in case.get("ops", []) if op[0] == "register"]
    ids = sorted({i for d in topos_all for i, o, e in d["edges"] if e is None})
    if "momenta" in case:
        momenta = {int(k): np.array([[float.fromhex(x) for x in row] for row in v]) for k, v in case["momenta"].items()}
        n = len(next(iter(momenta.values())))
        M0 = None
    else:
        n = case["n_events"]
        momenta, M0 = gen_events(rng, ids, n, case["mode"], case["lab"])
    rng_tol = np.random.default_rng(case["event_seed"] + 1)
    if case["kind"] == "history":
        # one adapter through a sequence of operations; every create_expressions() is checked against the
        # registered set at that moment (presence and value of every variable of every registered topology)
        adapter = HelicityAdapter([data_to_topo(d) for d in case["init"]])
        n_eval = n_ill = 0
        fails = []
        for k, op in enumerate(case["ops"]):
            if op[0] == "permutate":
                adapter.permutate_registered_topologies()
            elif op[0] == "register":
                try:
                    adapter.register_topology(data_to_topo(op[1]))
                except ValueError:
                    pass  # refusing a topology is always allowed
            else:
                a, b, fs, _, _ = check_case(case, momenta, n, rng_tol, M0, adapter=adapter)
                n_eval += a
                n_ill += b
                fails += [(s_, f"history {[o[0] for o in case['ops']]} op {k}: " + w, v) for s_, w, v in fs]
                if fails:
                    break
        return n_eval, n_ill, fails, momenta
    n_eval, n_ill, fails, got, tols = check_case(case, momenta, n, rng_tol, M0)
    if want_cse_cross and not fails and case.get("cross_cse"):
        other = dict(case, cse=not case["cse"])
        adapter = build_adapter(other)
        names, syms, f = lambdify_dict(adapter.create_expressions(), other["cse"])
        got2 = evaluate(names, syms, f, momenta, n)
        for k in got:
            if k not in tols or k not in got2:
                continue
            if k.startswith("m_"):
                d = np.abs(got[k] ** 2 - got2[k] ** 2)
                ids = [int(ch) for ch in k[2:]]
                tol = tols[k] + 1e-12 * np.asarray(sum(momenta[i][:, 0] for i in ids) ** 2, dtype=float)
            else:
                d = angdiff(got[k].real, got2[k].real) if k.startswith("phi") else np.abs(got[k] - got2[k])
                tol = tols[k]
            ok = tol < 1e-3
            n_eval += int(ok.sum())
            if (ok & ~(d <= 2 * tol)).any():
                fails.append(("cse_changes_value", f"{k}: cse={case['cse']} and cse={other['cse']} differ by "
                              f"{float(np.nanmax(np.where(ok, d, 0))):.3g}", k))
                break
    return n_eval, n_ill, fails, momenta


def store_momenta(momenta, keep):
    return {str(i): [[float(x).hex() for x in p[j]] for j in keep] for i, p in momenta.items()}


def corpus_cases(rnd):
    """the topology sets HelicityAmplitudeBuilder registers in its adapter for real reactions
    (incl. the identical-particle permutations), stored as plain data"""
    out = []
    try:
        import reactions
        from ampform.helicity import HelicityAmplitudeBuilder
    except Exception:  # noqa: BLE001
        return out
    names = ["d0_k3pi_hel", rnd.choice(["jpsi_3pi_hel", "lc_pkpi_hel", "d0_kkk_hel", "jpsi_ksp_hel"])]
    for k, name in enumerate(names):
        try:
            builder = HelicityAmplitudeBuilder(reactions.load(name))
            init = [topo_to_data(t) for t in builder.adapter.registered_topologies]
        except Exception:  # noqa: BLE001
            continue
        init.sort(key=lambda d: sorted(map(str, d["edges"])))
        n = sum(1 for i, o, e in init[0]["edges"] if e is None)
        out.append({"kind": "corpus_" + name, "n": n, "init": init, "permutate": False, "dalitz": False,
                    "cse": True, "cross_cse": False, "lab": bool(k), "mode": "mixed", "n_events": 24,
                    "event_seed": rnd.randrange(2 ** 31)})
    return out


def aligned_case(rnd):
    """3-body CM events whose isobar (12) flies EXACTLY along +-z (exactly representable momenta,
    scaled by a power of two): physical, theta_1^12 is perfectly conditioned."""
    sc = 2.0 ** rnd.randint(-3, 6)
    rows = {0: [], 1: [], 2: []}
    for sgn in (1.0, -1.0):
        for x in (0.3, -0.3, 0.0625):
            p1 = [1.0, x, 0.0, 0.5 * sgn]
            p2 = [0.75, -x, 0.0, 0.25 * sgn]
            p0 = [1.25, 0.0, 0.0, -0.75 * sgn]
            for i, v in ((0, p0), (1, p1), (2, p2)):
                rows[i].append([float(c * sc).hex() for c in v])
    base = create_isobar_topologies(3)[0]
    return {"kind": "aligned", "n": 3, "init": [topo_to_data(base)], "permutate": False, "dalitz": False,
            "cse": bool(rnd.getrandbits(1)), "cross_cse": False, "lab": False, "mode": "aligned", "n_events": 6,
            "event_seed": rnd.randrange(2 ** 31), "momenta": {str(i): r for i, r in rows.items()}}


def gen_cases(seed: int, n_cases: int):
    rnd = random.Random(7919 * seed + 11)
    cases = corpus_cases(rnd) if n_cases >= 8 else []
    if n_cases >= 8:
        cases.append(aligned_case(rnd))
        for h in gen_histories(rnd, max(3, n_cases // 12)):
            if h["n"] == 4 and any(o[0] == "permutate" for o in h["ops"]):
                continue  # 24+ four-body topologies in one lambdified dictionary: too slow for the numeric route
            h.update({"dalitz": False, "cse": True, "cross_cse": False, "lab": bool(rnd.getrandbits(1)),
                      "mode": "mixed", "n_events": 12, "event_seed": rnd.randrange(2 ** 31)})
            cases.append(h)
    n_cases -= len(cases)
    kinds = ["single"] * 6 + ["multi"] * 2 + ["permutate", "dalitz", "dalitz", "isomorphic"]
    for c in range(n_cases):
        kind = kinds[c % len(kinds)]
        if kind == "dalitz":
            base = create_isobar_topologies(3)[0]
            lp = rnd.choice(list(itertools.permutations(range(3))))
            d = variant(rnd, base, lp, 1)
            d["edges"] = [[0 if i == -1 else i, o, e] for i, o, e in d["edges"]]
            init, perm, lab = [d], rnd.random() < 0.3, False
            n = 3
        else:
            n = rnd.choice([2, 3, 4, 4, 5, 5]) if kind == "single" else rnd.choice([3, 4, 4, 5])
            bases = create_isobar_topologies(n)
            perms = list(itertools.permutations(range(n)))
            if kind == "single":
                init = [variant(rnd, rnd.choice(bases), rnd.choice(perms), 0)]
            elif kind == "multi":
                init = [variant(rnd, rnd.choice(bases), rnd.choice(perms), 0) for _ in range(rnd.randint(2, 4))]
            elif kind == "isomorphic":
                n = rnd.choice([4, 5])
                bases = [b for b in create_isobar_topologies(n) if has_double(topo_to_data(b))]
                b = rnd.choice(bases)
                lp = rnd.choice(list(itertools.permutations(range(n))))
                init = [variant(rnd, b, lp, 0) for _ in range(2)]
            else:  # permutate: keep the lambdified dictionary small
                n = rnd.choice([2, 3, 3, 4])
                bases = create_isobar_topologies(n)
                init = [variant(rnd, rnd.choice(bases), rnd.choice(list(itertools.permutations(range(n)))), 0)]
            perm = kind == "permutate"
            lab = rnd.random() < 0.4
        cases.append({
            "kind": kind, "n": n, "init": init, "permutate": perm, "dalitz": kind == "dalitz",
            # without cse the printed NumPy code is exponential in the chain depth: keep it to small sets
            # (a 5-body cascade without cse takes minutes to print), i.e. cse=False only up to 4 final states
            "cse": bool(c % 2) or n == 5 or (n == 4 and len(init) > 2),
            "cross_cse": c % 5 == 0 and n <= 4 and len(init) <= 2, "lab": lab,
            "mode": rnd.choice(["mixed", "mixed", "massless", "threshold", "boosted"]),
            "n_events": 24, "event_seed": rnd.randrange(2 ** 31),
        })
    return cases


def main():
    if sys.argv[1] == "--replay":
        doc = json.load(open(sys.argv[2]))
        case = doc["replay"]["case"]
        try:
            _, _, fails, _ = run_case(case)
            still = doc["signature"] in {f[0] for f in fails}
        except Exception as exc:  # noqa: BLE001
            still = True
            fails = [(f"exception_{type(exc).__name__}", str(exc)[:200], "")]
        print(json.dumps({"still_fails": bool(still), "failures": [list(f) for f in fails[:3]]}))
        return
    seed, n_cases = int(sys.argv[1]), int(sys.argv[2])
    cases = gen_cases(seed, n_cases)
    tot_eval = tot_ill = 0
    failures, samples, kinds, seen = [], [], {}, set()
    distinct = 0
    for case in cases:
        key = f"{case['kind']}_n{case['n']}_{case['mode']}_{'lab' if case['lab'] else 'cm'}_cse{int(case['cse'])}"
        kinds[key] = kinds.get(key, 0) + 1
        try:
            n_eval, n_ill, fails, momenta = run_case(case)
        except Exception as exc:  # noqa: BLE001
            sig = f"exception_{type(exc).__name__}"
            if sig not in seen:
                seen.add(sig)
                failures.append({"signature": sig, "what": f"{type(exc).__name__}: {str(exc)[:300]}", "case": case})
            continue
        tot_eval += n_eval
        tot_ill += n_ill
        distinct += case["n_events"]
        if len(samples) < 5 and case["kind"] not in {s["kind"] for s in samples}:
            samples.append({"kind": case["kind"], "n": case["n"], "mode": case["mode"], "lab": case["lab"],
                            "cse": case["cse"], "edges": case["init"][0]["edges"],
                            "p_first": {str(i): [round(float(x), 6) for x in p[0]] for i, p in momenta.items()}})
        for sig, what, var in fails:
            if sig in seen:
                continue
            seen.add(sig)
            # keep the offending events bit-for-bit
            stored = dict(case)
            stored["momenta"] = store_momenta(momenta, range(len(next(iter(momenta.values())))))
            failures.append({"signature": sig, "what": what, "case": stored})
    print(json.dumps({"evaluations": tot_eval, "distinct": distinct, "samples": samples, "kinds": kinds,
                      "ill_conditioned_skipped": tot_ill, "max_err_over_dev": RATIO[0], "failures": failures}))


if __name__ == "__main__":
    main()
