"""T2 correspondence for C14/C15: implementation vs Gallina model (AV.Uneval) on the same random inputs.

  corr_uneval.py gen <C14|C15> <seed> <n> <outdir>     -> Cases_<k>.v + cases.json ; last line JSON summary
  corr_uneval.py cmp <outdir>                          -> reads Cases_<k>.out ; last line JSON with failures
"""
from __future__ import annotations

import json
import os
import pickle
import sys

import common  # noqa: F401
import gen_uneval as G
import sympy as sp
import uneval_ir as U

FUEL = 12
MAXNODES = 1500
HEADER = """(* GENERATED correspondence cases — do not edit. *)
From Coq Require Import String List ZArith QArith Bool.
From AV Require Import Uneval Uneval_proofs.
From AVchk Require Import ClassTable.
Import ListNotations.
Open Scope string_scope.
Set Printing Width 1000000.
Set Printing Depth 1000000.
"""


_Timeout = U.TimeLimit


def _alarm(*_):
    raise U.TimeLimit


def impl(f, limit=3):
    try:
        with U.time_limit(limit):
            return {"ok": U.to_ir(f())}
    except U.TimeLimit:
        return {"timeout": True}
    except (U.IRError,) as e:
        return {"irerror": str(e)[:300]}
    except Exception as e:  # noqa: BLE001
        return {"exc": type(e).__name__ + ": " + str(e)[:200]}


def mutate(g, ir):
    """A variant of an instance IR for the ==/hash comparison."""
    r = g.r
    k = r.randrange(5)
    if ir[0] != "U":
        return ir
    q, args, attrs = ir[1], list(ir[2]), list(ir[3])
    if k == 0:
        return ir
    if k == 1 and attrs:
        j = r.randrange(len(attrs))
        a = attrs[j]
        if a[0] == "n":
            attrs[j] = ("s", "builtins.NoneType")
        elif a[0] in "cu":
            # (a class vs its qualified name / an unhashable vs its str() collide the same way as None vs
            # "builtins.NoneType"; only the None collision is generated: it is the listed known finding)
            attrs[j] = ("s", a[1] + "~")
        elif a[0] == "s":
            attrs[j] = ("s", a[1] + "'")
        else:
            attrs[j] = ("n",)
        return ("U", q, args, attrs)
    if k == 2 and attrs:
        j = r.randrange(len(attrs))
        twin = {"uneval_ir.CLOSURE_A": "uneval_ir.CLOSURE_B", "uneval_ir.CLOSURE_B": "uneval_ir.CLOSURE_A",
                "uneval_ir.LAMBDA_A[0]": "uneval_ir.LAMBDA_A[1]", "uneval_ir.LAMBDA_A[1]": "uneval_ir.LAMBDA_A[0]"}
        if attrs[j][0] == "o" and attrs[j][1] in twin:
            attrs[j] = ("o", twin[attrs[j][1]])      # a different function object with the same qualname
        else:
            attrs[j] = r.choice([("n",), ("s", "rho"), ("o", "uneval_ir.pool_function2"), ("o", "uneval_ir.CLOSURE_A")])
        return ("U", q, args, attrs)
    if args:
        j = r.randrange(len(args))
        args[j] = g.leaf()
    return ("U", q, args, attrs)


def gen(mode, seed, n, outdir):
    import classtab

    tab = json.loads(json.dumps(classtab.build()))
    g = G.Gen(seed * 7919 + (14 if mode == "C14" else 15), helpers=(mode == "C15"),
              picklable=(mode == "C15"), poolsum=(mode == "C14"))
    cases, lines, kinds = [], [], {}
    samples = []

    def add(cid, op, coqexpr, ty, expected, extra=None):
        if "timeout" in expected or any(isinstance(v, dict) and "timeout" in v for v in expected.values()):
            kinds["skipped_slow"] = kinds.get("skipped_slow", 0) + 1
            return
        lines.append("Eval " + (coqexpr if ty == "string" else f"bstr ({coqexpr})"))
        cases.append({"case": cid, "op": op, "ty": ty, "impl": expected, **(extra or {})})
        kinds[op] = kinds.get(op, 0) + 1

    for cid in range(n):
        depth = g.r.choice([1, 2, 2, 3, 3, 4])
        obj, ir = g.tree(depth)
        if U.ir_size(ir) > 400:
            continue
        name = f"e_{cid}"
        lines.append(f"Definition {name} : expr := {U.coq(ir)}.")
        base = {"ir": ir, "depth": depth}
        if len(samples) < 6:
            samples.append({"expr": str(obj)[:160], "depth": depth})
        add(cid, "wfi", f"wfi gen_table {name}", "bool", {"ok": True}, base)
        if mode == "C15":
            proto = g.r.choice([2, 3, 4, 5])
            add(cid, "rebuild", f"show (rebuild gen_table Shallow {name})", "string",
                impl(lambda: pickle.loads(pickle.dumps(obj, protocol=proto))), {**base, "proto": proto})  # noqa: S301
            continue
        if G.has_unhashable(ir):
            # xreplace raises TypeError (unhashable attribute looked up in the rule): reported by search_C14
            kind, er, ar = "none", [], []
        else:
            kind, er, ar = g.rule(ir)
        m = G.py_rule(er, ar)
        rbase = {**base, "rule_kind": kind, "er": er, "ar": ar}
        if kind != "none":
          add(cid, "xreplace", f"show (xreplace gen_table Shallow {G.coq_rule(er)} {G.coq_arule(ar)} {name})", "string",
              impl(lambda: obj.xreplace(m)), rbase)
        if er and not ar:
            k0, v0 = er[0]
            ko, vo = U.from_ir(k0), U.from_ir(v0)
            add(cid, "subs", f"show (subs1 gen_table Shallow ({U.coq(k0)}) ({U.coq(v0)}) {name})", "string",
                impl(lambda: obj.subs(ko, vo)), rbase)
        # PoolSum's unfolding (C18) is not in this model: xreplace/subs/==/hash only for trees containing one
        d = impl(lambda: obj.doit()) if not G.has_head(ir, G.POOLSUM) else {"exc": "poolsum"}
        if "ok" in d and U.ir_size(d["ok"]) <= MAXNODES and G.model_doit_size(ir, tab) <= 4 * MAXNODES:
            add(cid, "doit", f"show (doitF gen_table {FUEL} {name})", "string", d, base)
            if er and not ar and all(k[0] == "Y" for k, _ in er):
                sm = G.coq_smap(er)
                lhs = impl(lambda: obj.xreplace(m).doit())
                rhs = impl(lambda: obj.doit().xreplace(m))
                add(cid, "commute_hyps",
                    f"avoids gen_table {sm} && images_ok gen_table {sm} && stableF gen_table {sm} {FUEL} {name} "
                    f"&& wfi gen_table (doitF gen_table {FUEL} {name})", "bool",
                    {"lhs": lhs, "rhs": rhs}, rbase)
        irb = mutate(g, ir)
        try:
            objb = U.from_ir(irb)
            irb = U.to_ir(objb)
            lines.append(f"Definition b_{cid} : expr := {U.coq(irb)}.")
            add(cid, "eq", f"eqb {name} b_{cid}", "bool",
                {"ok": bool(obj == objb), "hash_eq": hash(obj) == hash(objb), "sym": bool(objb == obj)}, {**base, "irb": irb})
        except Exception:  # noqa: BLE001
            pass
        if ir[0] == "U":
            add(cid, "func", f"show (func gen_table {name} (args_of {name}))", "string",
                impl(lambda: obj.func(*obj.args)), base)
    per = 400
    files = []
    # keep Definitions with their Evals: split on case boundaries
    chunk, count, k = [], 0, 0
    for ln in lines:
        if ln.startswith("Definition e_") and count >= per:
            files.append(chunk)
            chunk, count = [], 0
        chunk.append(ln)
        count += ln.startswith("Eval")
    files.append(chunk)
    names = []
    for k, ch in enumerate(files):
        fn = f"Cases_{mode}_{k}.v"
        defs = [ln for ln in ch if not ln.startswith("Eval ")]
        evs = [ln[5:] for ln in ch if ln.startswith("Eval ")]
        with open(os.path.join(outdir, fn), "w") as f:
            # ONE vm_compute per file (each Eval re-compiles the table): results joined by "@"
            f.write(HEADER + "Definition bstr (b : bool) : string := if b then \"T\" else \"F\".\n"
                    + "\n".join(defs) + "\nDefinition outs : list string := [\n  " + ";\n  ".join(evs)
                    + "].\nEval vm_compute in (String.concat \"@\" outs).\n")
        names.append(fn)
    with open(os.path.join(outdir, f"cases_{mode}.json"), "w") as f:
        json.dump({"mode": mode, "seed": seed, "cases": cases, "files": names}, f)
    print(json.dumps({"files": names, "evals": len(cases), "kinds": kinds, "samples": samples}))


def check(c, out):
    """None if model and implementation agree, else a description."""
    op, im = c["op"], c["impl"]
    if c["ty"] == "bool":
        if op == "wfi":
            return None if out is True else "generated instance is not well-formed for the model's table"
        if op == "eq":
            if im["ok"] != im["sym"]:
                return "== is not symmetric"
            if im["ok"] and not im["hash_eq"]:
                return "equal instances hash differently"
            return None if out == im["ok"] else f"model eqb={out}, implementation =={im['ok']}"
        if op == "commute_hyps":
            if not out:
                return None  # outside the theorem's hypotheses (guard switch / folded images)
            l, r = im["lhs"], im["rhs"]
            if "ok" not in l or "ok" not in r:
                return None if ("ok" not in l and "ok" not in r) else f"one side raises: {l if 'ok' not in l else r}"
            lo, ro = U.from_ir(l["ok"]), U.from_ir(r["ok"])
            if U.same(lo, ro):
                return None
            # SymPy's own Sum.doit() evaluates a series once its limits are closed: complete both sides
            if U.same(lo.doit(), ro.doit()):
                return None
            # still different trees (SymPy evaluates numbers differently along the two routes): the
            # property is about the value then
            ne = U.numeric_equal(lo, ro)
            if ne is None:
                raise U.Undecided
            return None if ne else \
                "hypotheses of xreplace_doit_commute hold but xreplace-then-doit != doit-then-xreplace on the implementation"
        return "?"
    try:
        m = U.from_ir(U.parse_show(out))
    except U.ModelError as e:
        return None if "ok" not in im else f"model returns {e}, implementation returns a value"
    except Exception as e:  # noqa: BLE001
        if "ok" not in im:
            return None
        return f"model result cannot be rebuilt through SymPy: {type(e).__name__}: {str(e)[:120]}"
    if "irerror" in im:
        return "implementation result not representable: " + im["irerror"]
    if "exc" in im:
        return f"implementation raises {im['exc']}, model returns a value"
    i = U.from_ir(im["ok"])
    if U.same(m, i):
        return None
    return f"model and implementation differ: model={str(m)[:150]} impl={str(i)[:150]}"


def cmp(outdir, mode):
    with open(os.path.join(outdir, f"cases_{mode}.json")) as f:
        doc = json.load(f)
    outs = []
    for fn in doc["files"]:
        with open(os.path.join(outdir, fn[:-2] + ".out")) as f:
            res = U.coq_outputs(f.read())
            if len(res) == 1:
                outs += [(x == "T") if x in ("T", "F") else x for x in res[0].split("@")]
    cases = doc["cases"]
    fails = []
    if len(outs) != len(cases):
        fails.append({"signature": "corr_output_count", "what": f"{len(outs)} model outputs for {len(cases)} evaluations",
                      "case": {}})
        print(json.dumps({"compared": 0, "failures": fails}))
        return
    agree = 0
    undecided = 0
    hyps_true = 0
    for c, o in zip(cases, outs):
        if c["op"] == "commute_hyps" and o is True:
            hyps_true += 1
        try:
            why = check(c, o)
        except U.Undecided:
            undecided += 1
            continue
        except Exception as e:  # noqa: BLE001
            why = f"comparison crashed: {type(e).__name__}: {str(e)[:200]}"
        if why is None:
            agree += 1
        elif len(fails) < 5:
            fails.append({"signature": f"corr_{c['op']}", "what": f"{mode} correspondence, op {c['op']}: {why}",
                          "case": {k: c[k] for k in c if k not in ("impl",)} | {"mode": mode}})
    print(json.dumps({"compared": len(cases), "agree": agree, "commute_hyps_true": hyps_true, "undecided": undecided, "failures": fails}))


if __name__ == "__main__":
    if sys.argv[1] == "gen":
        gen(sys.argv[2], int(sys.argv[3]), int(sys.argv[4]), sys.argv[5])
    else:
        cmp(sys.argv[2], sys.argv[3])
