"""C16 harness: scripted directory histories executed with the REAL perform_cached_doit on a real
temporary directory, next to the Gallina model coq/theories/Cache.v (T2 correspondence), plus the
property oracle as stated (every returned value == expr.doit(), nothing raises).

  hist_C16.py run <seed> <tier> <mode> <budget>
      executes the histories of this seed/tier under the CURRENT hash mode (PYTHONHASHSEED of
      the environment; <mode> is only a label), writes Cases_C16_<mode>_<k>.v and obs_<mode>.json
      into the cwd; last stdout line = JSON summary (direct property failures, counts).
      <budget> = "full" or "deep" (deep: more random histories; used when something broke).
  hist_C16.py diff <mode>
      reads obs_<mode>.json and Cases_C16_<mode>_<k>.out (coqc output), compares the observations
      of the implementation with the predictions of the model; last stdout line = JSON.
  hist_C16.py --replay <file>
      re-executes one stored history and compares with the stored prediction / oracle.

No hook in the source: crashes and barriers are injected by monkey-patching pickle.dump,
os.replace and builtins.open inside forked harness children.
"""
from __future__ import annotations

import ast
import builtins
import json
import os
import pickle
import random
import re
import select
import shutil
import subprocess
import sys
import tempfile
import time

import common

common.assert_repo_import()
import sympy as sp  # noqa: E402

import ampform.sympy as asy  # noqa: E402
from ampform.dynamics import EnergyDependentWidth  # noqa: E402
from ampform.dynamics.phasespace import (  # noqa: E402
    BreakupMomentumSquared,
    PhaseSpaceFactor,
    PhaseSpaceFactorComplex,
    PhaseSpaceFactorSWave,
)
from ampform.sympy._cache import get_readable_hash  # noqa: E402
from ampform.sympy.math import ComplexSqrt  # noqa: E402

import callables_C16 as cc  # noqa: E402

CASES_PER_FILE = 400
EXIT_CRASH = 77


class Injected(BaseException):
    """Raised by the harness inside a patched pickle.dump / os.replace."""


# --------------------------------------------------------------------------- pool
def build_pool():
    s, m0, g0, m1, m2 = sp.symbols("s m0 Gamma0 m1 m2")

    def edw(ph, L=1):
        return EnergyDependentWidth(s, m0, g0, m1, m2, angular_momentum=L, meson_radius=1,
                                    phsp_factor=ph)

    pool = [
        ("edw_std", edw(PhaseSpaceFactor)),               # differ only in a non-SymPy attribute
        ("edw_sw", edw(PhaseSpaceFactorSWave)),
        ("edw_cx", edw(PhaseSpaceFactorComplex)),
        ("edw_std_again", edw(PhaseSpaceFactor)),          # not different at all (built again)
        ("cs_x", ComplexSqrt(sp.Symbol("x"))),             # differ only in symbol assumptions
        ("cs_xpos", ComplexSqrt(sp.Symbol("x", positive=True))),
        ("cs_xneg", ComplexSqrt(sp.Symbol("x", negative=True))),
        ("cs_xreal", ComplexSqrt(sp.Symbol("x", real=True))),
        ("bms", BreakupMomentumSquared(s, m1, m2)),
        ("bms_again", BreakupMomentumSquared(s, m1, m2)),
        ("sum_edw", sum(edw(PhaseSpaceFactorSWave, L) * sp.Symbol(f"c{L}") for L in range(5))),
        ("sum_edw_std", sum(edw(PhaseSpaceFactor, L) * sp.Symbol(f"c{L}") for L in range(5))),
        # non-SymPy attribute that is a module-level function / a callable instance with value equality
        ("edw_fn2", edw(cc.phsp_squared)),
        ("edw_fn3", edw(cc.phsp_cubed)),
        ("edw_dc1", edw(cc.PoweredPhaseSpace(1))),
        ("edw_dc3", edw(cc.PoweredPhaseSpace(3))),
        ("edw_dc1_again", edw(cc.PoweredPhaseSpace(1))),
        # attributes that cannot be pickled: no cache entry can be written, the call must still return doit()
        ("edw_lambda", edw(cc.lambda_pair()[0])),
        ("edw_closure1", edw(cc.closure_factory(1))),
        ("edw_closure3", edw(cc.closure_factory(3))),
    ]
    return pool


def attr_pairs():
    """Pairs of one @unevaluated expression differing ONLY in the state of a non-SymPy attribute, for
    every kind of attribute value (oracle-only family: several kinds do not survive pickling with ==,
    so their cache entries are never served again - correct, but outside the model's expr_eqb)."""
    s, m0, g0, m1, m2, x = sp.symbols("s m0 Gamma0 m1 m2 x")

    def edw(ph):
        return EnergyDependentWidth(s, m0, g0, m1, m2, angular_momentum=0, meson_radius=1, phsp_factor=ph)
    la, lb = cc.lambda_pair()
    return {
        "class": (edw(PhaseSpaceFactor), edw(PhaseSpaceFactorSWave)),
        "function": (edw(cc.phsp_squared), edw(cc.phsp_cubed)),
        "partial": (edw(cc.partial_phsp(1)), edw(cc.partial_phsp(3))),
        "partial_positional": (edw(__import__("functools").partial(cc.powered_phsp, power=2)),
                               edw(__import__("functools").partial(cc.powered_phsp, power=4))),
        "callable_dataclass": (edw(cc.PoweredPhaseSpace(1)), edw(cc.PoweredPhaseSpace(3))),
        "callable_plain": (edw(cc.PlainPhaseSpace(1)), edw(cc.PlainPhaseSpace(3))),
        "callable_unhashable": (edw(cc.UnhashablePhaseSpace(1)), edw(cc.UnhashablePhaseSpace(3))),
        "closure": (edw(cc.closure_factory(1)), edw(cc.closure_factory(3))),
        "lambda": (edw(la), edw(lb)),
        "value_dataclass": (cc.TaggedPower(x, cc.Tag(1)), cc.TaggedPower(x, cc.Tag(3))),
        "value_plain": (cc.TaggedPower(x, cc.PlainTag(1)), cc.TaggedPower(x, cc.PlainTag(3))),
    }


ATTR_ORDERS = [[0, 1], [1, 0], [0, 1, 0, 1], [1, 0, 0, 1], [0, 0, 1, 1, 0]]


def run_attr_pair(kind, order, forked, base):
    """Calls on the two expressions of a pair in the given order on one fresh directory; with forked,
    every call after the first is made by a freshly forked process (a 'later process').  Returns
    (n_calls, problem | None, unpicklable: bool)."""
    a, b = attr_pairs()[kind]
    want = [a.doit(), b.doit()]
    if same(want[0], want[1]):
        return 0, "harness pair %s is degenerate" % kind, False
    try:
        pickle.dumps((a, want[0]))
        pickle.dumps((b, want[1]))
        picklable = True
    except Exception:  # noqa: BLE001
        picklable = False
    root = tempfile.mkdtemp(prefix="attr_", dir=base)
    n = 0
    try:
        for pos, which in enumerate(order):
            e = (a, b)[which]
            n += 1
            if forked and pos > 0:
                r_fd, w_fd = os.pipe()
                pid = os.fork()
                if pid == 0:
                    try:
                        try:
                            ret = asy.perform_cached_doit(e, root)
                            _send(w_fd, {"ok": bool(isinstance(ret, sp.Basic) and same(ret, want[which])), "exc": None})
                        except BaseException as exc:  # noqa: BLE001
                            _send(w_fd, {"ok": False, "exc": type(exc).__name__})
                    finally:
                        os._exit(0)
                os.close(w_fd)
                doc = _read_lines(r_fd, 120)
                os.close(r_fd)
                os.waitpid(pid, 0)
                if not isinstance(doc, dict):
                    doc = {"ok": False, "exc": "child died"}
            else:
                try:
                    ret = asy.perform_cached_doit(e, root)
                    doc = {"ok": bool(isinstance(ret, sp.Basic) and same(ret, want[which])), "exc": None}
                except Exception as exc:  # noqa: BLE001
                    doc = {"ok": False, "exc": type(exc).__name__}
            left = [f for f in os.listdir(root) if f.endswith(".tmp")] if os.path.isdir(root) else []
            if doc["ok"] and left:
                return n, "call %d (on %s of the pair) left_temp_file %s behind" % (pos, "AB"[which], left[0]), not picklable
            if doc["ok"] and not picklable and [f for f in os.listdir(root) if f.endswith(".pkl")]:
                return n, "call %d: an entry exists although the pair cannot be pickled" % pos, True
            if not doc["ok"]:
                what = ("raised %s" % doc["exc"]) if doc["exc"] else \
                    "returned something else than its own doit() (the unfolding of the other expression?)"
                return n, "call %d (on %s of the pair) %s" % (pos, "AB"[which], what), not picklable
    finally:
        shutil.rmtree(root, ignore_errors=True)
    return n, None, False


def same(a, b):
    """Structural identity of two SymPy objects (SymPy's == compares classes, arguments, symbol
    assumptions and the non-SymPy attributes of ampform's unevaluated classes; srepr is far too
    slow to be used on every call and is used once per table entry only)."""
    return type(a) is type(b) and a == b and hash(a) == hash(b)


class World:
    """Numbering of the real objects for the model: expression classes, results, keys."""

    def __init__(self):
        self.pool = build_pool()
        self.names = [n for n, _ in self.pool]
        self.exprs = [e for _, e in self.pool]
        self.problems = []
        self.memo = {}
        self.reps = []          # class id -> representative pool index
        self.cid = []           # pool index -> class id  (classes of SymPy ==)
        for i, e in enumerate(self.exprs):
            for c, r in enumerate(self.reps):
                if self.exprs[r] == e:
                    self.cid.append(c)
                    break
            else:
                self.cid.append(len(self.reps))
                self.reps.append(i)
        self.doits = [e.doit() for e in self.exprs]
        # == must be a congruence for doit (hypothesis eqb_doit of the theorems)
        for i, e in enumerate(self.exprs):
            r = self.reps[self.cid[i]]
            if sp.srepr(self.doits[i]) != sp.srepr(self.doits[r]):
                self.problems.append(("eq_not_congruent", f"{self.names[i]} == {self.names[r]} but doit() differs"))
            for j in range(len(self.exprs)):
                if (self.exprs[j] == e) != (self.cid[i] == self.cid[j]):
                    self.problems.append(("eq_not_equivalence", f"{self.names[i]} vs {self.names[j]}"))
        self.results = []       # result id - 100 -> object
        self.did = []           # class id -> result id
        for c, r in enumerate(self.reps):
            self.did.append(self.res_id(self.doits[r], add=True))
        self.pick = []          # class id -> can (expr, doit) be pickled?
        for r in self.reps:
            try:
                pickle.dumps((self.exprs[r], self.doits[r]))
                self.pick.append(1)
            except Exception:  # noqa: BLE001
                self.pick.append(0)
        self.fatal = None
        try:
            self.keystr = [get_readable_hash(self.exprs[r]) for r in self.reps]
        except Exception as exc:  # noqa: BLE001
            self.fatal = "get_readable_hash raised %s: %s" % (type(exc).__name__, str(exc)[:80])
            self.keystr = ["k%d" % c for c in range(len(self.reps))]
        self.keys = []
        for k in self.keystr:
            if k not in self.keys:
                self.keys.append(k)
        self.ktab = [self.keys.index(k) for k in self.keystr]
        for i, e in enumerate(self.exprs):
            if self.fatal is None and get_readable_hash(e) != self.keystr[self.cid[i]]:
                self.problems.append(("eq_but_other_key", self.names[i]))

    def res_id(self, obj, add=False):
        if not isinstance(obj, sp.Basic):
            return 1 if isinstance(obj, tuple) else 2
        for j, (o, s) in enumerate(self.results):
            if same(o, obj):
                return 100 + j
        if add:
            self.results.append((obj, sp.srepr(obj)))
            return 100 + len(self.results) - 1
        return 99

    def expr_id(self, obj):
        for c, r in enumerate(self.reps):
            if same(self.exprs[r], obj):
                return c
        return 98

    def path(self, root, c):
        return os.path.join(root, self.keystr[c] + ".pkl")

    def classify_bytes_obj(self, load):
        try:
            obj = load()
        except Exception:  # noqa: BLE001
            return [1]
        if isinstance(obj, tuple) and len(obj) == 2 and isinstance(obj[0], sp.Basic):
            return [5, self.expr_id(obj[0]), self.res_id(obj[1])]
        if isinstance(obj, sp.Basic):
            return [4, self.res_id(obj)]
        return [2]

    def classify(self, path):
        if not os.path.lexists(path):
            return [0]
        if os.path.isdir(path):
            return [3]

        with open(path, "rb") as f:
            data = f.read()
        if data not in self.memo:
            self.memo[data] = self.classify_bytes_obj(lambda: pickle.loads(data))  # noqa: S301
        return self.memo[data]

    def snapshot(self, root):
        return [self.classify(os.path.join(root, k + ".pkl")) for k in self.keys]


# --------------------------------------------------------------------------- children
def _send(fd, doc):
    os.write(fd, (json.dumps(doc) + "\n").encode())


def _child_call(w: World, root, pi, out_fd):
    try:
        ret = asy.perform_cached_doit(w.exprs[pi], root)
        ok = isinstance(ret, sp.Basic) and same(ret, w.doits[pi])
        _send(out_fd, {"res": w.res_id(ret), "ok": bool(ok)})
    except Injected:
        _send(out_fd, {"res": 4, "ok": None})
    except BaseException as exc:  # noqa: BLE001
        _send(out_fd, {"res": 3, "ok": False, "exc": type(exc).__name__})


def _read_lines(fd, timeout):
    """Read one JSON line from fd (or None at EOF / timeout)."""
    buf = b""
    t_end = time.time() + timeout
    while not buf.endswith(b"\n"):
        left = t_end - time.time()
        if left <= 0:
            return "timeout"
        r, _, _ = select.select([fd], [], [], left)
        if not r:
            return "timeout"
        chunk = os.read(fd, 1)
        if not chunk:
            return None
        buf += chunk
    return json.loads(buf)


def crash_call(w: World, root, pi, nbytes, how):
    """Run one call in a forked child whose write is cut after nbytes / at os.replace."""
    r_fd, w_fd = os.pipe()
    pid = os.fork()
    if pid == 0:
        os.close(r_fd)
        try:
            real_dump, real_replace = pickle.dump, os.replace

            def die():
                if how.endswith("exit"):
                    os._exit(EXIT_CRASH)
                raise Injected

            if how in ("exit", "raise"):
                def dump(obj, f, *a, **k):
                    data = pickle.dumps(obj, *a, **k)
                    n = min(nbytes, len(data) - 1)
                    f.write(data[:n])
                    f.flush()
                    die()
                pickle.dump = dump
            else:
                def replace(*a, **k):
                    die()
                os.replace = replace
            _child_call(w, root, pi, w_fd)
        finally:
            os._exit(0)
    os.close(w_fd)
    doc = _read_lines(r_fd, 60)
    os.close(r_fd)
    if doc == "timeout":
        os.kill(pid, 9)
    _, status = os.waitpid(pid, 0)
    if doc is None or doc == "timeout":
        code = os.waitstatus_to_exitcode(status)
        return {"res": 4 if code == EXIT_CRASH else 6, "ok": None if code == EXIT_CRASH else False,
                "exc": None if code == EXIT_CRASH else f"child exit {code}"}
    return doc


PHASES = ["read", "dump", "replace", "end"]


def conc_calls(w: World, root, pis, sched):
    """Forked children, one call each, stopped at mkdir / read / dump / replace; the parent releases
    them according to sched = [(child, phase), ...]; afterwards everybody runs to the end."""
    kids = []
    for pi in pis:
        ev_r, ev_w = os.pipe()
        ct_r, ct_w = os.pipe()
        pid = os.fork()
        if pid == 0:
            for k in kids:
                os.close(k["ev"])
                os.close(k["ct"])
            os.close(ev_r)
            os.close(ct_w)
            try:
                def sync(ev):
                    _send(ev_w, {"ev": ev})
                    os.read(ct_r, 1)
                real_open, real_dump, real_replace = builtins.open, pickle.dump, os.replace
                rootreal = os.path.realpath(root)

                def p_open(file, mode="r", *a, **k):
                    if isinstance(file, (str, os.PathLike)) and "r" in mode and "b" in mode:
                        p = os.path.realpath(os.fspath(file))
                        if p.startswith(rootreal) and p.endswith(".pkl"):
                            sync("read")
                    return real_open(file, mode, *a, **k)

                def p_dump(*a, **k):
                    sync("dump")
                    return real_dump(*a, **k)

                def p_replace(*a, **k):
                    sync("replace")
                    return real_replace(*a, **k)
                real_mkdir = os.mkdir
                first_mkdir = [True]

                def p_mkdir(*a, **k):
                    # the first attempt to create (any part of) the cache directory: whatever
                    # existence check the code makes has been made by now
                    if first_mkdir[0]:
                        first_mkdir[0] = False
                        sync("mkdir")
                    return real_mkdir(*a, **k)
                sync("start")
                builtins.open, pickle.dump, os.replace, os.mkdir = p_open, p_dump, p_replace, p_mkdir
                _child_call(w, root, pi, ev_w)
            finally:
                os._exit(0)
        os.close(ev_w)
        os.close(ct_r)
        kids.append({"pid": pid, "ev": ev_r, "ct": ct_w, "at": None, "res": None, "trail": []})

    def wait_ev(k):
        doc = _read_lines(k["ev"], 30)
        if doc is None or doc == "timeout":
            k["res"] = {"res": 6, "ok": False, "exc": "child died/hung: %s" % doc}
            k["at"] = "end"
        elif "ev" in doc:
            k["at"] = doc["ev"]
            k["trail"].append(doc["ev"])
        else:
            k["res"] = doc
            k["at"] = "end"

    def release(k):
        os.write(k["ct"], b"g")
        wait_ev(k)

    for k in kids:
        wait_ev(k)                 # "start"
    for c, ph in sched:
        k = kids[c]
        while k["res"] is None and k["at"] != ph:
            release(k)
    for k in kids:
        while k["res"] is None:
            release(k)
    for k in kids:
        try:
            os.kill(k["pid"], 0)
        except OSError:
            pass
        os.close(k["ev"])
        os.close(k["ct"])
        os.waitpid(k["pid"], 0)
    return [dict(k["res"], trail=k["trail"]) for k in kids]


def hammer(w: World, root, nproc, ncalls, seed, pis, chaos):
    """Free-running processes on one directory (real races), optionally with a process that
    keeps truncating / deleting cache files.  Oracle: every call returns doit(e), none raises."""
    pids, pipes = [], []
    stop_r, stop_w = os.pipe()
    for j in range(nproc):
        r_fd, w_fd = os.pipe()
        pid = os.fork()
        if pid == 0:
            os.close(r_fd)
            try:
                rng = random.Random(seed * 1000 + j)
                bad = []
                for n in range(ncalls):
                    pi = rng.choice(pis)
                    try:
                        ret = asy.perform_cached_doit(w.exprs[pi], root)
                        if not (isinstance(ret, sp.Basic) and same(ret, w.doits[pi])):
                            bad.append({"call": n, "e": w.names[pi], "what": "wrong value id %d" % w.res_id(ret)})
                    except BaseException as exc:  # noqa: BLE001
                        bad.append({"call": n, "e": w.names[pi], "what": "raised " + type(exc).__name__})
                _send(w_fd, {"bad": bad[:3], "nbad": len(bad)})
            finally:
                os._exit(0)
        os.close(w_fd)
        pids.append(pid)
        pipes.append(r_fd)
    cpid = None
    if chaos:
        cpid = os.fork()
        if cpid == 0:
            try:
                rng = random.Random(seed * 1000 + 999)
                while True:
                    r, _, _ = select.select([stop_r], [], [], 0.0005)
                    if r:
                        break
                    files = [f for f in os.listdir(root) if f.endswith(".pkl")]
                    if not files:
                        continue
                    p = os.path.join(root, rng.choice(files))
                    try:
                        if rng.random() < 0.8:
                            os.truncate(p, rng.randrange(0, max(1, os.path.getsize(p))))
                        else:
                            os.remove(p)
                    except OSError:
                        pass
            finally:
                os._exit(0)
    out = []
    for r_fd, pid in zip(pipes, pids):
        doc = _read_lines(r_fd, 300)
        os.close(r_fd)
        os.waitpid(pid, 0)
        out.append(doc if isinstance(doc, dict) else {"bad": [{"what": "child died/hung"}], "nbad": 1})
    os.write(stop_w, b"s")
    if cpid:
        os.waitpid(cpid, 0)
    os.close(stop_r)
    os.close(stop_w)
    return out


def coldrace(w: World, base, nproc, rounds, seed, pis, depth=8):
    """Real race on a cache directory that does not exist yet: nproc forked workers are released
    together (a pipe they all block on is closed), each calls perform_cached_doit once on the same
    fresh nested path; repeated for many rounds.  Oracle: every call returns doit(e), none raises."""
    bad, ncalls = [], 0
    rng = random.Random(seed)
    for rnd in range(rounds):
        top = tempfile.mkdtemp(prefix="cold%d_" % rnd, dir=base)
        root = os.path.join(top, *["level-%d" % i for i in range(depth)])
        gate_r, gate_w = os.pipe()
        kids = []
        for j in range(nproc):
            pi = pis[rng.randrange(len(pis))]
            r_fd, w_fd = os.pipe()
            pid = os.fork()
            if pid == 0:
                try:
                    os.close(gate_w)
                    os.close(r_fd)
                    os.read(gate_r, 1)          # returns (EOF) when the parent closes the gate
                    _child_call(w, root, pi, w_fd)
                finally:
                    os._exit(0)
            os.close(w_fd)
            kids.append((pid, r_fd, pi))
        os.close(gate_r)
        time.sleep(0.002)
        os.close(gate_w)
        for pid, r_fd, pi in kids:
            doc = _read_lines(r_fd, 120)
            os.close(r_fd)
            os.waitpid(pid, 0)
            ncalls += 1
            if not isinstance(doc, dict) or not doc.get("ok"):
                bad.append({"round": rnd, "e": w.names[pi], "what": ("raised %s" % doc.get("exc")) if isinstance(doc, dict) and doc.get("exc")
                            else "wrong value / died: %s" % (doc,)})
        shutil.rmtree(top, ignore_errors=True)
    return ncalls, bad


# --------------------------------------------------------------------------- executing a history
class Rebuild:
    """Pickles as 'call <func> with <args>' (like every SymPy object does); loading calls it."""

    def __init__(self, func, args):
        self.func, self.args = func, args

    def __reduce__(self):
        return (self.func, self.args)


# well-formed streams whose load raises something else than an UnpicklingError/EOFError
RAISING_KINDS = ["raise_fewer_fields", "raise_more_fields", "raise_symbol_signature", "raise_int_value",
                 "raise_bad_utf8", "raise_text_int", "raise_extension_code", "raise_missing_module",
                 "raise_missing_class", "raise_stack_underflow", "raise_unknown_memo", "raise_zero_division",
                 "raise_key_error", "raise_bare_fewer_fields", "raise_assertion", "raise_lookup"]

PUT_KINDS = ["legacy_own", "legacy_other", "valid_other", "valid_trailing", "junk_int", "junk_3tuple",
             "junk_headless_tuple", "junk_list", "empty", "text", "half", "dir"]


def put_bytes(w: World, op):
    try:
        return _put_bytes(w, op)
    except (pickle.PicklingError, AttributeError, TypeError):
        # the content would contain an expression that cannot be pickled: nobody can have written
        # such a file; a legacy-format file takes its place (the harness classifies what it wrote)
        return pickle.dumps(w.doits[op.get("src", op["e"])])


def _put_bytes(w: World, op):
    e, d = w.exprs[op["e"]], w.doits[op["e"]]
    kind = op["kind"]
    if kind == "legacy_own":
        return pickle.dumps(d)
    if kind == "legacy_other":
        return pickle.dumps(w.doits[op["src"]])
    if kind == "valid_other":
        return pickle.dumps((w.exprs[op["src"]], w.doits[op["src"]]))
    if kind == "valid_trailing":
        return pickle.dumps((w.exprs[op["src"]], w.doits[op["src"]])) + b"trailing bytes"
    if kind == "junk_int":
        return pickle.dumps(42)
    if kind == "junk_3tuple":
        return pickle.dumps((e, d, 1))
    if kind == "junk_headless_tuple":
        return pickle.dumps(("not an expression", d))
    if kind == "junk_list":
        return pickle.dumps([e, d])
    if kind == "empty":
        return b""
    if kind == "text":
        return b"this is not a pickle stream\n"
    if kind == "half":
        b = pickle.dumps((e, d))
        return b[: len(b) // 2]
    if kind.startswith("raise_"):
        import operator
        s_, m_ = sp.Symbol("s"), sp.Symbol("m")
        bad = {
            # entries of "another ampform / sympy version": constructor signature differs
            "raise_fewer_fields": lambda: pickle.dumps((Rebuild(EnergyDependentWidth, (s_, m_, m_)), d)),      # TypeError
            "raise_more_fields": lambda: pickle.dumps((Rebuild(BreakupMomentumSquared, (s_, m_, m_, "q", m_)), d)),
            "raise_bare_fewer_fields": lambda: pickle.dumps(Rebuild(EnergyDependentWidth, (s_,))),
            "raise_symbol_signature": lambda: pickle.dumps((Rebuild(sp.Symbol, ()), d)),                       # TypeError
            "raise_int_value": lambda: pickle.dumps((e, Rebuild(int, ("x",)))),                                # ValueError
            "raise_bad_utf8": lambda: b"\x80\x04\x8c\x02\xff\xfe.",                                        # UnicodeDecodeError
            "raise_text_int": lambda: b"Iabc\n.",                                                             # ValueError
            "raise_extension_code": lambda: b"\x80\x02\x82\x05.",                                            # ValueError
            "raise_missing_module": lambda: b"campform_future.dynamics\nSomeLineshape\n.",                    # ModuleNotFoundError
            "raise_missing_class": lambda: b"campform.dynamics\nSomeFutureLineshape\n.",                      # AttributeError
            "raise_stack_underflow": lambda: b"\x80\x04\x85.",                                               # UnpicklingError
            "raise_unknown_memo": lambda: b"\x80\x04h\x05.",                                                 # UnpicklingError/KeyError
            "raise_zero_division": lambda: pickle.dumps((e, Rebuild(divmod, (1, 0)))),                         # ZeroDivisionError
            "raise_key_error": lambda: pickle.dumps(Rebuild(operator.getitem, ({}, "k"))),                     # KeyError
            "raise_assertion": lambda: pickle.dumps((Rebuild(sp.Symbol, ("x", "y", "z")), d)),                 # TypeError
            "raise_lookup": lambda: pickle.dumps(Rebuild(operator.getitem, ([], 3))),                          # IndexError
        }
        return bad[kind]()
    raise ValueError(kind)


def execute(w: World, hist, root):
    """Run the ops of a history on directory root.  Returns (observations, model_ops, oracle):
    observations[i] = [outcomes of all calls so far, directory snapshot] after op i."""
    outcomes, oracle, obs, mops = [], [], [], []
    blocked = False
    for op in hist["ops"]:
        acts = []
        kind = op["op"]
        if kind == "call":
            c = w.cid[op["e"]]
            n = len(outcomes)
            acts = ["Spawn %d" % c, "RunTo %d AtEnd" % n]
            unp = not w.pick[c]
            tmp_before = set(f for f in os.listdir(root) if f.endswith(".tmp")) if os.path.isdir(root) else set()
            try:
                ret = asy.perform_cached_doit(w.exprs[op["e"]], root)
                d = w.doits[op["e"]]
                ok = isinstance(ret, sp.Basic) and same(ret, d)
                outcomes.append(w.res_id(ret))
                oracle.append({"op": len(obs), "e": w.names[op["e"]], "ok": bool(ok), "unp": unp,
                               "what": None if ok else "returned object id %d instead of doit()" % w.res_id(ret)})
                left = set(f for f in os.listdir(root) if f.endswith(".tmp")) - tmp_before
                if left:
                    oracle.append({"op": len(obs), "e": w.names[op["e"]], "ok": False, "unp": unp,
                                   "what": "left_temp_file %s behind" % sorted(left)[0]})
            except Exception as exc:  # noqa: BLE001
                outcomes.append(3)
                oracle.append({"op": len(obs), "e": w.names[op["e"]], "ok": False, "unp": unp,
                               "what": "raised %s" % type(exc).__name__})
        elif kind == "trunc":
            c = w.cid[op["e"]]
            p = w.path(root, c)
            if os.path.isfile(p) and op["n"] < os.path.getsize(p):
                os.truncate(p, op["n"])
                acts = ["EnvTrunc %d" % w.ktab[c]]
        elif kind == "delete":
            c = w.cid[op["e"]]
            p = w.path(root, c)
            if os.path.isdir(p):
                os.rmdir(p)
            elif os.path.lexists(p):
                os.remove(p)
            acts = ["EnvDelete %d" % w.ktab[c]]
        elif kind == "put":
            c = w.cid[op["e"]]
            p, k = w.path(root, c), w.ktab[c]
            if os.path.isdir(p):
                os.rmdir(p)
            elif os.path.lexists(p):
                os.remove(p)
            if op["kind"] == "dir":
                os.mkdir(p)
                acts = ["EnvBlock %d" % k]
                blocked = True
            else:
                data = put_bytes(w, op)
                with open(p, "wb") as f:
                    f.write(data)
                cl = w.classify(p)      # the harness' own reading of what it wrote
                if cl[0] == 1:
                    acts = ["EnvGarbage %d" % k]
                elif cl[0] == 2:
                    acts = ["EnvJunk %d" % k]
                elif cl[0] == 4:
                    acts = ["EnvLegacy %d %d" % (k, cl[1])]
                elif cl[0] == 5:
                    assert cl[2] == w.did[cl[1]], "harness wrote a forged file"
                    acts = ["EnvValid %d %d" % (k, cl[1])]
        elif kind == "crash_call":
            c = w.cid[op["e"]]
            n = len(outcomes)
            if op["how"] in ("exit", "raise") and not w.pick[c]:
                # the injected dump fails at pickle.dumps exactly like the real one: an ordinary call
                acts = ["Spawn %d" % c, "RunTo %d AtEnd" % n]
            elif op["how"] in ("exit", "raise"):
                acts = ["Spawn %d" % c, "RunTo %d AtDump" % n, "Chunk %d" % n, "Crash %d" % n]
            else:
                acts = ["Spawn %d" % c, "RunTo %d AtReplace" % n, "Crash %d" % n]
            doc = crash_call(w, root, op["e"], op["n"], op["how"])
            outcomes.append(doc["res"])
            if doc["ok"] is not None:
                oracle.append({"op": len(obs), "e": w.names[op["e"]], "ok": bool(doc["ok"]), "unp": not w.pick[c],
                               "what": None if doc["ok"] else ("raised %s in " % doc.get("exc") if doc.get("exc") else "") + "crash_call child: res %s %s" % (doc["res"], doc.get("exc"))})
        elif kind == "conc":
            base = len(outcomes)
            acts = ["Spawn %d" % w.cid[pi] for pi in op["es"]]
            ph = {"read": "AtRead", "dump": "AtDump", "replace": "AtReplace", "end": "AtEnd"}
            acts += ["RunTo %d %s" % (base + c, ph[p]) for c, p in op["sched"] if p != "mkdir"]
            acts += ["RunTo %d AtEnd" % (base + c) for c in range(len(op["es"]))]
            docs = conc_calls(w, root, op["es"], op["sched"])
            for pi, doc in zip(op["es"], docs):
                outcomes.append(doc["res"])
                oracle.append({"op": len(obs), "e": w.names[pi], "ok": bool(doc["ok"]), "unp": not w.pick[w.cid[pi]],
                               "what": None if doc["ok"] else ("raised %s in " % doc.get("exc") if doc.get("exc") else "") + "concurrent call: res %s %s trail %s"
                               % (doc["res"], doc.get("exc"), doc.get("trail"))})
        else:
            raise ValueError(kind)
        mops.append(acts)
        obs.append([list(outcomes), w.snapshot(root)])
    if blocked:   # outside the hypotheses of the theorems (model still compared)
        oracle = [dict(o, ok=True, what=None, skipped="non-file entry present") for o in oracle]
    return obs, mops, oracle


# --------------------------------------------------------------------------- generating histories
def gen_histories(w: World, seed, tier, budget, sizes):
    rng = random.Random(seed)
    P = {n: i for i, n in enumerate(w.names)}
    thorough = tier == "thorough"
    H = []

    def add(family, ops, cold=False):
        H.append({"family": family, "ops": ops, "cold": cold})

    def call(n):
        return {"op": "call", "e": P[n]}

    pairs = [("edw_std", "edw_sw"), ("edw_std", "edw_cx"), ("edw_sw", "edw_cx"), ("cs_x", "cs_xpos"),
             ("cs_xpos", "cs_xneg"), ("cs_x", "cs_xreal"), ("edw_std", "edw_std_again"), ("bms", "bms_again"),
             ("edw_std", "bms"), ("sum_edw", "sum_edw_std"), ("edw_fn2", "edw_fn3"), ("edw_dc1", "edw_dc3"),
             ("edw_dc1", "edw_dc1_again"), ("edw_lambda", "edw_std"), ("edw_closure1", "edw_closure3"),
             ("edw_std", "edw_closure1")]
    # the three refutation witnesses of the pinned variant, on real expressions
    add("witness_collision", [call("edw_std"), call("edw_sw")])
    add("witness_collision", [call("cs_xpos"), call("cs_xneg")])
    add("witness_truncation", [{"op": "crash_call", "e": P["edw_std"], "n": sizes["edw_std"] // 2, "how": "exit"},
                               call("edw_std")])
    add("witness_concurrent", [{"op": "conc", "es": [P["edw_std"], P["edw_std"]],
                                "sched": [[0, "dump"], [1, "end"], [0, "end"]]}])
    # F1 plain sequences over a pair
    for a, b in pairs:
        seqs = [[a, b], [a, b, a, b], [b, a, a, b], [a, a, b, b, a]]
        if thorough:
            seqs = [[(a, b)[(m >> i) & 1] for i in range(4)] for m in range(16)] + seqs
        for sq in seqs:
            add("sequence", [call(n) for n in sq])
    # F2 truncation after every prefix length
    trunc_targets = [("cs_xpos", "cs_xneg"), ("edw_std", "edw_sw"), ("edw_sw", "edw_std"), ("bms", "bms_again"),
                     ("sum_edw", "sum_edw_std")]
    for a, b in trunc_targets:
        size = sizes[a]
        lengths = list(range(size + 1))
        if not thorough and size > 400:
            step = max(1, size // 60)
            lengths = sorted(set(range(0, size + 1, step)) | {size - 1, size, 1, 2})
            lengths += [rng.randrange(size) for _ in range(10)]
        for n in lengths:
            if n % 2 == 0:
                add("truncate", [call(a), {"op": "trunc", "e": P[a], "n": n}, call(a), call(a)])
            else:
                add("truncate", [call(a), {"op": "trunc", "e": P[a], "n": n}, call(b), call(a), call(b)])
    # F3 pre-existing files of all sorts
    for a, b in pairs:
        for kind in PUT_KINDS:
            op = {"op": "put", "e": P[a], "kind": kind, "src": P[b]}
            add("preexisting", [op, call(a), call(a), call(b), call(a)])
            if thorough or kind in ("legacy_other", "valid_other", "dir"):
                add("preexisting", [call(b), op, call(b), call(a), {"op": "delete", "e": P[a]}, call(a), call(b)])
    # F3b well-formed pickles that cannot be rebuilt (every exception class must count as garbage)
    rpairs = pairs if thorough else [pairs[0], pairs[3], pairs[8]]
    for a, b in rpairs:
        for kind in RAISING_KINDS:
            op = {"op": "put", "e": P[a], "kind": kind, "src": P[b]}
            add("unloadable", [op, call(a), call(a), call(b)])
            if thorough:
                add("unloadable", [call(a), op, call(a), call(b), call(a)])
    # F4 crash inside the write / at the rename, then fresh calls
    for a, b in [("edw_std", "edw_sw"), ("cs_xpos", "cs_x"), ("sum_edw", "sum_edw_std")]:
        size = sizes[a]
        lengths = list(range(size)) if thorough and size <= 1200 else \
            sorted(set(range(0, size, max(1, size // (60 if thorough else 12)))) | {0, 1, size - 1})
        for n in lengths:
            for how in ("exit", "raise"):
                pre = [call(b)] if n % 3 == 0 else ([call(a), {"op": "trunc", "e": P[a], "n": n}] if n % 3 == 1 else [])
                add("crash_in_write", pre + [{"op": "crash_call", "e": P[a], "n": n, "how": how}, call(a), call(b), call(a)])
        for how in ("replace_exit", "replace_raise"):
            add("crash_at_rename", [{"op": "crash_call", "e": P[a], "n": 0, "how": how}, call(a), call(b)])
            add("crash_at_rename", [call(b), {"op": "crash_call", "e": P[a], "n": 0, "how": how}, call(b), call(a)])
    # F5 scripted concurrency: every interleaving of two calls stopped at read / dump / replace
    def interleavings(k):
        def rec(prefix, pos):
            if all(pos[c] == len(PHASES) for c in range(k)):
                yield list(prefix)
                return
            for c in range(k):
                if pos[c] < len(PHASES):
                    pos[c] += 1
                    prefix.append([c, PHASES[pos[c] - 1]])
                    yield from rec(prefix, pos)
                    prefix.pop()
                    pos[c] -= 1
        return list(rec([], [0] * k))

    inter2 = interleavings(2)          # 70
    conc_pairs = [("edw_std", "edw_std_again"), ("edw_std", "edw_sw"), ("cs_xpos", "cs_xneg"), ("edw_std", "bms")]
    inits = [[], ["valid_other"], ["half"], ["legacy_own"]]
    for a, b in conc_pairs:
        for init in inits:
            scheds = inter2 if thorough else rng.sample(inter2, 8)
            for sc in scheds:
                pre = [{"op": "put", "e": P[a], "kind": k, "src": P[b]} for k in init]
                add("concurrent2", pre + [{"op": "conc", "es": [P[a], P[b]], "sched": sc}, call(a), call(b)])
    n3 = 120 if thorough else 16
    names = w.names
    for _ in range(n3):
        k = rng.choice([3, 3, 4])
        es = [rng.choice(["edw_std", "edw_sw", "edw_cx", "edw_std_again"]) if rng.random() < 0.7 else rng.choice(names)
              for _ in range(k)]
        pos, sc = [0] * k, []
        while any(p < 4 for p in pos):
            c = rng.choice([c for c in range(k) if pos[c] < 4])
            pos[c] += rng.choice([1, 1, 2]) if pos[c] < 3 else 1
            pos[c] = min(pos[c], 4)
            sc.append([c, PHASES[pos[c] - 1]])
        add("concurrent3", [{"op": "conc", "es": [P[n] for n in es], "sched": sc}] + [call(n) for n in es])
    # F7 cold start: the (nested) cache directory does not exist yet; all children are held at their
    # first os.mkdir (i.e. after whatever existence check the code makes), then released
    cold_sets = [["edw_std", "edw_sw"], ["edw_std", "edw_std_again", "edw_cx"], ["cs_xpos", "cs_xneg", "cs_x", "bms"]]
    for es in cold_sets:
        k = len(es)
        add("coldstart", [{"op": "conc", "es": [P[n] for n in es], "sched": [[c, "mkdir"] for c in range(k)]}]
            + [call(n) for n in es], cold=True)
        add("coldstart", [{"op": "conc", "es": [P[n] for n in es],
                           "sched": [[c, "mkdir"] for c in range(k)] + [[c, "dump"] for c in reversed(range(k))]},
                          call(es[0])], cold=True)
        add("coldstart", [call(es[0]), call(es[1]), call(es[0])], cold=True)
        add("coldstart", [{"op": "crash_call", "e": P[es[0]], "n": 3, "how": "exit"}, call(es[0]), call(es[1])], cold=True)
    for _ in range(60 if thorough else 4):
        k = rng.choice([2, 3, 4, 5])
        es = [rng.choice(names) for _ in range(k)]
        order = list(range(k))
        rng.shuffle(order)
        sc = [[c, "mkdir"] for c in order]
        for c in rng.sample(range(k), k):
            sc.append([c, rng.choice(PHASES)])
        add("coldstart", [{"op": "conc", "es": [P[n] for n in es], "sched": sc}, call(es[0])], cold=True)
    # F6 random mixed histories
    nrand = {"quick": 40, "thorough": 400}[tier] * (5 if budget == "deep" else 1)
    for _ in range(nrand):
        group = rng.choice([["edw_std", "edw_sw", "edw_cx", "edw_std_again"], ["cs_x", "cs_xpos", "cs_xneg", "cs_xreal"],
                            ["bms", "bms_again", "edw_std", "sum_edw", "sum_edw_std"], names])
        ops = []
        for _ in range(rng.randint(3, 9)):
            a = rng.choice(group)
            r = rng.random()
            if r < 0.45:
                ops.append(call(a))
            elif r < 0.6:
                ops.append({"op": "trunc", "e": P[a], "n": rng.randrange(0, sizes[a] + 1)})
            elif r < 0.72:
                kinds = [k for k in PUT_KINDS if k != "dir"] + RAISING_KINDS
                ops.append({"op": "put", "e": P[a], "kind": rng.choice(kinds), "src": P[rng.choice(group)]})
            elif r < 0.78:
                ops.append({"op": "delete", "e": P[a]})
            elif r < 0.9:
                ops.append({"op": "crash_call", "e": P[a], "n": rng.randrange(0, sizes[a]),
                            "how": rng.choice(["exit", "raise", "replace_exit", "replace_raise"])})
            else:
                b = rng.choice(group)
                ops.append({"op": "conc", "es": [P[a], P[b]], "sched": rng.choice(inter2)})
        ops.append(call(rng.choice(group)))
        add("random", ops)
    return H


def measure_sizes(w: World, base):
    sizes = {}
    for i, n in enumerate(w.names):
        root = tempfile.mkdtemp(prefix="sz_", dir=base)
        try:
            asy.perform_cached_doit(w.exprs[i], root)
            fs = [f for f in os.listdir(root) if f.endswith(".pkl")]
            sizes[n] = os.path.getsize(os.path.join(root, fs[0])) if fs else 200
        except Exception:  # noqa: BLE001
            sizes[n] = 200
    return sizes


# --------------------------------------------------------------------------- Coq side
def coq_ops(mops):
    return "[" + "; ".join("[" + "; ".join(a) + "]" for a in mops) + "]"


def write_cases(w: World, mode, records):
    files = []
    for k in range(0, len(records), CASES_PER_FILE):
        name = "Cases_C16_%s_%d.v" % (mode, k // CASES_PER_FILE)
        with open(name, "w") as f:
            f.write("(* generated by bridge/hist_C16.py: histories executed on the implementation, as model actions *)\n")
            f.write("From Coq Require Import List.\nImport ListNotations.\nFrom AV Require Import Cache.\nImport NatCache.\n")
            f.write("Set Printing Width 1000000.\nSet Printing Depth 1000000.\n")
            f.write("Definition ktab : list nat := [%s].\n" % "; ".join(map(str, w.ktab)))
            f.write("Definition dtab : list nat := [%s].\n" % "; ".join(map(str, w.did)))
            f.write("Definition ptab : list nat := [%s].\n" % "; ".join(map(str, w.pick)))
            for r in records[k:k + CASES_PER_FILE]:
                ops = coq_ops(r["mops"])
                f.write("Eval vm_compute in (history Robust ktab dtab ptab %d %s).\n" % (len(w.keys), ops))
                f.write("Eval vm_compute in (history Pinned ktab dtab ptab %d %s).\n" % (len(w.keys), ops))
        files.append(name)
    return files


def parse_coq_output(text):
    vals = []
    for m in re.finditer(r"^\s*= (.*)$", text, re.M):
        s = m.group(1).strip().replace(";", ",")
        vals.append(ast.literal_eval(s))
    return vals


def norm(o):
    return json.loads(json.dumps(o))


def first_diff(real, pred):
    for i, (a, b) in enumerate(zip(real, pred)):
        if norm(a[0]) != norm(list(b[0])):
            return i, "outcomes of the calls so far: implementation %s, model %s" % (a[0], list(b[0]))
        if norm(a[1]) != norm([list(x) for x in b[1]]):
            return i, "cache files afterwards: implementation %s, model %s" % (a[1], [list(x) for x in b[1]])
    if len(real) != len(pred):
        return min(len(real), len(pred)), "length"
    return None


LEGEND = ("outcome codes: >=100 result table id, 99 unknown expression, 1 tuple, 2 other object, 3 raised, "
          "4 killed/injected, 5 unfinished, 6 hung; file codes: [0] absent [1] unloadable [2] junk [3] directory "
          "[4,res] legacy [5,src,res] (src,res)")


ENV_VALUES = [None, "", "0", "1", "1234", "4294967295", "007", "random", "abc", " 1", "1 ", "-1", "+1", "12a", "0x10",
              "1.0", "None", "RANDOM"]


def env_probe():
    """The real _get_python_hash_seed / get_readable_hash under PYTHONHASHSEED values assigned at run
    time.  code: 0 = sha256 mode, n+1 = python-hash mode with seed n, -1 = raised."""
    import ampform.sympy._cache as ch
    saved = os.environ.get("PYTHONHASHSEED")
    out = []
    obj = sp.Symbol("x") + 1
    try:
        for v in ENV_VALUES:
            if v is None:
                os.environ.pop("PYTHONHASHSEED", None)
            else:
                os.environ["PYTHONHASHSEED"] = v
            rec = {"value": v}
            try:
                r = ch._get_python_hash_seed()
                rec["code"] = 0 if r is None else int(r) + 1
            except Exception as exc:  # noqa: BLE001
                rec["code"], rec["exc"] = -1, type(exc).__name__
            try:
                h = get_readable_hash(obj)
                if rec["code"] == 0:
                    rec["key_ok"] = bool(re.fullmatch(r"[0-9a-f]{64}", h))
                elif rec["code"] > 0:
                    rec["key_ok"] = h.startswith("pythonhashseed-%d" % (rec["code"] - 1))
                else:
                    rec["key_ok"] = False
            except Exception as exc:  # noqa: BLE001
                rec["key_ok"], rec["key_exc"] = False, type(exc).__name__
            out.append(rec)
    finally:
        if saved is None:
            os.environ.pop("PYTHONHASHSEED", None)
        else:
            os.environ["PYTHONHASHSEED"] = saved
    return out


def write_env_cases(mode):
    name = "Cases_C16_%s_env.v" % mode
    vals = "; ".join("EnvUnset" if v is None else 'EnvStr "%s"' % v for v in ENV_VALUES)
    with open(name, "w") as f:
        f.write("From Coq Require Import List String NArith.\nImport ListNotations.\nFrom AV Require Import Cache.\n"
                "Import HashMode.\nOpen Scope string_scope.\nOpen Scope N_scope.\nSet Printing Width 1000000.\n")
        f.write("Eval vm_compute in (map (fun v => mode_code (hash_mode v)) [%s]).\n" % vals)
    return name


# --------------------------------------------------------------------------- commands
def cmd_run(seed, tier, mode, budget):
    w = World()
    base = tempfile.mkdtemp(prefix="c16_", dir=os.environ.get("TMPDIR") or "/tmp")
    failures, records = [], []
    t0 = time.time()
    hs = os.environ.get("PYTHONHASHSEED")
    envobs = env_probe()
    envfile = write_env_cases(mode)
    for rec in envobs:
        if rec["code"] < 0 or not rec["key_ok"]:
            failures.append({"signature": "prop:keyfunction:raised",
                             "what": "with PYTHONHASHSEED=%r (assigned at run time) _get_python_hash_seed -> %s, get_readable_hash -> %s"
                             % (rec["value"], rec.get("exc", rec["code"]), rec.get("key_exc", "key ok" if rec["key_ok"] else "wrong key format")),
                             "case": {"kind": "envvalue", "mode": mode, "hashseed": hs, "value": rec["value"]}})
            break
    if w.fatal:
        shutil.rmtree(base, ignore_errors=True)
        failures.append({"signature": "prop:keyfunction:raised",
                         "what": "every call raises under PYTHONHASHSEED=%r: %s" % (hs, w.fatal),
                         "case": {"kind": "envcall", "mode": mode, "hashseed": hs}})
        with open("obs_%s.json" % mode, "w") as f:
            json.dump({"mode": mode, "hashseed": hs, "records": [], "envobs": envobs, "names": w.names}, f)
        print(json.dumps({"files": [envfile], "histories": 0, "calls": 0, "hammer": [], "key_collisions": [], "n_keys": 0,
                          "n_classes": len(w.reps), "sizes": {}, "failures": failures, "unpicklable": [], "wall": 0}))
        return
    unpicklable, n_attr = [], 0
    try:
        for sig, what in w.problems:
            failures.append({"signature": "prop:" + sig, "what": what,
                             "case": {"kind": "pool", "mode": mode, "hashseed": os.environ.get("PYTHONHASHSEED")}})
        sizes = measure_sizes(w, base)
        hists = gen_histories(w, seed, tier, budget, sizes)
        if budget == "lite":      # reduced set for the extra hash modes
            keep = {"witness_collision", "witness_truncation", "witness_concurrent", "sequence", "unloadable",
                    "coldstart", "crash_at_rename", "random"}
            hists = [h for h in hists if h["family"] in keep]
        # pairs differing only in the state of a non-SymPy attribute, every kind of attribute value
        for kind in attr_pairs():
            for oi, order in enumerate(ATTR_ORDERS if tier == "thorough" else ATTR_ORDERS[:3]):
                for forked in (False, True):
                    n, problem, unp = run_attr_pair(kind, order, forked, base)
                    n_attr += n
                    if unp and kind not in unpicklable:
                        unpicklable.append(kind)
                    if kind in ("closure", "lambda") and kind not in unpicklable:
                        unpicklable.append(kind)
                    if problem:
                        failures.append({"signature": "unpicklable_expression_raises" if (unp and "raised" in problem) else
                                         "prop:attribute_pair:%s" % ("raised" if "raised" in problem else "wrong_value"),
                                         "what": "pair differing only in a non-SymPy attribute (%s), order %s%s: %s [hash mode %s]"
                                         % (kind, "".join("AB"[i] for i in order), ", later processes" if forked else "", problem, mode),
                                         "case": {"kind": "attrpair", "mode": mode, "hashseed": hs, "pair": kind,
                                                  "order": order, "forked": forked}})
                        break
                else:
                    continue
                break
        for hi, h in enumerate(hists):
            top = tempfile.mkdtemp(prefix="h%d_" % hi, dir=base)
            root = os.path.join(top, "not", "yet", "there") if h.get("cold") else top
            obs, mops, oracle = execute(w, h, root)
            shutil.rmtree(top, ignore_errors=True)
            records.append({"family": h["family"], "ops": h["ops"], "cold": bool(h.get("cold")), "obs": obs, "mops": mops})
            for o in oracle:
                if not o["ok"]:
                    failures.append({
                        "signature": "unpicklable_expression_raises" if (o.get("unp") and o["what"].startswith("raised"))
                        else "prop:%s:%s" % (h["family"], o["what"].split(" ")[0]),
                        "what": "%s: call on %s at op %d %s [hash mode %s]" % (h["family"], o["e"], o["op"], o["what"], mode),
                        "case": {"kind": "history", "mode": mode, "hashseed": os.environ.get("PYTHONHASHSEED"),
                                 "family": h["family"], "ops": h["ops"], "cold": bool(h.get("cold")),
                                 "expected": None}})
                    break
        # free-running processes
        P = {n: i for i, n in enumerate(w.names)}
        ham = []
        runs = [(2, 30, False), (4, 30, True)] if tier == "quick" else \
            [(2, 200, False), (3, 200, True), (4, 300, True), (4, 300, False)]
        group = [P[n] for n in ("edw_std", "edw_sw", "edw_cx", "edw_std_again", "cs_xpos", "cs_xneg", "bms", "edw_lambda",
                                "edw_closure1")]
        ncalls_h = n_attr
        if budget == "lite":
            runs = runs[:1]
        for ri, (nproc, ncalls, chaos) in enumerate(runs):
            root = tempfile.mkdtemp(prefix="ham%d_" % ri, dir=base)
            out = hammer(w, root, nproc, ncalls, seed * 10 + ri, group, chaos)
            shutil.rmtree(root, ignore_errors=True)
            ncalls_h += nproc * ncalls
            nbad = sum(o["nbad"] for o in out)
            ham.append({"nproc": nproc, "ncalls": ncalls, "chaos": chaos, "bad": nbad})
            if nbad:
                first = [b for o in out for b in o["bad"]][0]
                failures.append({"signature": "prop:hammer:" + first["what"].split(" ")[0],
                                 "what": "free-running processes: %s (%d bad calls) [hash mode %s]" % (first, nbad, mode),
                                 "case": {"kind": "hammer", "mode": mode, "hashseed": os.environ.get("PYTHONHASHSEED"),
                                          "nproc": nproc, "ncalls": ncalls, "chaos": chaos, "seed": seed * 10 + ri,
                                          "group": group}})
        # cold-start races without any barrier inside the call (real scheduling)
        cr_rounds = (12 if tier == "quick" else 200) if budget != "lite" else 4
        ncold, cbad = coldrace(w, base, 8, cr_rounds, seed + 17, group)
        ncalls_h += ncold
        ham.append({"coldrace_rounds": cr_rounds, "nproc": 8, "bad": len(cbad)})
        if cbad:
            failures.append({"signature": "prop:coldrace:" + cbad[0]["what"].split(" ")[0],
                             "what": "cold start, 8 processes on a directory that does not exist yet: %s (%d bad calls) [hash mode %s]"
                             % (cbad[0], len(cbad), mode),
                             "case": {"kind": "coldrace", "mode": mode, "hashseed": os.environ.get("PYTHONHASHSEED"),
                                      "nproc": 8, "rounds": max(cr_rounds, 200), "seed": seed + 17, "group": group}})
    finally:
        shutil.rmtree(base, ignore_errors=True)
    files = write_cases(w, mode, records)
    collisions = []
    for i in range(len(w.reps)):
        for j in range(i + 1, len(w.reps)):
            if w.ktab[i] == w.ktab[j]:
                collisions.append([w.names[w.reps[i]], w.names[w.reps[j]], w.did[i] != w.did[j]])
    with open("obs_%s.json" % mode, "w") as f:
        json.dump({"mode": mode, "hashseed": os.environ.get("PYTHONHASHSEED"), "records": records, "envobs": envobs,
                   "names": w.names, "cid": w.cid, "ktab": w.ktab, "did": w.did}, f)
    ncalls = sum(len(r["obs"][-1][0]) for r in records if r["obs"])
    print(json.dumps({"files": files + [envfile], "unpicklable": unpicklable,
                      "histories": len(records), "calls": ncalls + ncalls_h, "hammer": ham,
                      "key_collisions": collisions, "n_keys": len(w.keys), "n_classes": len(w.reps),
                      "sizes": sizes, "failures": failures[:20], "wall": round(time.time() - t0, 1)}))


def cmd_diff(mode):
    doc = json.load(open("obs_%s.json" % mode))
    recs = doc["records"]
    preds = []
    k = 0
    while os.path.exists("Cases_C16_%s_%d.out" % (mode, k)):
        preds += parse_coq_output(open("Cases_C16_%s_%d.out" % (mode, k)).read())
        k += 1
    failures, fam = [], {}
    envout = "Cases_C16_%s_env.out" % mode
    env_checked = 0
    if os.path.exists(envout):
        m = re.search(r"^\s*= \[(.*)\]", open(envout).read(), re.M)
        model = [int(x.strip().replace("%N", "")) for x in m.group(1).split(";")] if m else []
        real = doc.get("envobs", [])
        if len(model) != len(real):
            print(json.dumps({"error": "env correspondence: %d model values for %d observations" % (len(model), len(real))}))
            return
        for rec, mc in zip(real, model):
            env_checked += 1
            if rec["code"] != mc:
                failures.append({"signature": "model_mismatch:hash_mode",
                                 "what": "PYTHONHASHSEED=%r: _get_python_hash_seed gives code %s (%s), model hash_mode gives %s "
                                 "(0 sha256, n+1 python hash with seed n, -1 raised)" % (rec["value"], rec["code"], rec.get("exc"), mc),
                                 "case": {"kind": "envvalue", "mode": mode, "hashseed": doc["hashseed"], "value": rec["value"],
                                          "expected_code": mc}})
                break
    if len(preds) != 2 * len(recs):
        print(json.dumps({"error": "expected %d model results, got %d" % (2 * len(recs), len(preds))}))
        return
    n_robust = n_pinned = n_differ = 0
    distinct = set()
    samples = {}
    for i, r in enumerate(recs):
        rob, pin = preds[2 * i], preds[2 * i + 1]
        d_r, d_p = first_diff(r["obs"], rob), first_diff(r["obs"], pin)
        # non-trivial: the two variants of the model predict different OUTCOMES OF CALLS (not merely
        # another file format), i.e. the history exercises a behaviour the fix changed
        differ = norm([o[0] for o in rob]) != norm([o[0] for o in pin])
        n_differ += differ
        n_robust += d_r is None
        n_pinned += d_p is None
        f = fam.setdefault(r["family"], {"n": 0, "variants_differ": 0, "matches_robust": 0, "matches_pinned": 0})
        f["n"] += 1
        f["variants_differ"] += differ
        f["matches_robust"] += d_r is None
        f["matches_pinned"] += d_p is None
        key = json.dumps([r["ops"], r.get("cold")], sort_keys=True)
        if differ:
            distinct.add(key)
        if r["family"] not in samples and differ:
            samples[r["family"]] = {"family": r["family"], "mode": mode, "ops": r["ops"], "model_actions": r["mops"],
                                    "observed": r["obs"][-1], "robust_model": norm(rob[-1]), "pinned_model": norm(pin[-1])}
        if d_r is not None:
            pinned_like = d_p is None and differ
            if r["family"].startswith("witness") and pinned_like:
                sig = "tree_is_pinned:" + r["family"]
                what = ("%s: the implementation behaves like the PINNED model on this refutation witness "
                        "(after op %d: %s) [hash mode %s]" % (r["family"], d_r[0], d_r[1], mode))
            else:
                sig = "model_mismatch:%s:%s" % (r["family"], r["ops"][min(d_r[0], len(r["ops"]) - 1)]["op"])
                what = ("%s: implementation and Robust model disagree after op %d: %s%s [hash mode %s]"
                        % (r["family"], d_r[0], d_r[1], " (matches the Pinned model)" if pinned_like else "", mode))
            failures.append({"signature": sig, "what": what,
                             "case": {"kind": "history", "mode": mode, "hashseed": doc["hashseed"],
                                      "family": r["family"], "ops": r["ops"], "cold": bool(r.get("cold")),
                                      "expected": norm(rob), "legend": LEGEND}})
    print(json.dumps({"env_values_checked": env_checked, "histories": len(recs), "matches_robust": n_robust, "matches_pinned": n_pinned,
                      "variants_differ": n_differ, "distinct_nontrivial": len(distinct), "families": fam,
                      "samples": list(samples.values())[:6], "failures": failures[:20]}))


def replay_case(case):
    w = World()
    base = tempfile.mkdtemp(prefix="c16r_", dir=os.environ.get("TMPDIR") or "/tmp")
    try:
        if case["kind"] == "pool":
            return bool(w.problems), [p[1] for p in w.problems]
        if case["kind"] == "envvalue":
            v = case["value"]
            import ampform.sympy._cache as ch
            saved = os.environ.get("PYTHONHASHSEED")
            try:
                if v is None:
                    os.environ.pop("PYTHONHASHSEED", None)
                else:
                    os.environ["PYTHONHASHSEED"] = v
                try:
                    r = ch._get_python_hash_seed()
                    code = 0 if r is None else int(r) + 1
                    get_readable_hash(sp.Symbol("x") + 1)
                except Exception as exc:  # noqa: BLE001
                    return True, ["raised %s" % type(exc).__name__]
                if "expected_code" in case and code != case["expected_code"]:
                    return True, ["code %s, expected %s" % (code, case["expected_code"])]
                return False, []
            finally:
                if saved is None:
                    os.environ.pop("PYTHONHASHSEED", None)
                else:
                    os.environ["PYTHONHASHSEED"] = saved
        if case["kind"] == "envcall":
            if w.fatal:
                return True, [w.fatal]
            try:
                asy.perform_cached_doit(w.exprs[0], os.path.join(base, "d"))
            except Exception as exc:  # noqa: BLE001
                return True, ["raised %s" % type(exc).__name__]
            return False, []
        if case["kind"] == "attrpair":
            n, problem, unp = run_attr_pair(case["pair"], case["order"], case["forked"], base)
            return bool(problem), [problem]
        if case["kind"] == "coldrace":
            n, bad = coldrace(w, base, case["nproc"], case["rounds"], case["seed"], case["group"])
            return bool(bad), bad[:2]
        if case["kind"] == "hammer":
            for rep in range(5):
                root = tempfile.mkdtemp(prefix="ham_", dir=base)
                out = hammer(w, root, case["nproc"], case["ncalls"], case["seed"], case["group"], case["chaos"])
                if sum(o["nbad"] for o in out):
                    return True, [b for o in out for b in o["bad"]][:2]
            return False, []
        root = tempfile.mkdtemp(prefix="h_", dir=base)
        if case.get("cold"):
            root = os.path.join(root, "not", "yet", "there")
        obs, mops, oracle = execute(w, case, root)
        bad = [o["what"] for o in oracle if not o["ok"]]
        if case.get("expected") is not None:
            d = first_diff(obs, case["expected"])
            if d is not None:
                bad.append("after op %d: %s" % d)
        return bool(bad), bad[:3]
    finally:
        shutil.rmtree(base, ignore_errors=True)


def cmd_replay(path):
    doc = json.load(open(path))
    case = doc["replay"]["case"]
    want = case.get("hashseed")
    have = os.environ.get("PYTHONHASHSEED")
    if want != have and os.environ.get("C16_REPLAY_CHILD") != "1":
        env = dict(os.environ)
        env["C16_REPLAY_CHILD"] = "1"
        if want is None:
            env.pop("PYTHONHASHSEED", None)
        else:
            env["PYTHONHASHSEED"] = want
        p = subprocess.run([sys.executable, os.path.abspath(__file__), "--replay", path], env=env,
                           capture_output=True, text=True)
        lines = [l for l in p.stdout.splitlines() if l.startswith("{")]
        print(lines[-1] if lines else json.dumps({"still_fails": True, "error": p.stderr[-400:]}))
        return
    fails, why = replay_case(case)
    print(json.dumps({"still_fails": bool(fails), "why": why}))


def main():
    if sys.argv[1] == "--replay":
        cmd_replay(sys.argv[2])
    elif sys.argv[1] == "run":
        cmd_run(int(sys.argv[2]), sys.argv[3], sys.argv[4], sys.argv[5] if len(sys.argv) > 5 else "full")
    elif sys.argv[1] == "diff":
        cmd_diff(sys.argv[2])
    else:
        raise SystemExit(__doc__)


main()
