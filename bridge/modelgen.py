"""Shared by the generator properties: (reaction, configuration) lattice -> HelicityModel, and the
structural serialisation of a model into AV.Closure.model literals.

A configuration is a plain dict (JSON-able, so it is its own replay):
  {"reaction": corpus name, "keep": None | [transition indices kept] (thinned helicity sets),
   "align": "none"|"aa"|"dpd1"|"dpd2"|"dpd3", "scalar_m0": bool,
   "stable": None | [ids], "couplings": bool, "ins_parent": bool|None, "ins_child": bool|None,
   "permutate": bool, "dyn": "none"|"bw"|"bwff"|"abw"|"custom"|"custom_hole", "dyn_names": None|[names]}
"""
from __future__ import annotations

import fractions
import functools

import common  # noqa: F401
import reactions
import sympy as sp
from ser import HEADS, SerError, attr_suffix, qlit, sym_name
from sympy.logic.boolalg import BooleanFalse, BooleanTrue

ALIGNS = ["none", "aa", "dpd1", "dpd2", "dpd3"]
DYNS = ["none", "bw", "bwff", "abw", "custom"]


@functools.lru_cache(maxsize=None)
def _load(name):
    return reactions.load(name)


def n_final(name) -> int:
    return len(_load(name).final_state)


@functools.lru_cache(maxsize=None)
def same_node_identical_spinful(name) -> bool:
    """Two identical final-state particles with spin hang on ONE node (eta2 -> rho0 rho0): deep inside the domain of the known
    finding on identical particles with different helicities; C02 formulates these reactions with complete helicity sets only."""
    r = _load(name)
    for t in r.transitions:
        topo = t.topology
        for node in topo.nodes:
            kids = [e for e in topo.get_edge_ids_outgoing_from_node(node) if e in topo.outgoing_edge_ids]
            if len(kids) == 2:
                a, b = (t.states[k].particle for k in kids)
                if a.name == b.name and a.spin > 0:
                    return True
    return False


def reaction_of(cfg):
    import qrules

    r = _load(cfg["reaction"])
    if cfg.get("keep") is not None:
        r = qrules.transition.ReactionInfo([r.transitions[i] for i in cfg["keep"]], r.formalism)
    if cfg["align"].startswith("dpd"):
        from ampform.helicity.align.dpd import relabel_edge_ids

        r = relabel_edge_ids(r)
    return r


def custom_builder(particle, variable_set):
    """A user-written lineshape that honours the contract (free symbols = variables + defaults)."""
    ident = particle.latex if particle.latex else particle.name
    a = sp.Symbol(f"a_{{{ident}}}", real=True)
    expr = a / (variable_set.incoming_state_mass**2 + variable_set.outgoing_state_mass1 + variable_set.outgoing_state_mass2)
    return expr, {a: 1.5}


def custom_builder_hole(particle, variable_set):
    """A user-written lineshape that BREAKS the contract: a symbol without default."""
    ident = particle.latex if particle.latex else particle.name
    a = sp.Symbol(f"a_{{{ident}}}", real=True)
    hole = sp.Symbol(f"hole_{{{ident}}}")
    return a * hole / variable_set.incoming_state_mass, {a: 1.5}


def build(cfg):
    import ampform
    from ampform.dynamics.builder import (
        create_analytic_breit_wigner,
        create_relativistic_breit_wigner,
        create_relativistic_breit_wigner_with_ff,
    )
    from ampform.helicity.align.axisangle import AxisAngleAlignment
    from ampform.helicity.align.dpd import DalitzPlotDecomposition

    r = reaction_of(cfg)
    b = ampform.get_builder(r)
    al = cfg["align"]
    if al == "aa":
        b.config.spin_alignment = AxisAngleAlignment()
    elif al.startswith("dpd"):
        b.config.spin_alignment = DalitzPlotDecomposition(reference_subsystem=int(al[3]))
    b.config.scalar_initial_state_mass = bool(cfg["scalar_m0"])
    b.config.stable_final_state_ids = None if cfg["stable"] is None else set(cfg["stable"])
    b.config.use_helicity_couplings = bool(cfg["couplings"])
    if cfg.get("ins_parent") is not None and hasattr(b.naming, "insert_parent_helicities"):
        b.naming.insert_parent_helicities = bool(cfg["ins_parent"])
    if cfg.get("ins_child") is not None and hasattr(b.naming, "insert_child_helicities"):
        b.naming.insert_child_helicities = bool(cfg["ins_child"])
    if cfg.get("permutate"):
        b.adapter.permutate_registered_topologies()
    dyn = {"bw": create_relativistic_breit_wigner, "bwff": create_relativistic_breit_wigner_with_ff,
           "abw": create_analytic_breit_wigner, "custom": custom_builder,
           "custom_hole": custom_builder_hole}.get(cfg["dyn"])
    if dyn is not None:
        names = cfg.get("dyn_names")
        if names is None:
            names = list(r.get_intermediate_particles().names)
        for n in names:
            b.dynamics.assign(n, dyn)
    model = b.formulate()
    rn = cfg.get("rename_nth")
    if rn:  # C01 must also hold for the model rename_symbols returns (k-th parameter / kinematic variable, sorted by name)
        pars = sorted((str(k) for k in model.parameter_defaults), key=str)
        kins = sorted((str(k) for k in model.kinematic_variables), key=str)
        mapping = {}
        for k in rn.get("par", []):
            if pars:
                mapping[pars[k % len(pars)]] = f"renamedP{k}"
        for k in rn.get("kin", []):
            if kins:
                mapping[kins[k % len(kins)]] = f"renamedK{k}"
        model = model.rename_symbols(mapping)
    return r, b, model


def random_cfg(rng, name, max_align_cost=True, unaligned=False):
    r = _load(name)
    nf = len(r.final_state)
    ids = sorted(r.final_state)
    aligns = ["none", "none", "aa"] + (["dpd1", "dpd2", "dpd3"] if nf == 3 else [])
    al = rng.choice(aligns)
    if unaligned:
        al = "none"
    if al.startswith("dpd"):
        ids = [1, 2, 3]
    stable = rng.choice([None, None, [], [rng.choice(ids)], list(ids)])
    keep = None
    nt = len(r.transitions)
    if nt > 1 and rng.random() < 0.35:
        k = rng.randint(1, nt - 1)
        keep = sorted(rng.sample(range(nt), k))
    names = list(r.get_intermediate_particles().names)
    dyn = rng.choice(DYNS) if names else "none"
    dyn_names = None
    if names and rng.random() < 0.4:
        # a lineshape can also be assigned to the production node (parent = initial state)
        pool = names + [next(iter(r.initial_state.values())).name]
        dyn_names = sorted(rng.sample(pool, rng.randint(1, len(pool))))
    rename_nth = None
    if rng.random() < 0.2 and not unaligned:  # (C02's unaligned lattice compares names: no renaming there)
        rename_nth = {"par": [rng.randrange(50) for _ in range(rng.randint(0, 2))],
                      "kin": [rng.randrange(50) for _ in range(rng.randint(0, 2))]}
    return {"reaction": name, "rename_nth": rename_nth, "keep": keep, "align": al, "scalar_m0": rng.random() < 0.4,
            "stable": stable, "couplings": rng.random() < 0.3,
            "ins_parent": rng.choice([None, True, False]), "ins_child": rng.choice([None, True, False]),
            "permutate": (rng.random() < 0.25 and nf <= 4), "dyn": dyn, "dyn_names": dyn_names}


def default_cfg(name, **kw):
    cfg = {"reaction": name, "rename_nth": None, "keep": None, "align": "none", "scalar_m0": False, "stable": None,
           "couplings": False, "ins_parent": None, "ins_child": None, "permutate": False,
           "dyn": "none", "dyn_names": None}
    cfg.update(kw)
    return cfg


# ------------------------------------------------------------------ structural serialisation
def cstr(s: str) -> str:
    out = []
    for c in s:
        o = ord(c)
        if o < 32 or o > 126:
            out.append(f"\\u{o:04x}")
        elif c == '"':
            out.append('""')
        else:
            out.append(c)
    return '"' + "".join(out) + '"'


def key_of(s) -> str:
    """Identity of a leaf symbol in the structural serialisation."""
    if isinstance(s, sp.Indexed):
        return "@" + str(s)
    if isinstance(s, sp.Symbol):
        return sym_name(s, True)
    raise SerError(f"not a symbol key: {type(s)} {s!r}")


def ser_struct(e) -> str:
    if isinstance(e, bool):
        return "(App HTrue [])" if e else "(App HFalse [])"
    if isinstance(e, int):
        return qlit(e)
    if isinstance(e, (fractions.Fraction,)):
        return qlit(e)
    if isinstance(e, float):
        return qlit(fractions.Fraction(e))
    if isinstance(e, complex):
        return f"(App (HOther \"complex\") [{qlit(fractions.Fraction(e.real))}; {qlit(fractions.Fraction(e.imag))}])"
    if isinstance(e, str):
        return f"(App HStr [Sym {cstr(e)}])"
    if e is None:
        return '(App (HOther "None") [])'
    if isinstance(e, sp.Indexed):
        if e.free_symbols - {e} - {e.base.label} - set():
            # symbolic indices: keep the structure (base as atom, indices as trees)
            return "(App HIndexed [Sym " + cstr("@base:" + str(e.base)) + "; " + "; ".join(ser_struct(i) for i in e.indices) + "])"
        return f"(Sym {cstr(key_of(e))})"
    if isinstance(e, sp.Symbol):
        return f"(Sym {cstr(key_of(e))})"
    if isinstance(e, sp.Integer):
        return qlit(int(e))
    if isinstance(e, sp.Rational):
        return qlit(fractions.Fraction(int(e.p), int(e.q)))
    if isinstance(e, sp.Float):
        return qlit(fractions.Fraction(float(e)))
    consts = {sp.I: "HI", sp.pi: "HPi", sp.nan: "HNaN", sp.oo: "HInf", -sp.oo: "HNegInf", sp.zoo: "HZoo"}
    for c, h in consts.items():
        if e is c:
            return f"(App {h} [])"
    if isinstance(e, BooleanTrue):
        return "(App HTrue [])"
    if isinstance(e, BooleanFalse):
        return "(App HFalse [])"
    if isinstance(e, sp.Piecewise):
        parts = []
        for v, c in e.args:
            parts += [ser_struct(v), ser_struct(c)]
        return "(App HPiecewise [" + "; ".join(parts) + "])"
    if isinstance(e, sp.Basic):
        if getattr(e, "bound_symbols", None) or type(e).__name__ in ("PoolSum", "Sum", "Integral", "Lambda", "Product"):
            raise SerError(f"binder node {type(e).__name__} is outside the structural closure model")
        head = HEADS.get(type(e))
        if head is None:
            head = f"(HOther {cstr(type(e).__name__ + attr_suffix(e))})"
        return f"(App {head} [" + "; ".join(ser_struct(a) for a in e.args) + "])"
    if isinstance(e, (tuple, list)):
        return "(App HTuple [" + "; ".join(ser_struct(a) for a in e) + "])"
    raise SerError(f"cannot serialise {type(e)}: {e!r}")


def unfolded_intensity(model):
    """The implementation's own unfolding of the intensity with amplitudes left as symbols."""
    import attrs

    return attrs.evolve(model, amplitudes={}).expression


def model_literal(r, model) -> str:
    u = unfolded_intensity(model)
    amps = "; ".join(f"({cstr(key_of(k))}, {ser_struct(v)})" for k, v in model.amplitudes.items())
    params = "; ".join(cstr(key_of(k)) for k in model.parameter_defaults)
    kin = "; ".join(f"({cstr(key_of(k))}, {ser_struct(v)})" for k, v in model.kinematic_variables.items())
    mom = "; ".join(cstr(f"p{i}") for i in sorted(r.final_state))
    return ("{| unfolded := " + ser_struct(u) + ";\n   amps := [" + amps + "];\n   params := [" + params
            + "];\n   kinvars := [" + kin + "];\n   momenta := [" + mom + "] |}")
