"""C10 numeric/structural harness on the IMPLEMENTATION (exploration + failing-input search).

kinds of cases
  residual : random real parameter point; K, P from the library's own parametrization()s, F from
             formulate(parametrize=False) at (K, P, rho): |(1-iK)F - P| (relativistic: |(1 - i Khat rho) Fhat - P|,
             F = sqrt(rho) Fhat); P against the documentation formula; formulate(parametrize=True) against
             the two-stage value computed with the CALLER's phase space, L and radius
  atoms    : formulate(..., phsp_factor=X, angular_momentum=L, meson_radius=d) for every phase-space
             implementation X, L, flag: every width / form factor / phase-space node carries X, L, d
  memo     : _create_matrices results are the same objects with the same srepr after formulate calls
  bw       : one channel, one pole against relativistic_breit_wigner(_with_ff)
  history  : RelativisticPVector.formulate(phsp_factor=f1) then (phsp_factor=f2) in one process with f1, f2 plain
             FUNCTIONS of the same qualified name (closures of one factory, lambdas of one comprehension): every
             width carries the caller's callable (identity), only the caller's phase-space class occurs after
             unfolding the widths, and the second result equals the F-vector at the caller's K, P, rho

usage: search_C10.py <seed> <n> | --replay <file>
"""
import json
import os
import random
import sys

import common  # noqa: F401
import lib_C09
import numpy as np
import sympy as sp

common.assert_repo_import()
from ampform.dynamics import (  # noqa: E402
    EnergyDependentWidth,
    FormFactor,
    relativistic_breit_wigner,
    relativistic_breit_wigner_with_ff,
)
from ampform.dynamics.kmatrix import (  # noqa: E402
    NonRelativisticKMatrix,
    NonRelativisticPVector,
    RelativisticKMatrix,
    RelativisticPVector,
)
from ampform.dynamics.phasespace import (  # noqa: E402
    EqualMassPhaseSpaceFactor,
    PhaseSpaceFactor,
    PhaseSpaceFactorAbs,
    PhaseSpaceFactorComplex,
    PhaseSpaceFactorSWave,
)

REAL_PHSP = {"PhaseSpaceFactor": PhaseSpaceFactor, "PhaseSpaceFactorAbs": PhaseSpaceFactorAbs,
             "PhaseSpaceFactorComplex": PhaseSpaceFactorComplex}
ALL_PHSP = dict(REAL_PHSP, PhaseSpaceFactorSWave=PhaseSpaceFactorSWave,
                EqualMassPhaseSpaceFactor=EqualMassPhaseSpaceFactor, marker=sp.Function("rhoX"))
PHSP_CLASSES = tuple(v for v in ALL_PHSP.values() if isinstance(v, type) and v is not ALL_PHSP["marker"])
CLASSES = {"NonRelativisticKMatrix": NonRelativisticKMatrix, "NonRelativisticPVector": NonRelativisticPVector,
           "RelativisticKMatrix": RelativisticKMatrix, "RelativisticPVector": RelativisticPVector}
S = sp.Symbol("s", nonnegative=True)
M = sp.IndexedBase("m", nonnegative=True)
GAM = sp.IndexedBase("Gamma", nonnegative=True)
GA = sp.IndexedBase("gamma", nonnegative=True)
BETA = sp.IndexedBase("beta", nonnegative=True)
MA = sp.IndexedBase("m_a", nonnegative=True)
MB = sp.IndexedBase("m_b", nonnegative=True)
RID = sp.Symbol("R", integer=True, positive=True)
_lam = {}


def num(e) -> complex:
    v = sp.N(e.doit(), 30)
    if not v.is_number:
        raise ValueError(f"non-numeric result, free symbols {sorted(map(str, v.free_symbols))[:6]}")
    return complex(v)


def expand_sums(e):
    return e.replace(lambda x: isinstance(x, sp.Sum), lambda x: x.doit(deep=False))


def F(x):
    return sp.Float(x, 30)


def values(c) -> dict:
    sub = {S: F(c["s"])}
    for r in range(c["npoles"]):
        sub[M[r + 1]] = F(c["m"][r])
        sub[BETA[r + 1]] = F(c["beta"][r])
        for ch in range(c["n"]):
            sub[GAM[r + 1, ch]] = F(c["Gamma"][r][ch])
            sub[GA[r + 1, ch]] = F(c["gamma"][r][ch])
    for ch in range(c["n"]):
        sub[MA[ch]] = F(c["ma"][ch])
        sub[MB[ch]] = F(c["mb"][ch])
    return sub


def f_lambda(rel: bool, n: int, hat: bool):
    key = (rel, n, hat)
    if key not in _lam:
        if rel:
            f = RelativisticPVector.formulate(n, 1, parametrize=False, return_f_hat=hat)
        else:
            f = NonRelativisticPVector.formulate(n, 1, parametrize=False)
        ks, ps = sp.IndexedBase("K", shape=(n, n)), sp.IndexedBase("P", shape=(n, 1))
        ksym = [sp.Symbol(f"k_{i}_{j}") for i in range(n) for j in range(n)]
        psym = [sp.Symbol(f"p_{i}") for i in range(n)]
        rhos = [sp.Symbol(f"rho{i}") for i in range(n)]
        ren = {ks[i, j]: ksym[i * n + j] for i in range(n) for j in range(n)}
        ren.update({ps[i, 0]: psym[i] for i in range(n)})
        g = f.xreplace(ren)
        left = g.free_symbols - set(ksym) - set(psym) - set(rhos)
        if left:
            raise ValueError(f"unexpected symbols in formulate(parametrize=False): {sorted(map(str, left))}")
        _lam[key] = sp.lambdify([*ksym, *psym, *rhos], g, "numpy", cse=True)
    return _lam[key]


def run_residual(c, fulls_given=None, label=None):
    n, rel = c["n"], c["rel"]
    sub = values(c)
    fails = []
    kw = dict(s=S, pole_position=M, pole_width=GAM, residue_constant=GA, n_poles=c["npoles"], pole_id=RID)
    phsp = ALL_PHSP[c["phsp"]] if rel else None
    d = F(c["d"])
    K = np.zeros((n, n), dtype=complex)
    P = np.zeros(n, dtype=complex)
    Po = np.zeros(n, dtype=complex)
    for i in range(n):
        for j in range(n):
            if rel:
                e = RelativisticKMatrix.parametrization(i=i, j=j, m_a=MA, m_b=MB, angular_momentum=c["L"],
                                                        meson_radius=d, phsp_factor=phsp, **kw)
            else:
                e = NonRelativisticKMatrix.parametrization(i=i, j=j, **kw)
            K[i, j] = num(e.doit(deep=False).xreplace(sub))
        if rel:
            e = RelativisticPVector.parametrization(i=i, m_a=MA, m_b=MB, beta_constant=BETA, angular_momentum=c["L"],
                                                    meson_radius=d, **kw)
            ff = num(FormFactor(F(c["s"]), F(c["ma"][i]), F(c["mb"][i]), c["L"], d))
        else:
            e = NonRelativisticPVector.parametrization(i=i, beta_constant=BETA, **kw)
            ff = 1.0
        P[i] = num(e.doit(deep=False).xreplace(sub))
        Po[i] = sum(c["beta"][r] * c["gamma"][r][i] * c["m"][r] * c["Gamma"][r][i] * ff / (c["m"][r] ** 2 - c["s"])
                    for r in range(c["npoles"]))
    scale = max(1.0, float(np.abs(K).max()), float(np.abs(P).max()))
    tol = 1e-9 * scale ** (n + 1) * 10
    if np.abs(P - Po).max() > 1e-9 * scale:
        fails.append(("p_param_mismatch/" + ("rel" if rel else "nr"),
                      f"P-vector parametrization differs from sum_R beta g/(m_R^2-s): {np.abs(P - Po).max():.3e}"))
    eye = np.eye(n)
    if not rel:
        rho = np.ones(n, dtype=complex)
        Fv = np.array(f_lambda(False, n, False)(*K.flatten(), *P, *rho), dtype=complex).reshape(n)
        res = np.abs((eye - 1j * K) @ Fv - P).max()
        if res > tol:
            fails.append(("f_does_not_solve/nr", f"|(1-iK)F - P| = {res:.3e} (tol {tol:.1e})"))
        refs = [({}, Fv)]
    else:
        rho = np.array([num(phsp(S, MA[ch], MB[ch]).xreplace(sub)) for ch in range(n)])
        sq = np.sqrt(rho + 0j)
        Fh = np.array(f_lambda(True, n, True)(*K.flatten(), *P, *rho), dtype=complex).reshape(n)
        Fv = np.array(f_lambda(True, n, False)(*K.flatten(), *P, *rho), dtype=complex).reshape(n)
        Khat = np.diag(1 / sq.conj()) @ K @ np.diag(1 / sq)
        res = np.abs((eye - 1j * Khat @ np.diag(rho)) @ Fh - P).max()
        if res > tol:
            fails.append(("f_does_not_solve/rel", f"|(1 - i Khat rho) Fhat - P| = {res:.3e} (tol {tol:.1e})"))
        if np.abs(Fv - sq * Fh).max() > tol:
            fails.append(("f_not_sqrt_rho_fhat", f"|F - sqrt(rho) Fhat| = {np.abs(Fv - sq * Fh).max():.3e}"))
        refs = [({"return_f_hat": False}, Fv), ({"return_f_hat": True}, Fh)]
    if c.get("full") or fulls_given is not None:
        label = label or f"formulate(parametrize=True, phsp_factor={c['phsp']}, L={c['L']})"
        for k, (fl, ref) in enumerate(refs):
            if fulls_given is not None:
                full = fulls_given[k]
            elif rel:
                full = RelativisticPVector.formulate(n, c["npoles"], phsp_factor=phsp, angular_momentum=c["L"],
                                                     meson_radius=d, **fl)
            else:
                full = NonRelativisticPVector.formulate(n, c["npoles"])
            for i in range(n):
                v = num(expand_sums(full[i]).xreplace(sub))
                if abs(v - ref[i]) > tol:
                    fails.append(("formulate_parametrized_differs/" + ("rel" if rel else "nr"),
                                  f"{label}[{i}] = {v} but the F-vector at the "
                                  f"caller's K, P, rho is {ref[i]}"))
    return fails


def scan(expr, phsp, L, d, what):
    bad = []
    n_edw = n_ff = n_ph = 0
    for node in sp.preorder_traversal(expr):
        if isinstance(node, EnergyDependentWidth):
            n_edw += 1
            if node.phsp_factor is not phsp:
                bad.append(("foreign_phsp_in_width/" + what, f"EnergyDependentWidth carries {node.phsp_factor!r}"))
            if node.angular_momentum != L or node.meson_radius != d:
                bad.append(("foreign_L_or_radius_in_width/" + what,
                            f"EnergyDependentWidth has L={node.angular_momentum}, d={node.meson_radius}"))
        elif isinstance(node, FormFactor):
            n_ff += 1
            if node.angular_momentum != L or node.meson_radius != d:
                bad.append(("foreign_L_or_radius_in_form_factor/" + what,
                            f"FormFactor has L={node.angular_momentum}, d={node.meson_radius}"))
        elif isinstance(node, PHSP_CLASSES) or (isinstance(node, sp.Function) and node.func is ALL_PHSP["marker"]):
            n_ph += 1
            if not (type(node) is phsp or getattr(node, "func", None) is phsp):
                bad.append(("foreign_phsp_node/" + what, f"phase-space node {type(node).__name__} in result"))
    return bad, (n_edw, n_ff, n_ph)


def run_atoms(c):
    cls = CLASSES[c["cls"]]
    phsp = ALL_PHSP[c["phsp"]]
    L = c["L"]
    d = sp.Symbol("d_x", positive=True)
    kw = dict(phsp_factor=phsp, angular_momentum=L, meson_radius=d)
    if c["cls"] == "RelativisticKMatrix":
        kw["return_t_hat"] = c["flag"]
    if c["cls"] == "RelativisticPVector":
        kw["return_f_hat"] = c["flag"]
    res = cls.formulate(c["n"], c["npoles"], **kw)
    what = c["cls"]
    fails, counts = [], [0, 0, 0]
    for e in res:
        bad, cn = scan(e, phsp, L, d, what)
        fails += bad
        counts = [a + b for a, b in zip(counts, cn)]
    rel = c["cls"].startswith("Relativistic")
    if rel and (counts[0] == 0 or counts[2] == 0 or (c["cls"].endswith("PVector") and counts[1] == 0)):
        fails.append(("marker_missing/" + what, f"expected width/form-factor/phase-space nodes, counts {counts}"))
    if not rel and sum(counts) != 0:
        fails.append(("unexpected_nodes_nonrel/" + what, f"counts {counts}"))
    return fails


def run_memo(c):
    fails = []
    for name, cls in CLASSES.items():
        for n in (1, 2):
            flags = [()] if name.startswith("NonRel") else [(False,), (True,)]
            before = {}
            for fl in flags:
                t = cls._create_matrices(n, *fl)
                before[fl] = (t, [id(x) for x in t], [sp.srepr(x) for x in t])
            for phn in ("PhaseSpaceFactor", "PhaseSpaceFactorAbs", "marker"):
                for L in (0, c["L"]):
                    kw = dict(phsp_factor=ALL_PHSP[phn], angular_momentum=L, meson_radius=c["d"])
                    for fl in flags:
                        if name == "RelativisticKMatrix":
                            kw["return_t_hat"] = fl[0]
                        if name == "RelativisticPVector":
                            kw["return_f_hat"] = fl[0]
                        r1 = cls.formulate(n, c["npoles"], **kw)
                        r2 = cls.formulate(n, c["npoles"], parametrize=False, **kw)
                        if r2 is not before[fl][0][0]:
                            fails.append(("memo_identity/" + name, "formulate(parametrize=False) is not the cached matrix object"))
                        del r1
            for fl in flags:
                t = cls._create_matrices(n, *fl)
                if t is not before[fl][0] or [id(x) for x in t] != before[fl][1]:
                    fails.append(("memo_identity/" + name, f"_create_matrices({n},{fl}) returned different objects after formulate"))
                if [sp.srepr(x) for x in t] != before[fl][2]:
                    fails.append(("memo_mutated/" + name, f"cached matrices of _create_matrices({n},{fl}) were mutated by formulate"))
    return fails


def run_bw(c):
    fails = []
    sub = {S: F(c["s"]), M[1]: F(c["m"]), GAM[1, 0]: F(c["Gamma"]), GA[1, 0]: F(c["gamma"]), BETA[1]: F(c["beta"]),
           MA[0]: F(c["ma"]), MB[0]: F(c["mb"])}
    s, m, g, ga, be = (F(c[k]) for k in ("s", "m", "Gamma", "gamma", "beta"))
    t = num(expand_sums(NonRelativisticKMatrix.formulate(1, 1)[0, 0]).xreplace(sub))
    bw = num(relativistic_breit_wigner(s, m, ga**2 * g))
    if abs(t - bw) > 1e-9 * max(1, abs(bw)):
        fails.append(("bw_T11", f"T(n=1,nR=1) = {t} but relativistic_breit_wigner(s, m, gamma^2 Gamma) = {bw}"))
    f = num(expand_sums(NonRelativisticPVector.formulate(1, 1)[0]).xreplace(sub))
    if abs(complex(ga) * f - complex(be) * bw) > 1e-9 * max(1, abs(bw) * abs(complex(be))):
        fails.append(("bw_F11", f"gamma F(n=1,nR=1) = {complex(ga) * f} but beta BW = {complex(be) * bw}"))
    phsp = REAL_PHSP[c["phsp"]]
    sub1 = dict(sub)
    sub1[GA[1, 0]] = F(1.0)
    fh = num(expand_sums(RelativisticPVector.formulate(1, 1, return_f_hat=True, phsp_factor=phsp, angular_momentum=c["L"],
                                                       meson_radius=F(c["d"]))[0]).xreplace(sub1))
    bwff = num(relativistic_breit_wigner_with_ff(s, m, g, F(c["ma"]), F(c["mb"]), c["L"], F(c["d"]), phsp_factor=phsp))
    if abs(fh - complex(be) * bwff) > 1e-9 * max(1, abs(bwff) * abs(complex(be))):
        fails.append(("bw_Fhat11", f"Fhat(n=1,nR=1,gamma=1) = {fh} but beta * relativistic_breit_wigner_with_ff = {complex(be) * bwff}"))
    return fails


PHSP_ONLY_CLASSES = {k: v for k, v in ALL_PHSP.items() if k != "marker"}


def make_phsp(cls):
    """A phase-space factor given as a plain FUNCTION (PhaseSpaceFactorProtocol): every closure made
    here has the same __module__ and __qualname__ but its own behaviour."""
    def rho(s, m_a, m_b):
        return cls(s, m_a, m_b)
    return rho


def make_lambdas(classes):
    return [lambda s, m_a, m_b, _c=c: _c(s, m_a, m_b) for c in classes]


def scan_history(expr, f, cls, what):
    bad, n_edw = [], 0
    kinds = tuple(PHSP_ONLY_CLASSES.values())
    for node in sp.preorder_traversal(expr):
        if isinstance(node, EnergyDependentWidth):
            n_edw += 1
            if node.phsp_factor is not f:
                bad.append(("foreign_callable_in_width/" + what,
                            f"EnergyDependentWidth.phsp_factor is {node.phsp_factor!r}, not the caller's {f!r}"))
            inner = node.evaluate()
        elif isinstance(node, kinds):
            inner = node
        else:
            continue
        for sub in sp.preorder_traversal(inner):
            if isinstance(sub, kinds) and type(sub) is not cls:
                bad.append(("foreign_phsp_after_unfolding/" + what,
                            f"{type(sub).__name__} occurs in a result formulated with a function returning {cls.__name__}"))
    if n_edw == 0:
        bad.append(("no_width_nodes/" + what, "no EnergyDependentWidth node in a relativistic result"))
    return bad


def run_history(c):
    """RelativisticPVector.formulate(phsp_factor=f1) then (phsp_factor=f2) in ONE process, f1 and f2 different
    functions with the same qualified name, identical remaining arguments: the second result is the caller's."""
    classes = [PHSP_ONLY_CLASSES[c["first"]], PHSP_ONLY_CLASSES[c["phsp"]]]
    fs = [make_phsp(k) for k in classes] if c["style"] == "closure" else make_lambdas(classes)
    kw = dict(angular_momentum=c["L"], meson_radius=F(c["d"]))
    res = []
    for f in fs:
        res.append([RelativisticPVector.formulate(c["n"], c["npoles"], phsp_factor=f, return_f_hat=False, **kw),
                    RelativisticPVector.formulate(c["n"], c["npoles"], phsp_factor=f, return_f_hat=True, **kw)])
    fails = []
    for k, (f, cls) in enumerate(zip(fs, classes)):
        for m in res[k]:
            for e in m:
                fails += scan_history(e, f, cls, f"call{k + 1}")
    label = (f"formulate(phsp_factor=<function returning {c['phsp']}>, L={c['L']}) called after "
             f"formulate(phsp_factor=<function of the same name returning {c['first']}>)")
    fails += run_residual(dict(c, kind="residual", rel=True, full=False), fulls_given=res[1], label=label)
    seen, out = set(), []
    for b in fails:
        if b[0] not in seen:
            seen.add(b[0])
            out.append(b)
    return out


RUN = {"residual": run_residual, "atoms": run_atoms, "memo": run_memo, "bw": run_bw, "history": run_history}


def gen_cases(seed: int, n: int):
    rng = random.Random(seed * 104729 + 10)
    thorough = n > 60
    out = []
    atoms_grid = [(cn, ph, L, fl, nn)
                  for cn in CLASSES for ph in ALL_PHSP for L in range(5)
                  for fl in ([False, True] if cn.startswith("Relativistic") else [False]) for nn in (1, 2)]
    rng.shuffle(atoms_grid)
    n_atoms = len(atoms_grid) if thorough else 36
    for cn, ph, L, fl, nn in atoms_grid[:n_atoms]:
        out.append({"kind": "atoms", "cls": cn, "phsp": ph, "L": L, "flag": fl, "n": nn, "npoles": rng.choice([1, 2, 3])})
    for i in range(24 if thorough else 4):
        nch = 1 + i % 2
        npoles = rng.choice([1, 2])
        ma = [round(rng.uniform(0.1, 0.6), 6) for _ in range(nch)]
        mb = [round(rng.uniform(0.1, 0.6), 6) for _ in range(nch)]
        thr = max(a + b for a, b in zip(ma, mb))
        while True:
            m = [round(thr * 1.08 + rng.uniform(0.05, 1.6), 6) for _ in range(npoles)]
            s = round((thr * 1.05 + rng.uniform(0.02, 1.8)) ** 2, 6)
            if all(abs(s - x * x) > 0.12 for x in m):
                break
        out.append({"kind": "history", "style": "closure" if i % 4 < 2 else "lambda", "n": nch, "npoles": npoles,
                    "first": ["PhaseSpaceFactorSWave", "EqualMassPhaseSpaceFactor", "PhaseSpaceFactorComplex"][i % 3],
                    "phsp": list(REAL_PHSP)[(i // 2) % 2], "L": rng.choice([0, 1, 2]),
                    "d": round(rng.uniform(0.5, 3.0), 6), "s": s, "m": m, "ma": ma, "mb": mb,
                    "beta": [round(rng.uniform(0.2, 2.0), 6) for _ in range(npoles)],
                    "Gamma": [[round(rng.uniform(0.05, 0.6), 6) for _ in range(nch)] for _ in range(npoles)],
                    "gamma": [[round(rng.uniform(0.3, 1.5) * rng.choice([1, 1, -1]), 6) for _ in range(nch)]
                              for _ in range(npoles)]})
    out.append({"kind": "memo", "L": rng.choice([1, 2, 3]), "d": 2, "npoles": rng.choice([1, 2])})
    for i in range(n):
        rel = i % 3 != 0
        if rel:
            nch = rng.choice([1, 2])
        else:
            nch = rng.choice([1, 2, 3] if thorough else [1, 2])
        npoles = rng.choice([1, 2, 3] if thorough else [1, 2])
        ma = [round(rng.uniform(0.1, 0.6), 6) for _ in range(nch)]
        mb = [round(rng.uniform(0.1, 0.6), 6) for _ in range(nch)]
        thr = max(a + b for a, b in zip(ma, mb))
        while True:
            m = [round(thr * 1.08 + rng.uniform(0.05, 1.6), 6) for _ in range(npoles)]
            s = round((thr * 1.05 + rng.uniform(0.02, 1.8)) ** 2, 6)
            if all(abs(s - x * x) > 0.12 for x in m):
                break
        if i % 5 == 4:
            out.append({"kind": "bw", "s": s, "m": m[0], "Gamma": round(rng.uniform(0.05, 0.6), 6),
                        "gamma": round(rng.uniform(0.3, 1.5), 6), "beta": round(rng.uniform(0.2, 2.0), 6),
                        "ma": ma[0], "mb": mb[0], "L": rng.choice([0, 1, 2, 3, 4]), "d": round(rng.uniform(0.5, 3.0), 6),
                        "phsp": rng.choice(list(REAL_PHSP))})
            continue
        out.append({"kind": "residual", "rel": rel, "n": nch, "npoles": npoles, "L": rng.choice([0, 1, 2, 3, 4]),
                    "phsp": rng.choice(list(REAL_PHSP)) if rel else "none", "d": round(rng.uniform(0.5, 3.0), 6),
                    "s": s, "m": m, "ma": ma, "mb": mb,
                    "beta": [round(rng.uniform(0.2, 2.0), 6) for _ in range(npoles)],
                    "Gamma": [[round(rng.uniform(0.05, 0.6), 6) for _ in range(nch)] for _ in range(npoles)],
                    "gamma": [[round(rng.uniform(0.3, 1.5) * rng.choice([1, 1, -1]), 6) for _ in range(nch)]
                              for _ in range(npoles)],
                    "full": nch <= 2 and npoles <= 2 and i % 2 == 0})
    return out


def run_case(c):
    return RUN[c["kind"]](c)


def main():
    if sys.argv[1] == "--replay":
        doc = json.load(open(sys.argv[2]))
        try:
            fails = lib_C09.run_with_prefix(run_case, doc["replay"]["case"])
        except Exception as exc:  # noqa: BLE001
            kind_ = doc["replay"]["case"].get("kind", "")
            fails = [("exception_" + type(exc).__name__ + "/" + kind_, f"{type(exc).__name__}: {exc}"[:300])]
        want = doc.get("signature")
        if want and not want.startswith("unproved"):
            fails = [f for f in fails if f[0] == want]
        print(json.dumps({"still_fails": bool(fails), "fails": fails[:5]}))
        return
    seed, n = int(sys.argv[1]), int(sys.argv[2])
    cases = gen_cases(seed, n)
    failures, kinds, samples, distinct, nev = [], {}, [], set(), 0
    for idx, c in enumerate(cases):
        try:
            fails = run_case(c)
        except Exception as exc:  # noqa: BLE001
            fails = [("exception_" + type(exc).__name__ + "/" + c["kind"], f"{type(exc).__name__}: {exc}"[:300])]
        nev += 1
        distinct.add(json.dumps(c, sort_keys=True))
        tag = c["kind"] + "/" + str(c.get("cls", ("rel" if c.get("rel") else "nr") if c["kind"] == "residual" else ""))
        kinds[tag] = kinds.get(tag, 0) + 1
        if len(samples) < 4 and c["kind"] not in [s_["kind"] for s_ in samples]:
            samples.append({k: v for k, v in c.items() if k not in ("Gamma", "gamma", "ma", "mb", "beta")})
        for sig, what in fails:
            failures.append({"signature": sig, "what": what, "case": c, "idx": idx})
    seen, uniq = set(), []
    for f in failures:
        if f["signature"] not in seen:
            seen.add(f["signature"])
            uniq.append(f)
    uniq = lib_C09.make_replayable(os.path.abspath(__file__), cases, uniq[:20], skip=())
    print(json.dumps({"evaluations": nev, "distinct": len(distinct), "samples": samples, "kinds": kinds,
                      "failures": uniq[:20]}))


main()
