"""C14 differential harness on the IMPLEMENTATION: checks the property as stated.

  search_C14.py <seed> <n>          last stdout line: JSON (evaluations, distinct, samples, kinds, failures)
  search_C14.py --replay <file>     JSON {"still_fails": bool}

Oracle (written from the property text, independent of the Coq model):
  commute   e.xreplace(m).doit() == e.doit().xreplace(m)  (and .subs), modulo SymPy normalisation / Dummy renaming;
            when the images are folded expressions the right side gets a further doit()
  nested    after xreplace/subs of a symbol by a fresh symbol the old symbol is gone from the whole tree
            and no Tuple appeared where an unevaluated expression was
  eq        a == b  <=>  same class, equal SymPy arguments, equal non-SymPy attributes;  a == b => hash equal
  func      e.func(*e.args) == e for classes whose fields are all SymPy arguments
  numpy     lambdify(e) == lambdify(e.doit()) at random points where a NumPy printer exists
"""
from __future__ import annotations

import dataclasses
import json
import sys

import common  # noqa: F401
import gen_uneval as G
import numpy as np
import sympy as sp
import uneval_ir as U
from corr_uneval import _Timeout, _alarm


class Skip(Exception):
    pass


def timed(f, limit=4):
    try:
        with U.time_limit(limit):
            return f()
    except U.TimeLimit:
        raise Skip("slow") from None


def attrs_equal(a, b):
    for f in U.attr_fields(type(a)):
        x, y = getattr(a, f.name), getattr(b, f.name)
        if type(x) is not type(y) or x != y:
            return False
    return True


def deep_has(e, k):
    """k occurs in e, also inside SymPy objects held by non-SymPy fields (Basic.has only sees args)"""
    if e == k:
        return True
    if not isinstance(e, sp.Basic):
        return False
    if U.is_decorated(type(e)):
        for f in U.attr_fields(type(e)):
            v = getattr(e, f.name)
            if isinstance(v, sp.Basic) and deep_has(v, k):
                return True
    return any(deep_has(a, k) for a in e.args)


def tuple_where_instance(before, after):
    """a Tuple sits where an instance of a decorated class was (same position)"""
    if U.is_decorated(type(before)) and isinstance(after, sp.Tuple):
        return True
    if type(before) is not type(after) or len(before.args) != len(after.args):
        return False
    return any(tuple_where_instance(x, y) for x, y in zip(before.args, after.args))


def check_case(case):
    """-> (kind, failure | None).  failure = (signature, what)"""
    kind = case["kind"]
    obj = U.from_ir(case["ir"])
    if kind in ("commute", "commute_subs", "nested"):
        er = [(tuple_(k), tuple_(v)) for k, v in case["er"]]
        m = G.py_rule(er, [])
        if kind == "nested":
            (k, v), = m.items()
            for op, res in (("xreplace", obj.xreplace(m)), ("subs", obj.subs(k, v))):
                if deep_has(res, k):
                    return kind, ("replacement_skipped_nested", f"{op}({k}->{v}) left {k} inside {str(res)[:150]}")
                if tuple_where_instance(obj, res):
                    return kind, ("nested_argument_became_tuple", f"{op}({k}->{v}) turned a nested expression into a Tuple: {str(res)[:150]}")
            return kind, None
        folded_images = any(any(U.is_decorated(type(n)) and "doit" in U._mro_dict(type(n)) for n in sp.preorder_traversal(v))
                            for v in m.values())
        try:
            timed(lambda: obj.doit())
        except Skip:
            raise
        except Exception:  # noqa: BLE001
            raise Skip("doit undefined on the generated (ill-typed) tree")
        try:
            if kind == "commute":
                lhs = timed(lambda: obj.xreplace(m).doit())
                rhs = timed(lambda: obj.doit().xreplace(m))
            else:
                (k, v), = m.items()
                lhs = timed(lambda: obj.subs(k, v).doit())
                rhs = timed(lambda: obj.doit().subs(k, v))
            if folded_images:
                rhs = timed(lambda: rhs.doit())
        except Skip:
            raise
        except Exception as e:  # noqa: BLE001
            return kind, ("exception_" + type(e).__name__, f"{kind} raised {type(e).__name__}: {str(e)[:150]}")
        try:
            if U.same(lhs, rhs) or U.same(timed(lambda: lhs.doit()), timed(lambda: rhs.doit())):
                return kind, None
        except U.Undecided:
            pass
        # different trees: the map switched the case of a value-inspecting evaluate() or SymPy normalised
        # differently; the property then is about values -> numeric comparison
        ok = numeric_equal(lhs, rhs)
        if ok is None:
            raise Skip("undecided")
        if ok:
            return kind, None
        return kind, ("substitute_unfold_differ", f"{kind}: substituting then unfolding != unfolding then substituting: "
                                                  f"{str(lhs)[:120]} vs {str(rhs)[:120]}")
    if kind == "convention":
        return kind, convention_case(obj, case)
    if kind == "poolsum_value":
        # definition of the sum: one term per element of the FULL product of the pools, whatever the summand contains
        import itertools

        if not type(obj).__name__ == "PoolSum":
            raise Skip("not a PoolSum")
        idx = [(ix, tuple(vals)) for ix, vals in obj.args[1:]]
        want = sp.Add(*[obj.args[0].xreplace(dict(zip([ix for ix, _ in idx], combi))).doit()
                        for combi in itertools.product(*[v for _, v in idx])]).doit()
        got = timed(lambda: obj.doit())
        try:
            ok = U.same(got, want)
        except U.Undecided:
            ok = None
        if not ok:
            ok = numeric_equal(got, want)
        if ok is None:
            raise Skip("undecided")
        return kind, None if ok else ("poolsum_unfolding_not_full_product",
                                      f"{obj}.doit() = {str(got)[:100]}, the sum over the product of the pools is {str(want)[:100]}")
    if kind == "eq":
        b = U.from_ir(case["irb"])
        same_parts = type(obj) is type(b) and obj.args == b.args and attrs_equal(obj, b)
        eq = bool(obj == b)
        if eq and hash(obj) != hash(b):
            return kind, ("equal_but_hash_differs", f"{obj} == {b} but hashes differ")
        if eq != bool(b == obj):
            return kind, ("eq_not_symmetric", f"{obj} vs {b}")
        if eq and not same_parts:
            for f in U.attr_fields(type(obj)):
                x, y = getattr(obj, f.name), getattr(b, f.name)
                if {repr(x), repr(y)} == {"None", "'builtins.NoneType'"}:
                    return kind, ("hashable_content_none_collision",
                                  f"{type(obj).__name__}(..., {f.name}='builtins.NoneType') == {type(obj).__name__}(..., {f.name}=None)")
            return kind, ("equal_with_different_attributes", f"{sp.srepr(obj)[:100]} == {sp.srepr(b)[:100]} but the non-SymPy attributes differ")
        if not eq and same_parts:
            return kind, ("unequal_with_equal_parts", f"{obj} != {b} although class, args and attributes are equal")
        return kind, None
    if kind == "func":
        if U.attr_fields(type(obj)):
            raise Skip("has attrs")
        r = obj.func(*obj.args)
        if r != obj or sp.srepr(r) != sp.srepr(obj):
            return kind, ("func_args_not_identity", f"{obj}.func(*args) = {r}")
        return kind, None
    if kind == "numpy":
        return kind, numpy_case(obj, case["point_seed"])
    if kind == "numpy_array":
        return kind, numpy_array_case(case["index"], case["point_seed"])
    raise Skip("kind")


def tuple_(x):
    return tuple(tuple_(i) if isinstance(i, list) and i and isinstance(i[0], str) and len(i[0]) == 1 else i for i in x) \
        if isinstance(x, (list, tuple)) else x


def numeric_equal(a, b):
    if any(isinstance(n, (sp.Tuple,)) for n in (a, b)):
        return None
    return U.numeric_equal(a, b)


def numpy_case(obj, pseed):
    """lambdify(folded) vs lambdify(unfolded) on positive random points (scalar dynamics classes)."""
    syms = sorted(obj.free_symbols, key=str)
    try:
        f1 = timed(lambda: sp.lambdify(syms, obj, "numpy", cse=True))
    except Skip:
        raise
    except Exception as e:  # noqa: BLE001
        # no printer for the folded form: the documented route is doit() first
        if "PrintMethodNotImplementedError" in type(e).__name__ or "not supported" in str(e).lower() or True:
            raise Skip("no printer for the folded form")
    f2 = timed(lambda: sp.lambdify(syms, obj.doit(), "numpy", cse=True))
    rng = np.random.default_rng(pseed)
    pts = [rng.integers(8, 64, size=4) / 8.0 for _ in syms]   # exactly representable, replayable
    try:
        a, b = np.asarray(f1(*pts), dtype=complex), np.asarray(f2(*pts), dtype=complex)
    except Exception as e:  # noqa: BLE001
        raise Skip("evaluation error " + type(e).__name__)
    okmask = np.isfinite(a) & np.isfinite(b)
    if not okmask.any():
        raise Skip("undefined")
    # same formula printed twice: differences are rounding of a few ulp amplified by cancellations
    if np.any(np.abs(a - b)[okmask] > 1e-8 * np.maximum(1.0, np.abs(a)[okmask])):
        return ("numpy_folded_vs_unfolded", f"lambdify({obj}) != lambdify(doit) at {[p.tolist() for p in pts]}")
    return None


def numpy_array_instances():
    from ampform.kinematics.lorentz import EuclideanNorm, EuclideanNormSquared, FourMomentumSymbol, ThreeMomentum
    from ampform.sympy.math import ComplexSqrt

    from ampform.sympy._array_expressions import ArraySum

    p = FourMomentumSymbol("p", shape=[])
    q = FourMomentumSymbol("q", shape=[])
    x = sp.Symbol("x")
    out = [(EuclideanNorm(ThreeMomentum(p)), [p], "array"), (EuclideanNormSquared(ThreeMomentum(p)), [p], "array"),
           (ThreeMomentum(p), [p], "array"), (EuclideanNorm(p), [p], "array"),
           (ComplexSqrt(x), [x], "scalar")]
    # compound vector arguments (sums, differences, multiples): operator precedence in the printed code
    vecs = [ArraySum(ThreeMomentum(p), ThreeMomentum(q)), ThreeMomentum(p) - ThreeMomentum(q),
            ThreeMomentum(p) + 2 * ThreeMomentum(q), -ThreeMomentum(p), ThreeMomentum(ArraySum(p, q)), ArraySum(p, q)]
    for v in vecs:
        out.append((EuclideanNormSquared(v), [p, q], "array"))
        out.append((EuclideanNorm(v), [p, q], "array"))
    return out


def numpy_array_case(index, pseed):
    e, syms, shape = numpy_array_instances()[index]
    unfolded = e.get_definition() if hasattr(e, "get_definition") else e.doit()
    f1 = sp.lambdify(syms, e, "numpy", cse=True)
    f2 = sp.lambdify(syms, unfolded, "numpy", cse=True)
    rng = np.random.default_rng(pseed)
    if shape == "array":
        pts = [rng.integers(-32, 32, size=(5, 4)) / 8.0 for _ in syms]
    else:
        pts = [rng.integers(-32, 32, size=6) / 8.0 for _ in syms]
    a, b = np.asarray(f1(*pts), dtype=complex), np.asarray(f2(*pts), dtype=complex)
    if a.shape != b.shape or not np.allclose(a, b, rtol=1e-12, atol=1e-12, equal_nan=True):
        return ("numpy_folded_vs_unfolded", f"lambdify({e}) != lambdify(unfolded) on a random array (seed {pseed})")
    return None


def convention_case(ref, case):
    """The same field values handed over through another calling convention give the same instance."""
    c = type(ref)
    fs = dataclasses.fields(c)
    values = [getattr(ref, f.name) for f in fs]
    want_args = tuple(v for f, v in zip(fs, values) if f.metadata.get("sympify"))
    conv = case["conv"]
    try:
        pos = G.construct(c, values, "positional", 0)
        x = G.construct(c, values, conv, case["perm_seed"])
    except Exception as e:  # noqa: BLE001
        return ("convention_constructor_raises", f"{c.__name__} via {conv}: {type(e).__name__}: {str(e)[:120]}")
    tag = f"{c.__name__}{tuple(values)} built via {conv} (seed {case['perm_seed']})"
    if tuple(x.args) != want_args:
        return ("args_not_in_declaration_order", f"{tag}: args = {x.args}, fields in declaration order = {want_args}")
    for f, v in zip(fs, values):
        got = getattr(x, f.name)
        if not (got == v and type(got) is type(v)):
            return ("field_value_wrong", f"{tag}: {f.name} = {got!r}, given {v!r}")
    if not (x == pos and pos == x) or hash(x) != hash(pos):
        return ("same_arguments_unequal", f"{tag} != the positionally built instance (or hashes differ)")
    try:
        rb = c.__new__(c, *x.__getnewargs__())
        rb_ok = rb == x and sp.srepr(rb) == sp.srepr(x) and all(
            type(getattr(rb, f.name)) is type(getattr(x, f.name)) and getattr(rb, f.name) == getattr(x, f.name) for f in fs)
    except Exception:  # noqa: BLE001
        rb_ok = False
    if not rb_ok:
        return ("new_of_getnewargs_not_identity", f"{tag}: cls.__new__(cls, *x.__getnewargs__()) does not reproduce x")
    if not U.attr_fields(c):
        r = x.func(*x.args)
        if r != pos or sp.srepr(r) != sp.srepr(pos):
            return ("func_args_not_identity", f"{tag}: func(*args) = {r}")
    syms = sorted(x.free_symbols, key=str)
    if syms and "doit" in U._mro_dict(c):
        m = {syms[0]: sp.Symbol("fresh_t", **syms[0].assumptions0)}
        try:
            lhs, rhs = timed(lambda: x.xreplace(m).doit()), timed(lambda: pos.doit().xreplace(m))
            ok = U.same(lhs, rhs)
        except (Skip, U.Undecided):
            ok = True
        except Exception:  # noqa: BLE001
            ok = True
        if not ok:
            return ("substitute_unfold_differ", f"{tag}: xreplace({m}).doit() = {str(lhs)[:80]} but doit().xreplace = {str(rhs)[:80]}")
    return None


def internal_symbol_cases():
    """For every class whose evaluate() creates its own bound variable (Dummy / summation index): a user
    symbol with the same name and assumptions is substituted for an argument."""
    out = []
    for q, c in U.decorated().items():
        sf = U.sym_fields(c)
        if U.attr_fields(c) or not hasattr(c, "evaluate") or G.is_array_class(q):
            continue
        args = [sp.Symbol(n) for n in ("x", "y", "z", "u", "v", "w", "t")[:len(sf)]]
        for j, f in enumerate(sf):
            if f.name in ("l", "angular_momentum"):
                args[j] = sp.Symbol("L")
        try:
            inst = c(*args)
            ev = inst.evaluate()
        except Exception:  # noqa: BLE001
            continue
        internal = {d for d in ev.atoms(sp.Dummy)}
        for node in sp.preorder_traversal(ev):
            if isinstance(node, sp.Sum):
                internal |= {v for v in node.variables}
        for d in sorted(internal, key=str):
            twin = sp.Symbol(d.name, **{k: v for k, v in d.assumptions0.items() if k != "commutative"})
            ir = U.to_ir(inst)
            key = [a for a in args if a.name != "L"][:1]
            if not key:
                continue
            er = [(U.to_ir(key[0]), U.to_ir(twin))]
            out.append((ir, er))
            if any(a.name == "L" for a in args):
                out.append((ir, er + [(("Y", "Symbol('L')"), ("N", 1, 1))]))
                out.append((U.to_ir(inst.xreplace({sp.Symbol("L"): sp.Integer(1)})), er))
    return out


def lambda_attrs():
    from ampform.dynamics.phasespace import BreakupMomentumSquared, PhaseSpaceFactor

    S, A, B, c = sp.symbols("S A B c")
    return [U.attr_ir(sp.Lambda((S, A, B), (1 + c * S) * PhaseSpaceFactor(S, A, B))),
            U.attr_ir(sp.Lambda((S, A, B), sp.sqrt(S) / (1 + c ** 2 * BreakupMomentumSquared(S, A, B))))]


def put_lambda(g, ir):
    """replace the phsp_factor of one EnergyDependentWidth node by a Lambda with the free parameter c"""
    if ir[0] == "U" and ir[1] == "ampform.dynamics.EnergyDependentWidth":
        return ("U", ir[1], ir[2], [g.r.choice(lambda_attrs()), ir[3][1]]), True
    if ir[0] in "AU":
        args, done = [], False
        for a in ir[2]:
            if not done:
                a, done = put_lambda(g, a)
            args.append(a)
        return ((ir[0], ir[1], args) + tuple(ir[3:])), done
    return ir, False


def gen_cases(seed, n):
    g = G.Gen(seed * 104729 + 5, poolsum=True)
    cases = []
    # fixed regression cases first (the pinned-tree defect and the known collision)
    s, m1, m2 = ("Y", "Symbol('s')"), ("Y", "Symbol('m1')"), ("Y", "Symbol('m2')")
    bms = "ampform.dynamics.phasespace.BreakupMomentumSquared"
    psf = "ampform.dynamics.phasespace.PhaseSpaceFactor"
    nested = ("U", psf, [("U", bms, [s, m1, m2], [("n",)]), m1, m2], [("n",)])
    cases.append({"kind": "nested", "ir": nested, "er": [(m1, ("Y", "Symbol('x')"))]})
    cases.append({"kind": "commute", "ir": nested, "er": [(m1, ("Y", "Symbol('x')"))]})
    cases.append({"kind": "eq", "ir": ("U", bms, [s, ("N", 1, 1), ("N", 2, 1)], [("s", "builtins.NoneType")]),
                  "irb": ("U", bms, [s, ("N", 1, 1), ("N", 2, 1)], [("n",)])})
    # PoolSum with SYMBOLIC pool values, alone and nested; the map touches only the pool values
    x, a, i_ = ("Y", "Symbol('x')"), ("Y", "Symbol('a')"), ("Y", "Symbol('i')")
    ps_ = ("A", G.POOLSUM, [("A", "sympy.core.power.Pow", [x, i_]), ("A", G.TUPLE, [i_, ("A", G.TUPLE, [a, ("N", 2, 1)])])])
    kal = ("U", "ampform.kinematics.phasespace.Kallen", [ps_, ("Y", "Symbol('y')"), s], [])
    for tree in (ps_, kal):
        cases.append({"kind": "nested", "ir": tree, "er": [(a, ("Y", "Symbol('fresh_t')"))]})
        cases.append({"kind": "commute", "ir": tree, "er": [(a, ("N", 1, 1))]})
    # PoolSum: multiplicity of indices the summand does not (or, after the map, no longer) depend on
    gs, b0, e0_, j_ = ("Y", "Symbol('g')"), ("Y", "Symbol('b0')"), ("Y", "Symbol('e0')"), ("Y", "Symbol('j')")
    mul, add, pw = "sympy.core.mul.Mul", "sympy.core.add.Add", "sympy.core.power.Pow"
    pool = lambda ix, *vs: ("A", G.TUPLE, [ix, ("A", G.TUPLE, list(vs))])  # noqa: E731
    one, two, three = ("N", 1, 1), ("N", 2, 1), ("N", 3, 1)
    psf_i = ("U", psf, [s, i_, m2], [("n",)])
    ps_g = ("A", G.POOLSUM, [("A", add, [("A", mul, [gs, ("A", pw, [x, i_])]), b0]), pool(i_, one, two)])
    ps_e = ("A", G.POOLSUM, [("A", pw, [x, ("A", mul, [e0_, i_])]), pool(i_, one, two, three)])
    ps_f = ("A", G.POOLSUM, [("A", add, [("A", mul, [gs, psf_i]), b0]), pool(i_, m1, two)])
    ps_n = ("A", G.POOLSUM, [("A", G.POOLSUM, [("A", add, [("A", mul, [gs, i_, j_]), b0]), pool(j_, one, two)]), pool(i_, one, two, three)])
    ps_b = ("A", G.POOLSUM, [b0, pool(i_, one, two, three)])
    for tree, key in ((ps_g, gs), (ps_e, e0_), (ps_f, gs), (ps_n, gs),
                      (("U", "ampform.kinematics.phasespace.Kallen", [ps_g, ("Y", "Symbol('y')"), s], []), gs)):
        cases.append({"kind": "commute", "ir": tree, "er": [(key, ("N", 0, 1))]})
        cases.append({"kind": "commute_subs", "ir": tree, "er": [(key, ("N", 0, 1))]})
    # pool values that coincide (explicitly, or after the map): one term per ENTRY of the pool
    c_, b_ = ("Y", "Symbol('c')"), ("Y", "Symbol('b')")
    ps_ac = ("A", G.POOLSUM, [("A", pw, [x, i_]), pool(i_, a, c_)])
    ps_11 = ("A", G.POOLSUM, [("A", pw, [x, i_]), pool(i_, one, one)])
    ps_b2 = ("A", G.POOLSUM, [("A", G.POOLSUM, [("A", pw, [x, ("A", mul, [i_, j_])]), pool(j_, b_, two)]), pool(i_, a, three)])
    for tree, er in ((ps_ac, [(a, c_)]), (ps_ac, [(a, one), (c_, one)]), (ps_b2, [(b_, two)]),
                     (("U", "ampform.kinematics.phasespace.Kallen", [ps_ac, ("Y", "Symbol('y')"), s], []), [(a, c_)])):
        cases.append({"kind": "commute", "ir": tree, "er": er})
        if len(er) == 1:
            cases.append({"kind": "commute_subs", "ir": tree, "er": er})
    for tree in (ps_b, ps_g, ps_n, ps_, ps_11, ps_ac):
        cases.append({"kind": "poolsum_value", "ir": tree})
    # substitution images that are user symbols NAMED like a class's internal (bound/Dummy) variable
    for ir_, er_ in internal_symbol_cases():
        cases.append({"kind": "commute", "ir": ir_, "er": er_})
    # calling conventions (positional / keywords in any order / mixed / defaults skipped), library and user classes
    y_ = ("Y", "Symbol('y')")
    conv_trees = [("U", "ampform.kinematics.lorentz.BoostZMatrix", [("Y", "Symbol('b')"), ("Y", "Symbol('n')")], []),
                  ("U", "ampform.kinematics.phasespace.Kallen", [x, y_, s], []),
                  ("U", bms, [s, m1, m2], [("s", "q")]),
                  ("U", "ampform.dynamics.form_factor.FormFactor", [s, m1, m2, ("N", 1, 1), ("N", 1, 1)], []),
                  ("U", "gen_uneval.ShiftedPower", [x, ("N", 0, 1), ("N", 2, 1)], []),
                  ("U", "gen_uneval.ShiftedPower", [x, y_, ("N", 3, 1)], []),
                  ("U", "gen_uneval.ScaledWidth", [s, m1, ("N", 1, 1), y_], [("n",)]),
                  ("U", "gen_uneval.ScaledWidth", [s, m1, ("N", 2, 1), ("N", 0, 1)], [("s", "w")])]
    for ti, tree in enumerate(conv_trees):
        for ci, conv in enumerate(G.CONVENTIONS[1:]):
            cases.append({"kind": "convention", "ir": tree, "conv": conv, "perm_seed": seed * 100 + ti * 7 + ci})
    # distinct callables sharing module.qualname in a non-SymPy attribute: must compare unequal
    edw = "ampform.dynamics.EnergyDependentWidth"
    eargs = [s, ("Y", "Symbol('m0')"), ("Y", "Symbol('w0')"), m1, m2, ("N", 0, 1), ("N", 1, 1)]
    for a1, a2 in ((("o", "uneval_ir.CLOSURE_A"), ("o", "uneval_ir.CLOSURE_B")),
                   (("o", "uneval_ir.LAMBDA_A[0]"), ("o", "uneval_ir.LAMBDA_A[1]"))):
        cases.append({"kind": "eq", "ir": ("U", edw, eargs, [a1, ("n",)]), "irb": ("U", edw, eargs, [a2, ("n",)])})
    # value objects (own __eq__/__hash__, default repr): two equal objects built separately are equal attributes
    for v1, v2 in (("1/2", "1/2"), ("1/2", "3/1")):
        cases.append({"kind": "eq", "ir": ("U", edw, eargs, [("o", f"uneval_ir.ValueObj({v1})"), ("n",)]),
                      "irb": ("U", edw, eargs, [("o", f"uneval_ir.ValueObj({v2})"), ("n",)])})
    cases.append({"kind": "eq", "ir": ("U", bms, [s, m1, m2], [("o", "uneval_ir.CLOSURE_A")]),
                  "irb": ("U", bms, [s, m1, m2], [("o", "uneval_ir.CLOSURE_B")])})
    # a SymPy callable with a free parameter in a sympify=False field: substitution must reach it
    for lam in lambda_attrs():
        t = ("U", edw, eargs, [lam, ("n",)])
        cases.append({"kind": "commute", "ir": t, "er": [(("Y", "Symbol('c')"), ("N", 3, 2))]})
        cases.append({"kind": "commute_subs", "ir": t, "er": [(("Y", "Symbol('c')"), ("Y", "Symbol('t')"))]})
        cases.append({"kind": "nested", "ir": t, "er": [(("Y", "Symbol('c')"), ("Y", "Symbol('fresh_t')"))]})
    import corr_uneval as C

    for i in range(len(numpy_array_instances())):
        cases.append({"kind": "numpy_array", "index": i, "point_seed": seed * 10 + i, "ir": ("Y", "Symbol('p')")})
    while len(cases) < n:
        obj, ir = g.tree(g.r.choice([1, 2, 2, 3, 3, 4]))
        if U.ir_size(ir) > 300:
            continue
        k = g.r.choice(["commute", "commute", "commute_subs", "nested", "eq", "eq", "func", "numpy", "convention"])
        if k == "convention":
            if ir[0] == "U" and not G.has_unhashable(ir):
                cases.append({"kind": "convention", "ir": ir, "conv": g.r.choice(G.CONVENTIONS[1:]),
                              "perm_seed": g.r.randrange(10 ** 6)})
            continue
        if ir[0] == "A" and ir[1] == G.POOLSUM and g.r.random() < 0.3:
            cases.append({"kind": "poolsum_value", "ir": ir})
            continue
        if k in ("commute", "commute_subs", "nested"):
            if G.has_unhashable(ir):
                continue
            ir2, done = put_lambda(g, ir) if g.r.random() < 0.5 else (ir, False)
            if done:
                cases.append({"kind": k, "ir": ir2, "er": [(("Y", "Symbol('c')"),
                              ("Y", "Symbol('fresh_t')") if k == "nested" else g.r.choice([("N", 3, 2), ("Y", "Symbol('t')")]))]})
                continue
            kind, er, ar = g.rule(ir)
            er = [(a, b) for a, b in er if a[0] == "Y"]
            if not er or ar:
                continue
            if k != "commute":
                er = er[:1]
            if k == "nested":
                er = [(er[0][0], ("Y", "Symbol('fresh_t')"))]
            cases.append({"kind": k, "ir": ir, "er": er})
        elif k == "eq":
            irb = C.mutate(g, ir)
            try:
                irb = U.to_ir(U.from_ir(irb))
            except Exception:  # noqa: BLE001
                continue
            cases.append({"kind": "eq", "ir": ir, "irb": irb})
        elif k == "func":
            cases.append({"kind": "func", "ir": ir})
        else:
            if G.has_array(ir):
                continue
            cases.append({"kind": "numpy", "ir": ir, "point_seed": g.r.randrange(10 ** 6)})
    return cases


def main():
    if sys.argv[1] == "--replay":
        doc = json.load(open(sys.argv[2]))
        case = doc["replay"]["case"]
        try:
            _, fail = check_case(case)
        except Skip:
            fail = None
        print(json.dumps({"still_fails": fail is not None, "what": fail[1] if fail else ""}))
        return
    seed, n = int(sys.argv[1]), int(sys.argv[2])
    cases = gen_cases(seed, n)
    kinds, fails, samples, ev, seen = {}, [], [], 0, set()
    for c in cases:
        try:
            kind, fail = check_case(c)
        except Skip as e:
            kinds["skipped:" + str(e)] = kinds.get("skipped:" + str(e), 0) + 1
            continue
        except (U.IRError, U.ModelError) as e:
            kinds["skipped:ir"] = kinds.get("skipped:ir", 0) + 1
            continue
        except Exception as e:  # noqa: BLE001
            kk = "skipped:exception:" + type(e).__name__ + ":" + c["kind"]
            kinds[kk] = kinds.get(kk, 0) + 1
            continue
        ev += 1
        kinds[kind] = kinds.get(kind, 0) + 1
        seen.add(json.dumps(c, sort_keys=True))
        if len(samples) < 6:
            samples.append({"kind": kind, "expr": str(U.from_ir(c["ir"]))[:120]})
        if fail and not any(f["signature"] == fail[0] for f in fails):
            fails.append({"signature": fail[0], "what": fail[1], "case": c})
    print(json.dumps({"evaluations": ev, "distinct": len(seen), "samples": samples, "kinds": kinds, "failures": fails}))


if __name__ == "__main__":
    main()
