"""C08 model regeneration, part 2: the NumPy code generated for MatrixMultiplication /
ArrayMultiplication chains of k generic operands (symbolically executed for one event).

The operands are plain symbols in the expression (printed by name) and object arrays of
distinct scalar symbols at run time, so the result is the polynomial the generated einsum
call computes.  The subscripts string and the operand list do not depend on the matrix
dimension, so chains are unrolled for dimension 2 (k = 2..KMAX) and for dimension 4 (short chains).
"""
import sys

import common  # noqa: F401
import numpy as np
import sympy as sp
from ser import ser
from symexec import clean_scalar, symexec

common.assert_repo_import()
from ampform.sympy._array_expressions import ArrayMultiplication, MatrixMultiplication  # noqa: E402

out = sys.argv[1]
KMAX = int(sys.argv[2]) if len(sys.argv) > 2 else 7


def gen_matrix(t, dim):
    return np.array([[[sp.Symbol(f"M{t}_{i}{j}", real=True) for j in range(dim)] for i in range(dim)]], dtype=object)


def gen_vector(dim):
    return np.array([[sp.Symbol(f"v_{i}", real=True) for i in range(dim)]], dtype=object)


def mat_lit(m):
    return "[" + "; ".join("[" + "; ".join(ser(clean_scalar(e)) for e in row) + "]" for row in m) + "]"


def vec_lit(v):
    return "[" + "; ".join(ser(clean_scalar(e)) for e in v) + "]"


lines = ["(* GENERATED on every run from /repo by bridge/symgen_C08prod.py *)",
         "From AV Require Import Ast.", "Open Scope string_scope.", ""]
mat_cases, vec_cases = [], []
for dim, ks in ((2, range(1, KMAX + 1)), (4, (2, 3))):
    for k in ks:
        syms = [sp.Symbol(f"T{t}") for t in range(k)]
        ops = [gen_matrix(t, dim) for t in range(k)]
        for cse in (False, True):
            val, _ = symexec(syms, MatrixMultiplication(*syms).doit(), ops, cse=cse)
            val = np.asarray(val, dtype=object)
            assert val.shape == (1, dim, dim), val.shape
            mat_cases.append("(" + mat_lit(val[0]) + ",\n    [" + ";\n     ".join(mat_lit(o[0]) for o in ops) + "])")
for dim, ks in ((2, range(2, KMAX + 1)), (4, (2, 4))):
    for k in ks:
        syms = [sp.Symbol(f"T{t}") for t in range(k)]
        ops = [gen_matrix(t, dim) for t in range(k - 1)] + [gen_vector(dim)]
        for cse in (False, True):
            val, _ = symexec(syms, ArrayMultiplication(*syms).doit(), ops, cse=cse)
            val = np.asarray(val, dtype=object)
            assert val.shape == (1, dim), val.shape
            vec_cases.append("(" + vec_lit(val[0]) + ",\n    [" + ";\n     ".join(mat_lit(o[0]) for o in ops[:-1])
                             + "],\n    " + vec_lit(ops[-1][0]) + ")")
lines.append("Definition gen_matrix_products : list (list (list expr) * list (list (list expr))) :=\n  ["
             + ";\n   ".join(mat_cases) + "].\n")
lines.append("Definition gen_array_products : list (list expr * list (list (list expr)) * list expr) :=\n  ["
             + ";\n   ".join(vec_cases) + "].\n")
with open(out, "w") as f:
    f.write("\n".join(lines))
print("ok", len(mat_cases), len(vec_cases))
