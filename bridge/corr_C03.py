"""C03 correspondence (tie T2): model coq/theories/Naming.v + NamingCG.v  <->  /repo naming & prefactor code.

  corr_C03.py gen <seed> <tier>   writes Cases_C03_<k>.v and corr_C03_impl.json into cwd (implementation side)
  corr_C03.py cmp                 reads Cases_C03_<k>.out (coqc stdout) + corr_C03_impl.json, prints JSON verdict

A case = (corpus reaction, name-generator class, naming flags, variant of the transition list).
Variants: original order / shuffled / shuffled subset / parity prefactors re-drawn consistently per
decay / per node (incl. None), so that the `None -> continue` placement, the priority rule and
the registration order are exercised beyond what qrules happens to produce.

Compared per case (implementation vs `vm_compute` of the model on the same data):
  * the three suffixes of every node: key <-> string must be ONE bijection (this checks the key
    abstraction against the real strings), for raw / partner / priority
  * parity_partner_coefficient_mapping as a dict
  * generate_sequential_amplitude_suffix(t) for every transition: chains that share a name in the
    implementation must share one in the model (what the sign theorem needs); exact equality is
    recorded as a statistic
  * the prefactor the builder uses for every transition (private method; on the standard flags also
    read back from the formulated model's components: on a fresh builder and on the same builder
    after a history formulate(flags without sharing) -> flags back -> formulate())
  * the arguments of the two CG objects of formulate_isobar_cg_coefficients (canonical reactions)
  * data facts the theorems assume: qrules' parity_prefactor == P P1 P2 (-1)^(J-s1-s2); every LS
    alternative of a parity-constrained node is well-formed and has P = P1 P2 (-1)^L
"""
from __future__ import annotations

import json
import random
import re
import sys
from fractions import Fraction

import common

import reactions  # noqa: E402

FILE_CASES = 40  # evaluations per Cases file


def _two(x) -> int:
    f = Fraction(x) * 2
    assert f.denominator == 1, x
    return int(f)


def z(i: int) -> str:
    return str(i) if i >= 0 else f"({i})"


class Encoder:
    """qrules transitions -> Gallina literals for Naming.v (particle names -> rank ids)."""

    def __init__(self, transitions):
        names = sorted({s.particle.name for t in transitions for s in t.states.values()})
        self.rank = {n: i for i, n in enumerate(names)}

    def state(self, s) -> str:
        r = self.rank[s.particle.name]
        return f"(mkState {r} {r} {z(_two(s.spin_projection))})"

    def node(self, t, i) -> str:
        topo = t.topology
        (pin,) = list(topo.get_edge_ids_ingoing_to_node(i))
        a, b = list(topo.get_edge_ids_outgoing_from_node(i))
        ip = t.interactions[i]
        l = _two(ip.l_magnitude) if ip.l_magnitude is not None else 0
        s = _two(ip.s_magnitude) if ip.s_magnitude is not None else 0
        if ip.parity_prefactor is None:
            eta = "None"
        else:
            e = Fraction(ip.parity_prefactor)
            assert e.denominator == 1
            eta = f"(Some {z(int(e))})"
        return (f"(mkNode {self.state(t.states[pin])} {self.state(t.states[a])} "
                f"{self.state(t.states[b])} {z(l)} {z(s)} {eta})")

    def transitions(self, ts) -> str:
        return "[" + ";\n ".join("[" + "; ".join(self.node(t, i) for i in t.topology.nodes) + "]" for t in ts) + "]"


def variants(reaction, rng, tier):
    import attrs

    ts = list(reaction.transitions)
    out = [("orig", ts)]  # = reaction.transitions: the order the builder itself registers
    sh = ts[:]
    rng.shuffle(sh)
    out.append(("shuffled", sh))
    sub = ts[:]
    rng.shuffle(sub)
    out.append(("subset", sub[: max(1, (len(sub) + 1) // 2)]))

    def redraw(per_node: bool, with_none: bool):
        table = {}
        res = []
        for t in ts:
            new = {}
            for i in t.topology.nodes:
                ip = t.interactions[i]
                if per_node:
                    v = rng.choice([None, 1.0, -1.0] if with_none else [1.0, -1.0])
                else:
                    (pin,) = list(t.topology.get_edge_ids_ingoing_to_node(i))
                    kids = sorted(t.states[j].particle.name for j in t.topology.get_edge_ids_outgoing_from_node(i))
                    k = (t.states[pin].particle.name, *kids)
                    if k not in table:
                        table[k] = rng.choice([None, 1.0, -1.0] if with_none else [1.0, -1.0])
                    v = table[k]
                new[i] = attrs.evolve(ip, parity_prefactor=v)
            res.append(attrs.evolve(t, interactions=new))
        rng.shuffle(res)
        return res

    out.append(("eta-per-decay", redraw(False, False)))
    out.append(("eta-per-node", redraw(True, True)))
    if tier == "thorough":
        for k in range(3):
            out.append((f"eta-per-decay-none-{k}", redraw(False, True)))
            out.append((f"eta-per-node-{k}", redraw(True, True)))
            sh = ts[:]
            rng.shuffle(sh)
            out.append((f"shuffled-{k}", sh))
    return out


def flag_sets(kind: str, tier: str, vname: str):
    std = [(False, True, False)]
    if kind == "hel":
        allf = [(p, c, False) for p in (False, True) for c in (False, True)]
    else:
        allf = [(p, c, ls) for p in (False, True) for c in (False, True) for ls in (False, True)]
    if tier == "thorough" or vname == "orig":
        return allf
    if kind == "hel":
        return std + [(True, True, False)]
    return std + [(False, False, True), (False, True, True)]


def eta_formula(t, i):
    topo = t.topology
    (pin,) = list(topo.get_edge_ids_ingoing_to_node(i))
    a, b = list(topo.get_edge_ids_outgoing_from_node(i))
    P, A, B = (t.states[k].particle for k in (pin, a, b))
    if P.parity is None or A.parity is None or B.parity is None:
        return None
    e = _two(P.spin) - _two(A.spin) - _two(B.spin)
    if e % 2:
        return None
    return int(P.parity) * int(A.parity) * int(B.parity) * (-1) ** ((e // 2) % 2)


def gen(seed: int, tier: str):
    from ampform.helicity.naming import CanonicalAmplitudeNameGenerator, HelicityAmplitudeNameGenerator

    from ampform.helicity import (CanonicalAmplitudeBuilder, HelicityAmplitudeBuilder,
                                  formulate_isobar_cg_coefficients)
    from ampform.helicity.decay import TwoBodyDecay

    common.assert_repo_import()
    rng = random.Random(seed * 7919 + 3)
    evals = []   # (coq expression text, impl record)
    defs = []    # Gallina definitions (name, text)
    facts = {"eta_checked": 0, "eta_bad": [], "ls_checked": 0, "ls_bad": []}
    names = reactions.names()
    for rname in names:
        reaction = reactions.load(rname)
        kind = "can" if rname.endswith("_can") else "hel"
        Builder = CanonicalAmplitudeBuilder if kind == "can" else HelicityAmplitudeBuilder
        builder = Builder(reaction)
        for vname, ts in variants(reaction, rng, tier):
            enc = Encoder(ts)
            dname = f"ts_{len(defs)}"
            defs.append((dname, enc.transitions(ts)))
            for (p, c, ls) in flag_sets(kind, tier, vname):
                # the generators take any iterable of transitions (ReactionInfo would re-sort them);
                # the builder gets it the way CanonicalAmplitudeBuilder.__init__ installs its own
                if kind == "can":
                    naming = CanonicalAmplitudeNameGenerator(ts, insert_parent_helicities=p,
                                                             insert_child_helicities=c, insert_ls_combinations=ls)
                else:
                    naming = HelicityAmplitudeNameGenerator(ts, insert_parent_helicities=p, insert_child_helicities=c)
                builder._naming = naming
                couple = naming._HelicityAmplitudeNameGenerator__generate_amplitude_coefficient_couple
                rec = {
                    "reaction": rname, "variant": vname, "flags": [p, c, ls], "kind": kind,
                    "mapping": dict(naming.parity_partner_coefficient_mapping),
                    "triples": [[list(couple(t, i)) for i in t.topology.nodes] for t in ts],
                    "raw": [[naming.generate_two_body_decay_suffix(t, i) for i in t.topology.nodes] for t in ts],
                    "seq": [naming.generate_sequential_amplitude_suffix(t) for t in ts],
                    "pref": [], "labels": [naming.generate_amplitude_name(t) for t in ts],
                }
                for t in ts:
                    f = builder._HelicityAmplitudeBuilder__generate_amplitude_prefactor(t)
                    fr = Fraction(1) if f is None else Fraction(int(f.p), int(f.q))
                    rec["pref"].append([fr.numerator, fr.denominator])
                # on the standard flags and the original list: what formulate() really multiplies with
                if vname == "orig" and (p, c, ls) == (False, True, False):
                    # fresh builder, then the SAME builder after a model without sharing was formulated
                    # (parent helicities in the names) and the flags were set back: a history
                    rec["observed"] = observed_prefactors(builder, ts)
                    hb = Builder(reaction)   # a second builder whose FIRST model has no sharing
                    if kind == "can":
                        hb._naming = CanonicalAmplitudeNameGenerator(ts, insert_parent_helicities=True,
                                                                     insert_child_helicities=True, insert_ls_combinations=False)
                    else:
                        hb._naming = HelicityAmplitudeNameGenerator(ts, insert_parent_helicities=True, insert_child_helicities=True)
                    hb.formulate()
                    hb._naming = naming
                    rec["observed_after_history"] = observed_prefactors(hb, ts)
                fl = "(mkFlags %s %s %s)" % tuple("true" if x else "false" for x in (p, c, ls))
                evals.append((f"run_case {fl} {dname}", rec))
            # HISTORY on ONE builder and its own name generator: flags changed through the setters
            # BETWEEN formulations (all three flags, both directions); every step is a case for the
            # Gallina model at those flags, with the names/prefactors read back from the formulated model
            if vname == "orig":
                wb = Builder(reaction)
                wn = wb.naming
                if kind == "can":
                    walk = [(False, False, True), (False, True, False), (False, True, True), (True, True, False), (False, False, False)]
                else:
                    walk = [(False, True, False), (True, True, False), (False, False, False), (False, True, False)]
                if tier == "thorough":
                    pool = ([(a, b, c) for a in (False, True) for b in (False, True) for c in (False, True)] if kind == "can"
                            else [(a, b, False) for a in (False, True) for b in (False, True)])
                    walk = walk + [rng.choice(pool) for _ in range(6)]
                for k, (p, c, ls) in enumerate(walk):
                    wn.insert_parent_helicities = p
                    wn.insert_child_helicities = c
                    if kind == "can":
                        wn.insert_ls_combinations = ls
                    couple = wn._HelicityAmplitudeNameGenerator__generate_amplitude_coefficient_couple
                    obs, obs_names = observed_prefactors(wb, ts, with_names=True)
                    rec = {
                        "reaction": rname, "variant": f"history-step-{k}", "flags": [p, c, ls], "kind": kind,
                        "walk": [list(x) for x in walk[: k + 1]],
                        "mapping": dict(wn.parity_partner_coefficient_mapping),
                        "triples": [[list(couple(t, i)) for i in t.topology.nodes] for t in ts],
                        "raw": [[wn.generate_two_body_decay_suffix(t, i) for i in t.topology.nodes] for t in ts],
                        "seq": [wn.generate_sequential_amplitude_suffix(t) for t in ts],
                        "pref": [], "labels": [wn.generate_amplitude_name(t) for t in ts],
                        "observed": obs, "observed_names": obs_names,
                    }
                    for t in ts:
                        f = wb._HelicityAmplitudeBuilder__generate_amplitude_prefactor(t)
                        fr = Fraction(1) if f is None else Fraction(int(f.p), int(f.q))
                        rec["pref"].append([fr.numerator, fr.denominator])
                    fl = "(mkFlags %s %s %s)" % tuple("true" if x else "false" for x in (p, c, ls))
                    evals.append((f"run_case {fl} {dname}", rec))
            # CG arguments and data facts (flag independent)
            if vname == "orig":
                cgn, cgimpl = [], []
                eta_by_decay = {}
                for t in ts:
                    for i in t.topology.nodes:
                        ip = t.interactions[i]
                        (pin_,) = list(t.topology.get_edge_ids_ingoing_to_node(i))
                        kids_ = sorted(t.states[j].particle.name for j in t.topology.get_edge_ids_outgoing_from_node(i))
                        dk = (t.states[pin_].particle.name, *kids_, str(ip.l_magnitude), str(ip.s_magnitude))
                        eta_by_decay.setdefault(dk, set()).add(ip.parity_prefactor)
                        ef = eta_formula(t, i)
                        if ip.parity_prefactor is not None and ef is not None:
                            facts["eta_checked"] += 1
                            if Fraction(ip.parity_prefactor) != ef:
                                facts["eta_bad"].append([rname, naming.generate_amplitude_name(t, i), ip.parity_prefactor, ef])
                        if ip.l_magnitude is None or ip.s_magnitude is None:
                            continue
                        d = TwoBodyDecay.from_transition(t, i)
                        J, s1, s2 = (_two(x.particle.spin) for x in (d.parent, *d.children))
                        l1, l2 = (_two(x.spin_projection) for x in d.children)
                        L, S = _two(ip.l_magnitude), _two(ip.s_magnitude)
                        cgn.append(f"(mkCG {z(J)} {z(s1)} {z(l1)} {z(s2)} {z(l2)}, {z(L)}, {z(S)})")
                        e = formulate_isobar_cg_coefficients(t, i)
                        cgimpl.append(sorted([_two(a) for a in cg.args] for cg in e.args))
                        if ip.parity_prefactor is not None:
                            facts["ls_checked"] += 1
                            P, P1, P2 = (x.particle.parity for x in (d.parent, *d.children))
                            ok = (L % 2 == 0 and (L + S - J) % 2 == 0 and (s1 + s2 - S) % 2 == 0
                                  and None not in (P, P1, P2)
                                  and int(P) == int(P1) * int(P2) * (-1) ** ((L // 2) % 2))
                            if not ok:
                                facts["ls_bad"].append([rname, naming.generate_amplitude_name(t, i), L, S])
                facts["decays"] = facts.get("decays", 0) + len(eta_by_decay)
                facts.setdefault("eta_not_function_of_decay", []).extend(
                    [rname, *k] for k, v in eta_by_decay.items() if len(v) > 1)
                if cgn:
                    evals.append(("map (fun x => match x with (n, l, s) => cg_args n l s end) [" + "; ".join(cgn) + "]",
                                  {"reaction": rname, "variant": "cg", "cg": cgimpl}))
    # ---- write Cases files
    header = ("From Coq Require Import ZArith List.\nFrom AV Require Import Naming NamingCG.\n"
              "Import ListNotations.\nOpen Scope Z_scope.\n"
              "Set Printing Width 1000000.\nSet Printing Depth 1000000.\n"
              "Definition run_case (fl : flags) (ts : list transition) :=\n"
              "  let m := register fl ts in\n"
              "  (enc_mapping m, enc_triples fl ts, map (fun t => map enc_key (seq_suffix fl m t)) ts,\n"
              "   map (prefactor fl m) ts, map (prefactor_pinned fl m) ts).\n")
    files = []
    used_defs = dict(defs)
    for k in range(0, len(evals), FILE_CASES):
        chunk = evals[k:k + FILE_CASES]
        fname = f"Cases_C03_{k // FILE_CASES}.v"
        need = []
        for expr, _ in chunk:
            m = re.search(r"\b(ts_\d+)$", expr)
            if m and m.group(1) not in need:
                need.append(m.group(1))
        with open(fname, "w") as fh:
            fh.write(header)
            for d in need:
                fh.write(f"Definition {d} : list transition :=\n {used_defs[d]}.\n")
            for expr, _ in chunk:
                fh.write(f"Eval vm_compute in {expr}.\n")
        files.append({"file": fname, "n": len(chunk)})
    with open("corr_C03_impl.json", "w") as fh:
        json.dump({"files": files, "records": [r for _, r in evals], "facts": facts, "seed": seed, "tier": tier}, fh)
    print(json.dumps({"files": [f["file"] for f in files], "cases": len(evals), "facts": {k: (v if isinstance(v, int) else len(v)) for k, v in facts.items()}}))


def observed_prefactors(builder, ts, with_names=False):
    """Prefactor actually present in the formulated model: component / (coefficient * D-functions);
    with_names: also the coefficient symbol's name."""
    import sympy as sp
    from sympy.physics.quantum.cg import CG
    from sympy.physics.quantum.spin import WignerD

    model = builder.formulate()
    out, names = [], []
    for t in ts:
        name = "A_{" + builder.naming.generate_amplitude_name(t) + "}"
        expr = model.components.get(name)
        if expr is None:
            out.append(None)
            names.append(None)
            continue
        e = expr.replace(lambda x: isinstance(x, (WignerD, CG)), lambda x: sp.Integer(1))
        syms = sorted(str(x) for x in e.free_symbols)
        names.append(syms[0] if len(syms) == 1 else None)
        e = e.xreplace({s: sp.Integer(1) for s in e.free_symbols})
        e = sp.nsimplify(e)
        out.append([int(e.p), int(e.q)] if e.is_Rational else [str(e), 1])
    return (out, names) if with_names else out


def parse_out(text: str):
    vals = []
    for line in text.splitlines():
        if line.startswith("     = "):
            s = line[7:].replace(";", ",").replace("(", "[").replace(")", "]")
            vals.append(json.loads(s))
    return vals


def compare(rec, val):
    """-> list of disagreement strings (empty = agree), stats dict"""
    bad = []
    stats = {"seq_exact": True, "coupled": 0}
    if rec.get("variant") == "cg":
        got = [sorted(list(p) for p in pair) for pair in val]
        if got != rec["cg"]:
            idx = next((i for i, (a, b) in enumerate(zip(got, rec["cg"])) if a != b), -1)
            bad.append(f"cg_args: node #{idx} model {got[idx] if idx >= 0 else len(got)} impl {rec['cg'][idx] if idx >= 0 else len(rec['cg'])}")
        return bad, stats
    mapping, triples, seqs, prefs, pinned = val
    k2s, s2k = {}, {}

    def bind(key, s, what):
        key = tuple(key)
        if k2s.setdefault(key, s) != s or s2k.setdefault(s, key) != key:
            bad.append(f"key abstraction: {what}: key {key} <-> {s!r} conflicts with {k2s.get(key)!r} / {s2k.get(s)}")

    for ti, (tm, ts_) in enumerate(zip(triples, rec["triples"])):
        for ni, (km, ks) in enumerate(zip(tm, ts_)):
            for j, what in enumerate(("raw", "partner", "priority")):
                bind(km[j], ks[j], f"{what} suffix of transition {ti} node {ni}")
            if ks[0] != rec["raw"][ti][ni]:
                bad.append(f"raw suffix of couple != generate_two_body_decay_suffix at {ti}/{ni}")
        if bad:
            break
    if bad:
        return bad[:3], stats
    try:
        mm = {k2s[tuple(k)]: k2s[tuple(v)] for k, v in mapping}
    except KeyError as e:
        return [f"model mapping mentions a key no node produces: {e}"], stats
    if mm != rec["mapping"]:
        diff = [(k, mm.get(k), rec["mapping"].get(k)) for k in sorted(set(mm) | set(rec["mapping"])) if mm.get(k) != rec["mapping"].get(k)]
        bad.append(f"parity_partner_coefficient_mapping: {len(diff)} entries differ, first: key {diff[0][0]!r} model -> {diff[0][1]!r} impl -> {diff[0][2]!r}")
    stats["coupled"] = sum(1 for k, v in rec["mapping"].items() if k != v)
    # sequential suffix: exact + refinement
    mseq = []
    for ti, sk in enumerate(seqs):
        try:
            mseq.append("; ".join(k2s[tuple(k)] for k in sk))
        except KeyError:
            mseq.append(None)
    if mseq != rec["seq"]:
        stats["seq_exact"] = False
        groups = {}
        for ti, s in enumerate(rec["seq"]):
            groups.setdefault(s, []).append(ti)
        for s, members in groups.items():
            ks = {json.dumps(seqs[ti]) for ti in members}
            if len(ks) > 1:
                bad.append(f"sequential suffix: chains {[rec['labels'][ti] for ti in members[:2]]} share {s!r} in the implementation but not in the model")
                break
    fp = [[a, 1] for a in prefs]
    if fp != rec["pref"]:
        idx = next(i for i, (a, b) in enumerate(zip(fp, rec["pref"])) if a != b)
        note = " (implementation equals the PRE-fix model prefactor_pinned here)" if [pinned[idx], 1] == rec["pref"][idx] else ""
        bad.append(f"prefactor of chain {rec['labels'][idx]!r}: model {prefs[idx]} impl {rec['pref'][idx]}{note}")
    if rec.get("observed_names") is not None:
        for idx, nm in enumerate(rec["observed_names"]):
            if nm is not None and nm != "C_{" + rec["seq"][idx] + "}":
                bad.append(f"sequential suffix in formulated model of chain {rec['labels'][idx]!r}: coefficient {nm!r} but generate_sequential_amplitude_suffix gives {rec['seq'][idx]!r}")
                break
    for field, how in (("observed", "fresh builder" if not rec.get("walk") else f"one builder walked through flags {rec.get('walk')}"), ("observed_after_history", "same builder after formulate() with parent helicities in the names")):
        if rec.get(field) is not None:
            for idx, o in enumerate(rec[field]):
                if o is not None and o != [prefs[idx], 1]:
                    bad.append(f"prefactor in formulated model ({how}) of chain {rec['labels'][idx]!r}: {o} but the model gives {prefs[idx]}")
                    break
    return bad, stats


def cmp_():
    doc = json.load(open("corr_C03_impl.json"))
    recs = doc["records"]
    vals = []
    missing = []
    for f in doc["files"]:
        try:
            got = parse_out(open(f["file"][:-2] + ".out").read())
        except FileNotFoundError:
            got = []
        if len(got) != f["n"]:
            missing.append(f"{f['file']}: {len(got)} results for {f['n']} evaluations")
            got = (got + [None] * f["n"])[: f["n"]]
        vals.extend(got)
    disagreements = []
    n_ok = n_coupled = n_inexact = 0
    sig_seen = set()
    for rec, val in zip(recs, vals):
        if val is None:
            continue
        bad, stats = compare(rec, val)
        if bad:
            head = bad[0].split(":")[0].split(" of chain")[0].split(" in formulated")[0]
            sig = f"corr:{head}"
            if sig not in sig_seen:
                sig_seen.add(sig)
                disagreements.append({"signature": sig, "what": f"{rec['reaction']} [{rec['variant']}] flags(parent,child,ls)={rec.get('flags')}" + (f" after walking ONE builder through {rec['walk']}" if rec.get("walk") else "") + f": {bad[0]}",
                                      "case": {"reaction": rec["reaction"], "variant": rec["variant"], "flags": rec.get("flags"), "walk": rec.get("walk"), "seed": doc["seed"], "tier": doc["tier"], "detail": bad[:3]}})
        else:
            n_ok += 1
        n_coupled += 1 if stats["coupled"] else 0
        n_inexact += 0 if stats["seq_exact"] else 1
    facts = doc["facts"]
    for k in ("eta_bad", "ls_bad"):
        if facts[k]:
            disagreements.append({"signature": f"corr:{k}", "what": f"data fact violated ({k}): {facts[k][0]}", "case": {"fact": k, "first": facts[k][:3]}})
    samples = [{"reaction": r["reaction"], "variant": r["variant"], "flags": r.get("flags"), "transitions": len(r.get("seq", r.get("cg", [])))} for r in recs[:: max(1, len(recs) // 6)]][:6]
    print(json.dumps({"cases": len(recs), "agree": n_ok, "with_coupling": n_coupled, "seq_not_exact": n_inexact, "missing": missing,
                      "eta_checked": facts["eta_checked"], "ls_checked": facts["ls_checked"],
                      "decays": facts.get("decays", 0), "eta_not_function_of_decay": facts.get("eta_not_function_of_decay", [])[:5], "disagreements": disagreements, "samples": samples}))


if __name__ == "__main__":
    if sys.argv[1] == "gen":
        gen(int(sys.argv[2]), sys.argv[3])
    else:
        cmp_()
