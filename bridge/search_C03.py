"""C03 numeric/exact harness on the IMPLEMENTATION (the property's "equivalently" clause).

For every corpus reaction generated in both formalisms (<base>_hel / <base>_can):
  * build CanonicalAmplitudeBuilder and HelicityAmplitudeBuilder models (no dynamics);
  * draw random complex (rational) values a_LS for the canonical coefficients;
  * the helicity coefficient the canonical model induces for a helicity chain h is
        v_h = sum over canonical chains c with the same topology+helicities of a_c * g_c,
    g_c = canonical component A_c with WignerD -> 1, coefficient -> 1, CG(...).doit()   (angle independent);
  * the helicity model writes chain h as f_h * C_sym(h) * D...; chains that share the symbol must
    require the same value:  v_h / f_h equal within each symbol        ("consistency")
  * with C_sym := v_h / f_h the helicity intensity must equal the canonical intensity at random
    helicity angles                                                     ("intensity")
  * direct form: two chains sharing a symbol that differ only by reversed daughter helicities at
    some nodes must have f_h1 / f_h2 = product of eta = P P1 P2 (-1)^(J-s1-s2) over exactly those
    nodes (eta from the particle table, not from qrules' parity_prefactor)   ("direct")
  * HISTORIES: one builder walked through naming-flag settings (all flags, both directions, several
    steps; setters between formulate() calls): the checks above on every model formulated on the
    way, and every such model must equal the model of a FRESH builder brought to the same flags
    (helicity and canonical builders)                                        ("history")
  * Clebsch-Gordan reflection (hypothesis CG_flip of the Coq Section) exactly against
    sympy CG(...).doit() for all j <= JMAX                                   ("cgflip")

Canonical LS alternatives that violate P = P1 P2 (-1)^L at a node which the helicity reaction
treats as parity conserving (corpus reactions generated with all interaction types contain weak
alternatives next to the strong one) are given coefficient 0: the property speaks of the same
parity-conserving interactions in both formalisms.

usage: search_C03.py <seed> <n>            n = number of coefficient draws over all reaction pairs
       search_C03.py --replay <json-file>
Last stdout line is JSON.
"""
from __future__ import annotations

import itertools
import json
import random
import sys
from fractions import Fraction

import common

import reactions  # noqa: E402

PRIORITY = ["jpsi_ksp1750", "etac_ll", "eta2_rhorho", "jpsi_geta2_rhorho", "lc_pkpi", "jpsi_ksp", "jpsi_ppbar", "jpsi_3pi", "jpsi_gpipi",
            "d0_kkk", "jpsi_gpipi_f2"]
HEL_FLAGS = [(False, True), (True, True), (False, False)]   # (insert_parent_helicities, insert_child_helicities)
TOL_DIGITS = 40
N_ANGLE_POINTS = 3


def pairs():
    have = set(reactions.names())
    return [b for b in PRIORITY if b + "_hel" in have and b + "_can" in have]


def two(x) -> int:
    f = Fraction(x) * 2
    assert f.denominator == 1
    return int(f)


def chain_key(t):
    return (repr(t.topology), tuple(sorted((i, s.particle.name, two(s.spin_projection)) for i, s in t.states.items())))


def eta_of(t, i):
    topo = t.topology
    (pin,) = list(topo.get_edge_ids_ingoing_to_node(i))
    a, b = list(topo.get_edge_ids_outgoing_from_node(i))
    P, A, B = (t.states[k].particle for k in (pin, a, b))
    e = two(P.spin) - two(A.spin) - two(B.spin)
    assert e % 2 == 0
    return int(P.parity) * int(A.parity) * int(B.parity) * (-1) ** ((e // 2) % 2)


def ls_conserves_parity(t, i) -> bool:
    """P = P1 P2 (-1)^L for the LS alternative of canonical transition t at node i"""
    topo = t.topology
    (pin,) = list(topo.get_edge_ids_ingoing_to_node(i))
    a, b = list(topo.get_edge_ids_outgoing_from_node(i))
    P, A, B = (t.states[k].particle for k in (pin, a, b))
    L = two(t.interactions[i].l_magnitude)
    return L % 2 == 0 and int(P.parity) == int(A.parity) * int(B.parity) * (-1) ** ((L // 2) % 2)


def strip(expr):
    """component -> (exact number with D, CG evaluated and coefficient := 1, coefficient symbols)"""
    import sympy as sp
    from sympy.physics.quantum.spin import WignerD

    e = expr.replace(lambda x: isinstance(x, WignerD), lambda x: sp.Integer(1))
    syms = sorted(e.free_symbols, key=str)
    e = e.xreplace({s: sp.Integer(1) for s in syms}).doit()
    return e, syms


_FRESH = {}


def set_flags(builder, fl):
    """fl = (parent, child[, ls]); ls only exists on the canonical generator"""
    builder.naming.insert_parent_helicities = fl[0]
    builder.naming.insert_child_helicities = fl[1]
    if len(fl) > 2 and hasattr(builder.naming, "insert_ls_combinations"):
        builder.naming.insert_ls_combinations = fl[2]


def fresh_model(rname, fl):
    """model of a NEW builder brought to the flags before its first formulate()"""
    import ampform

    key = (rname, tuple(fl))
    if key not in _FRESH:
        b = ampform.get_builder(reactions.load(rname))
        set_flags(b, fl)
        _FRESH[key] = b.formulate()
    return _FRESH[key]


def model_difference(m, ref):
    """first difference between two HelicityModels (components, coefficient symbols) or None"""
    if list(m.components) != list(ref.components) and set(m.components) != set(ref.components):
        d = sorted(set(m.components) ^ set(ref.components))
        return f"component names differ, e.g. {d[0]}"
    for k, e in m.components.items():
        if e != ref.components[k]:
            return f"component {k} is {e} but a fresh builder gives {ref.components[k]}"
    pa, pb = set(map(str, m.parameter_defaults)), set(map(str, ref.parameter_defaults))
    if pa != pb:
        d = sorted(pa ^ pb)
        return f"{len(pa)} parameters but a fresh builder has {len(pb)}, e.g. {d[0]}"
    if m.intensity != ref.intensity:
        return "intensity expression differs from a fresh builder's"
    return None


def walk_vs_fresh(rname, walk):
    """ONE builder walked through naming flags (setters), formulate() after every step; every model
    must equal the model of a fresh builder brought to the same flags."""
    import ampform

    b = ampform.get_builder(reactions.load(rname))
    n, fails = 0, []
    for k, fl in enumerate(walk):
        set_flags(b, fl)
        m = b.formulate()
        n += 1
        d = model_difference(m, fresh_model(rname, fl))
        if d is not None:
            fails.append({"signature": "history:model differs from a fresh builder's",
                          "what": f"{rname}: one builder walked through naming flags (parent, child[, ls]) {[list(x) for x in walk[:k + 1]]} with formulate() after "
                                  f"each step: the last model is not the one a fresh builder with the same flags gives: {d[:500]}",
                          "case": {"kind": "history_fresh", "base": rname, "walk": [list(x) for x in walk[:k + 1]]}})
            break
    return n, fails


class Pair:
    """Both models of one reaction, everything that does not depend on the coefficient draw."""

    def __init__(self, base: str, flags=(False, True), history=(), need_intensity=True, canonical=True):
        """history: naming-flag settings the SAME helicity builder goes through (formulate() after
        each) before it is set to `flags` and formulated for the last time."""
        import mpmath
        import sympy as sp

        import ampform

        self.base, self.flags = base, tuple(flags)
        self.history = [tuple(x) for x in history]
        mpmath.mp.dps = TOL_DIGITS + 10
        have = set(reactions.names())
        rh = reactions.load(base + "_hel")
        rc = reactions.load(base + "_can") if canonical and base + "_can" in have else None
        self.rh = rh
        bh = ampform.get_builder(rh)
        self.steps = []   # (flags, hel chains, groups) of every model formulated on the way
        self.fresh_fails = []
        for fl in [*self.history, self.flags]:
            bh.naming.insert_parent_helicities, bh.naming.insert_child_helicities = fl
            self.mh = bh.formulate()
            if self.history:
                d = model_difference(self.mh, fresh_model(base + "_hel", fl))
                if d is not None:
                    k = len(self.steps)
                    self.fresh_fails.append({"signature": "history:model differs from a fresh builder's",
                                             "what": f"{base}_hel: one builder walked through naming flags (parent, child) {[list(x) for x in [*self.history, self.flags][:k + 1]]} with "
                                                     f"formulate() after each step: the last model is not the one a fresh builder with the same flags gives: {d[:500]}",
                                             "case": {"kind": "history_fresh", "base": base + "_hel",
                                                      "walk": [list(x) for x in [*self.history, self.flags][:k + 1]]}})
            hel = []
            for t in rh.transitions:
                name = "A_{" + bh.naming.generate_amplitude_name(t) + "}"
                f, syms = strip(self.mh.components[name])
                assert len(syms) == 1 and f.is_Rational and f != 0, (name, syms, f)
                hel.append({"t": t, "name": name, "sym": syms[0], "f": Fraction(int(f.p), int(f.q)), "key": chain_key(t),
                            "hels": [[i, two(st.spin_projection)] for i, st in sorted(t.states.items())]})
            groups = {}
            for h in hel:
                groups.setdefault(h["sym"], []).append(h)
            self.steps.append((fl, hel, groups))
        self.bh = bh
        self.hel, self.groups = self.steps[-1][1], self.steps[-1][2]
        self._int = None
        self.need_intensity = need_intensity
        self.can, self.can_syms, self.violating, self.same_chains = {}, [], set(), False
        if rc is None:
            return
        bc = ampform.get_builder(rc)
        self.mc = bc.formulate()
        constrained = {h["key"]: [i for i in h["t"].topology.nodes if h["t"].interactions[i].parity_prefactor is not None]
                       for h in self.hel}
        # canonical chains grouped by helicity assignment
        self.can = {}
        self.can_syms = set()
        self.violating = set()   # LS coefficients that break parity at a node the helicity model constrains
        for t in rc.transitions:
            name = "A_{" + bc.naming.generate_amplitude_name(t) + "}"
            g, syms = strip(self.mc.components[name])
            assert len(syms) == 1, (name, syms)
            self.can_syms.add(syms[0])
            key = chain_key(t)
            self.can.setdefault(key, []).append((syms[0], mpmath.mpf(sp.N(g, TOL_DIGITS + 10)), name))
            for i in constrained.get(key, []):
                if not ls_conserves_parity(t, i):
                    self.violating.add(syms[0])
        self.same_chains = {h["key"] for h in self.hel} == set(self.can)
        self.can_syms = sorted(self.can_syms, key=str)

    # ---- direct form (independent of the coefficient draw)
    def direct(self):
        """all models formulated on the way (history steps and the final one)"""
        fails, n, skipped = [], 0, 0
        self.collapsed_mismatch = 0
        for k, (fl, hel, groups) in enumerate(self.steps):
            a, b, c = self._direct_one(fl, groups, self.history[:k])
            n += a
            skipped += b
            fails += c
        return n, skipped, fails

    def _direct_one(self, flags, groups, history):
        fails, n, skipped = [], 0, 0
        hist = f" (same builder formulated before with naming flags {[list(x) for x in history]})" if history else ""
        for sym, hs in groups.items():
            for h1, h2 in itertools.combinations(hs, 2):
                t1, t2 = h1["t"], h2["t"]
                if t1.topology != t2.topology:
                    skipped += 1
                    continue
                sign, reversal_only = 1, True
                for i in t1.topology.nodes:
                    ids = list(t1.topology.get_edge_ids_outgoing_from_node(i))
                    if any(t1.states[k].particle.name != t2.states[k].particle.name for k in ids):
                        reversal_only = False
                        break
                    l1 = [two(t1.states[k].spin_projection) for k in ids]
                    l2 = [two(t2.states[k].spin_projection) for k in ids]
                    if l1 == l2:
                        continue
                    if l2 == [-x for x in l1]:
                        sign *= eta_of(t1, i)
                    else:
                        reversal_only = False
                        break
                if not reversal_only:
                    skipped += 1   # they share the symbol for another reason (helicities not in the name)
                    continue
                n += 1
                if h1["f"] != sign * h2["f"] and not flags[1]:
                    # insert_child_helicities=False: the user asked for names without helicities, all
                    # helicity combinations of a decay collapse onto one symbol (not a parity-partner
                    # coupling; Coq: C03_no_coupling_without_child_helicities).  Informational only.
                    self.collapsed_mismatch += 1
                    continue
                if h1["f"] != sign * h2["f"]:
                    fails.append({"signature": "direct:shared-coefficient sign",
                                  "what": f"{self.base}{hist}: chains {h1['name']} and {h2['name']} (2*helicity per state id {h1['hels']} and {h2['hels']}) share {sym} "
                                          f"and differ by reversed daughter helicities; required relative sign {sign}, model has {h1['f']}/{h2['f']}",
                                  "case": {"kind": "direct", "base": self.base, "flags": list(flags), "history": [list(x) for x in history],
                                           "chains": [h1["name"], h2["name"]], "hels": [h1["hels"], h2["hels"]]}})
        return n, skipped, fails

    def _hist(self):
        return f" (same builder formulated before with naming flags {[list(x) for x in self.history]})" if self.history else ""

    # ---- consistency for one draw
    def induced(self, a):
        import mpmath

        out = {}
        for h in self.hel:
            v = mpmath.mpc(0)
            for sym, g, _ in self.can.get(h["key"], []):
                v += a[sym] * g
            out[h["name"]] = v / mpmath.mpf(h["f"].numerator) * h["f"].denominator
        return out

    def consistency(self, a, draw):
        import mpmath

        vals = self.induced(a)
        scale = max([abs(v) for v in vals.values()] + [mpmath.mpf(1)])
        fails, n = [], 0
        for sym, hs in self.groups.items():
            if len(hs) < 2:
                continue
            ref = hs[0]
            for h in hs[1:]:
                n += 1
                d = abs(vals[h["name"]] - vals[ref["name"]])
                if d > scale * mpmath.mpf(10) ** (-TOL_DIGITS + 10):
                    fails.append({"signature": "consistency:shared coefficient needs two values",
                                  "what": f"{self.base}{self._hist()}: {sym} is shared by {ref['name']} (factor {ref['f']}) and {h['name']} (factor {h['f']}) but the canonical "
                                          f"expansion requires {mpmath.nstr(vals[ref['name']], 12)} and {mpmath.nstr(vals[h['name']], 12)}",
                                  "case": {"kind": "consistency", "base": self.base, "flags": list(self.flags), "history": [list(x) for x in self.history], "draw": draw,
                                           "chains": [ref["name"], h["name"]]}})
                    break
        return n, fails, vals

    # ---- intensity
    def _lambdify(self):
        import sympy as sp

        if self._int is None:
            eh = self.mh.expression.doit()
            ec = self.mc.expression.doit()
            ph = sorted(self.mh.parameter_defaults, key=str)
            pc = sorted(self.mc.parameter_defaults, key=str)
            ang = sorted((eh.free_symbols | ec.free_symbols) - set(ph) - set(pc), key=str)
            fh = sp.lambdify([*ph, *ang], eh, "numpy", cse=True)
            fc = sp.lambdify([*pc, *ang], ec, "numpy", cse=True)
            self._int = (ph, pc, ang, fh, fc)
        return self._int

    def intensity(self, a, vals, rng, draw):
        ph, pc, ang, fh, fc = self._lambdify()
        cval = {}
        for sym, hs in self.groups.items():
            cval[sym] = complex(vals[hs[0]["name"]])
        fails = []
        for k in range(N_ANGLE_POINTS):
            pt = [rng.randint(-300, 300) / 100.0 for _ in ang]
            ih = complex(fh(*[cval[s] for s in ph], *pt))
            ic = complex(fc(*[complex(a[s]) for s in pc], *pt))
            if abs(ih - ic) > 1e-9 * max(1.0, abs(ic)):
                fails.append({"signature": "intensity:helicity != canonical",
                              "what": f"{self.base}{self._hist()}: helicity intensity {ih.real:.12g} != canonical intensity {ic.real:.12g} at angles "
                                      f"{dict(zip(map(str, ang), pt))} with the induced coefficients",
                              "case": {"kind": "intensity", "base": self.base, "flags": list(self.flags), "history": [list(x) for x in self.history], "draw": draw, "angle_seed_index": k}})
                break
        return N_ANGLE_POINTS, fails


def draw_coefficients(pair: Pair, draw):
    """draw = [seed, index]; values are Gaussian rationals with denominator 8, never 0"""
    import mpmath

    rng = random.Random(f"C03-{draw[0]}-{draw[1]}-{pair.base}")
    a = {}
    for s in pair.can_syms:
        re_, im_ = 0, 0
        while re_ == 0 and im_ == 0:
            re_, im_ = rng.randint(-16, 16), rng.randint(-16, 16)
        a[s] = mpmath.mpc(mpmath.mpf(re_) / 8, mpmath.mpf(im_) / 8)
        if s in pair.violating:   # "under the same parity-conserving interactions": that alternative is absent
            a[s] = mpmath.mpc(0)
    return a, rng


def cg_reflection(jmax2: int):
    """CG(j1,-m1,j2,-m2,J,-M) == (-1)^(j1+j2-J) CG(j1,m1,j2,m2,J,M), exactly, all j <= jmax2/2 (also unphysical M)"""
    import sympy as sp
    from sympy.physics.quantum.cg import CG

    n, fails = 0, []
    half = sp.Rational(1, 2)
    for j1, j2, J in itertools.product(range(jmax2 + 1), repeat=3):
        if (j1 + j2 - J) % 2:
            continue
        sgn = (-1) ** (((j1 + j2 - J) // 2) % 2)
        for m1 in range(-j1, j1 + 1, 2):
            for m2 in range(-j2, j2 + 1, 2):
                for M in {m1 + m2, m1 - m2}:
                    if abs(M) > J or (M - J) % 2:
                        continue
                    lhs = CG(j1 * half, -m1 * half, j2 * half, -m2 * half, J * half, -M * half).doit()
                    rhs = sgn * CG(j1 * half, m1 * half, j2 * half, m2 * half, J * half, M * half).doit()
                    n += 1
                    if sp.simplify(lhs - rhs) != 0:
                        fails.append({"signature": "cgflip:sympy CG reflection", "what": f"CG reflection fails for 2j={j1, m1, j2, m2, J, M}: {lhs} vs {rhs}",
                                      "case": {"kind": "cgflip", "args2": [j1, m1, j2, m2, J, M]}})
                        return n, fails
    return n, fails


def run(seed: int, n: int):
    common.assert_repo_import()
    bases = pairs()
    evaluations = distinct = 0
    samples, failures = [], []
    kinds = {"consistency_pairs": 0, "direct_pairs": 0, "direct_skipped_not_reversal": 0, "intensity_points": 0, "cgflip": 0,
             "draws": 0, "pairs_with_two_unlike_eta": 0}
    jmax2 = 6   # all j <= 3
    k, f = cg_reflection(jmax2)
    kinds["cgflip"] = k
    evaluations += k
    failures += f
    # budget: n draws spread over the pairs for the standard flags; the other flag sets get the
    # direct form everywhere and the full check on a few (quick) / all (thorough) pairs
    thorough = n >= 200
    per = max(1, n // max(1, len(bases)))
    n_int = 10 if thorough else 2
    cheap = {"etac_ll", "jpsi_ppbar", "jpsi_gpipi", "eta2_rhorho"}
    heavy = {"jpsi_geta2_rhorho", "lc_pkpi"}   # lambdifying their intensities takes 13-30 s: thorough only
    combos = [(b, fl) for fl in HEL_FLAGS for b in bases]
    for b, fl in combos:
        # child helicities in the names: the "equivalently" clause applies
        full = fl[1] and (fl == HEL_FLAGS[0] or thorough or b in cheap)
        pair = Pair(b, fl, canonical=full)
        nd, skipped, f = pair.direct()
        kinds["direct_pairs"] += nd
        kinds["direct_skipped_not_reversal"] += skipped
        kinds["name_collapse_sign_mismatch_informational"] = kinds.get("name_collapse_sign_mismatch_informational", 0) + pair.collapsed_mismatch
        evaluations += nd
        failures += f
        etas = {eta_of(h["t"], i) for h in pair.hel for i in h["t"].topology.nodes
                if h["t"].interactions[i].parity_prefactor is not None}
        if len(etas) > 1 and fl == HEL_FLAGS[0]:
            kinds["pairs_with_two_unlike_eta"] += 1
        if not full or not pair.same_chains:
            continue
        if fl != HEL_FLAGS[0] and not thorough and b not in cheap:
            continue
        kinds["ls_zeroed_parity_violating"] = kinds.get("ls_zeroed_parity_violating", 0) + len(pair.violating)
        for d in range(per if fl == HEL_FLAGS[0] else max(1, per // 4)):
            draw = [seed, d]
            a, rng = draw_coefficients(pair, draw)
            nc, f, vals = pair.consistency(a, draw)
            kinds["consistency_pairs"] += nc
            kinds["draws"] += 1
            evaluations += nc
            distinct += 1
            failures += f
            if not f and d < n_int and (thorough or b not in heavy):
                ni, f2 = pair.intensity(a, vals, rng, draw)
                kinds["intensity_points"] += ni
                evaluations += ni
                failures += f2
            if len(samples) < 8 and d == 0 and fl == HEL_FLAGS[0]:
                samples.append({"reaction": b, "flags": list(fl), "helicity_chains": len(pair.hel), "shared_symbols": sum(1 for g in pair.groups.values() if len(g) > 1),
                                "canonical_coefficients": len(pair.can_syms), "prefactors": sorted({str(h["f"]) for h in pair.hel})})
    # ---- HISTORIES: one builder walked through naming-flag settings, formulate() after every step,
    # ending in the standard flags; the property is checked on every model formulated on the way.
    # All helicity reactions of the corpus (also the ones without a canonical twin, e.g. the same
    # resonance twice: chic0_omegaomega_hel) get the direct form; the twins also the induced-coefficient check.
    hrng = random.Random(f"C03-hist-{seed}")
    all_flags = [(False, True), (True, True), (False, False), (True, False)]
    hel_bases = [nm[:-4] for nm in reactions.names() if nm.endswith("_hel")]
    hel_bases.sort(key=lambda b: (b not in ("chic0_omegaomega", "jpsi_ksp1750"), b))
    n_walks = 4 if thorough else 2
    twins = set(bases)
    for b in hel_bases:
        for w in range(-1 if b not in twins else 0, n_walks):
            if w == -1:
                history = []                      # fresh builder (reactions without a canonical twin)
            elif w == 0:
                history = [(True, True)]          # 'no sharing first'
            elif w == 1:
                history = [(False, True), (True, True), (False, False)]   # sharing first, then flags that remove it
            else:
                history = [hrng.choice(all_flags) for _ in range(hrng.randint(2, 4))]
            pair = Pair(b, HEL_FLAGS[0], history=history, canonical=thorough or b in cheap or b == "jpsi_ksp1750")
            nd, skipped, f = pair.direct()
            f = f + pair.fresh_fails
            kinds["history_vs_fresh_models"] = kinds.get("history_vs_fresh_models", 0) + (len(pair.steps) if history else 0)
            evaluations += len(pair.steps) if history else 0
            kinds["history_models"] = kinds.get("history_models", 0) + len(pair.steps)
            kinds["history_direct_pairs"] = kinds.get("history_direct_pairs", 0) + nd
            evaluations += nd
            distinct += nd
            failures += f
            if not pair.same_chains:
                continue
            if not thorough and b not in cheap and b != "jpsi_ksp1750":
                continue
            for d in range(per if thorough else 1):
                draw = [seed, 1000 + d]
                a, rng = draw_coefficients(pair, draw)
                nc, f, vals = pair.consistency(a, draw)
                kinds["history_consistency_pairs"] = kinds.get("history_consistency_pairs", 0) + nc
                evaluations += nc
                distinct += 1
                failures += f
                if not f and d < 2 and (thorough or b in cheap):
                    ni, f2 = pair.intensity(a, vals, rng, draw)
                    kinds["intensity_points"] += ni
                    evaluations += ni
                    failures += f2
    # canonical builders: all three flags, both directions, compared with fresh builders step by step
    can_names = [nm for nm in reactions.names() if nm.endswith("_can")]
    can_pool = [(a, b_, c) for a in (False, True) for b_ in (False, True) for c in (False, True)]
    for nm in can_names:
        walks = [[(False, False, True), (False, True, False), (True, True, False), (False, True, True), (False, False, True)]]
        if not thorough and len(reactions.load(nm).transitions) > 80:   # quick: shorter walk for the big ones
            walks = [[(False, True, False), (True, True, False), (False, False, True)]]
        if thorough:
            walks += [[hrng.choice(can_pool) for _ in range(hrng.randint(3, 5))] for _ in range(2)]
        for walk in walks:
            k, f = walk_vs_fresh(nm, walk)
            kinds["history_vs_fresh_models"] = kinds.get("history_vs_fresh_models", 0) + k
            evaluations += k
            distinct += k
            failures += f
    distinct += kinds["direct_pairs"] + kinds["cgflip"]
    # one failure per signature+base is enough
    seen, uniq = set(), []
    failures.sort(key=lambda f: f["signature"].startswith("history:"))   # sign violations first (stable)
    for f in failures:
        key = (f["signature"], f["case"].get("base"))
        if key not in seen:
            seen.add(key)
            uniq.append(f)
    print(json.dumps({"evaluations": evaluations, "distinct": distinct, "samples": samples, "kinds": kinds, "failures": uniq[:10]}))


def replay(path: str):
    doc = json.load(open(path))
    case = doc["replay"]["case"]
    kind = case["kind"]
    still = False
    if kind == "cgflip":
        _, f = cg_reflection(max(abs(x) for x in case["args2"]))
        still = bool(f)
    elif kind == "history_fresh":
        _, f = walk_vs_fresh(case["base"], [tuple(x) for x in case["walk"]])
        still = bool(f)
    else:
        pair = Pair(case["base"], tuple(case["flags"]), history=case.get("history", []))
        if kind == "direct":
            _, _, f = pair.direct()
            still = any(set(x["case"]["chains"]) == set(case["chains"]) and x["case"]["flags"] == case["flags"]
                        and ("hels" not in case or x["case"]["hels"] == case["hels"]) for x in f)
        else:
            a, rng = draw_coefficients(pair, case["draw"])
            _, f, vals = pair.consistency(a, case["draw"])
            if kind == "consistency":
                still = bool(f)
            else:
                _, f2 = pair.intensity(a, vals, rng, case["draw"])
                still = bool(f) or bool(f2)
    print(json.dumps({"still_fails": still}))


if __name__ == "__main__":
    if sys.argv[1] == "--replay":
        replay(sys.argv[2])
    else:
        run(int(sys.argv[1]), int(sys.argv[2]))
