"""Shared helpers of the C17 bridge scripts (corr_C17.py, search_C17.py).

* model zoo: corpus reactions x configurations, built once per process;
* structural serialiser with a class registry (so that a tree printed by Coq can be rebuilt
  into a SymPy object with `cls(*args)`, which is what Basic.xreplace does);
* parser of Coq's printed `expr` / `model` values;
* random rename maps of each kind of the property's quantifier.
"""
from __future__ import annotations

import dataclasses
import fractions
import hashlib
import re

import common  # noqa: F401
import reactions
import ser
import sympy as sp

common.assert_repo_import()
import ampform  # noqa: E402
from ampform.dynamics.builder import create_relativistic_breit_wigner_with_ff  # noqa: E402
from ampform.helicity.align.axisangle import AxisAngleAlignment  # noqa: E402
from ampform.helicity.align.dpd import DalitzPlotDecomposition, relabel_edge_ids  # noqa: E402

# name -> (reaction, configuration); small models (few amplitudes) first
ZOO = {
    "etac_ll_hel": ("etac_ll_hel", ""),
    "pipi2_hel": ("jpsi_pipi_2body_hel", ""),
    "gpipi_hel": ("jpsi_gpipi_hel", ""),
    # scalar_initial_state_mass=True, no alignment, default dynamics: the parent mass m_012 is a
    # parameter that occurs ONLY in parameter_defaults
    "gpipi_hel_sism": ("jpsi_gpipi_hel", "sism"),
    "gpipi_hel_bw": ("jpsi_gpipi_hel", "bw"),
    "gpipi_can_bw": ("jpsi_gpipi_can", "bw"),
    "d0kkk_hel_bw": ("d0_kkk_hel", "bw"),
    "d0kkk_hel_dpd": ("d0_kkk_hel", "dpd"),
    "d0kkk_hel_axis": ("d0_kkk_hel", "axis"),
    "psi2s_hel_bw": ("psi2s_jpsipipi_hel", "bw"),
    "gpipi_f2_hel": ("jpsi_gpipi_f2_hel", "bw"),
    "3pi_hel_bw": ("jpsi_3pi_hel", "bw"),
    "3pi_hel_dpd": ("jpsi_3pi_hel", "dpd"),
    "lc_pkpi_hel_dpd": ("lc_pkpi_hel", "dpd"),
    "lc_pkpi_can": ("lc_pkpi_can", "bw"),
    "ppbar_can": ("jpsi_ppbar_can", ""),
    "gkk_hel": ("jpsi_gkk_hel", "bw"),
}
QUICK_ZOO = ["etac_ll_hel", "pipi2_hel", "gpipi_hel", "gpipi_hel_sism", "gpipi_hel_bw", "gpipi_can_bw", "d0kkk_hel_bw",
             "d0kkk_hel_dpd", "d0kkk_hel_axis", "psi2s_hel_bw"]

_MODELS: dict = {}


def build(name: str):
    if name in _MODELS:
        return _MODELS[name]
    rname, conf = ZOO[name]
    reaction = reactions.load(rname)
    builder = ampform.get_builder(reaction)
    flags = set(conf.split(","))
    if "dpd" in flags:
        reaction = relabel_edge_ids(reaction)
        builder = ampform.get_builder(reaction)
        builder.config.spin_alignment = DalitzPlotDecomposition(reference_subsystem=1)
        builder.config.scalar_initial_state_mass = True
        builder.config.stable_final_state_ids = [1, 2, 3]
    if "sism" in flags:
        builder.config.scalar_initial_state_mass = True
    if "axis" in flags:
        builder.config.spin_alignment = AxisAngleAlignment()
    if "bw" in flags:
        for p in reaction.get_intermediate_particles().names:
            builder.dynamics.assign(p, create_relativistic_breit_wigner_with_ff)
    _MODELS[name] = builder.formulate()
    return _MODELS[name]


# ---------------------------------------------------------------- serialisation
class Registry:
    """head string -> how to rebuild a node with that head."""

    def __init__(self):
        self.cls: dict[str, tuple] = {}
        self.atoms: dict[str, object] = {}
        self.lossy: list[str] = []


INV_HEADS = {v: k for k, v in ser.HEADS.items()}
CONST = {"HI": sp.I, "HPi": sp.pi, "HNaN": sp.nan, "HInf": sp.oo, "HNegInf": -sp.oo, "HZoo": sp.zoo,
         "HTrue": sp.true, "HFalse": sp.false}


# The assumption suffix of ser.sym_name(s, assum=True) ("|k1=1,k2=0,...", ~200 characters) is
# abbreviated to "|<n>" by a process-wide bijective table: Coq's string literals are slow to
# parse, and the model only uses the suffix as an opaque identity.
ASSUM_CODE: dict[str, str] = {}
ASSUM_TEXT: dict[str, str] = {}


def sym_str(s: sp.Symbol) -> str:
    full = ser.sym_name(s, True)
    name, bar, assum = full.partition("|")
    if not bar:
        return full
    code = ASSUM_CODE.get(assum)
    if code is None:
        code = str(len(ASSUM_CODE) + 1)
        ASSUM_CODE[assum] = code
        ASSUM_TEXT[code] = assum
    return name + "|" + code


def ser17(e, reg: Registry) -> str:
    """bridge/ser.py in structural mode (assum=True, atomic_indexed=False), recording classes."""
    if isinstance(e, sp.Symbol):
        if "|" in e.name:
            raise ser.SerError("symbol name with '|'")
        return f"(Sym {ser.coq_string(sym_str(e))})"
    if isinstance(e, sp.Float):
        raise ser.SerError("Float leaf (not rebuilt exactly)")
    if isinstance(e, (sp.Integer, sp.Rational)) or e in (sp.I, sp.pi, sp.nan, sp.oo, -sp.oo, sp.zoo) \
            or e in (sp.true, sp.false):
        return ser.ser(e, True, False)
    if isinstance(e, sp.Piecewise):
        raise ser.SerError("Piecewise")
    if not isinstance(e, sp.Basic):
        raise ser.SerError(f"non-SymPy leaf {type(e)}")
    if isinstance(e, sp.Indexed):
        head, hkey = "HIndexed", "HIndexed"
    else:
        h = ser.HEADS.get(type(e))
        if h is not None:
            head = hkey = h
        else:
            hkey = type(e).__name__ + ser.attr_suffix(e)
            head = f"(HOther {ser.coq_string(hkey)})"
    if not e.args:
        old = reg.atoms.setdefault(hkey, e)
        if old != e:
            reg.lossy.append(hkey)
            raise ser.SerError(f"two different atoms serialise as {hkey}")
    else:
        kw = {}
        if dataclasses.is_dataclass(e):
            for f in dataclasses.fields(e):
                if f.metadata.get("sympify", True) is False:
                    kw[f.name] = getattr(e, f.name)
        reg.cls.setdefault(hkey, (e.func, kw))
    return f"(App {head} [" + "; ".join(ser17(a, reg) for a in e.args) + "])"


def parse_sym(s: str) -> sp.Symbol:
    name, _, assum = s.partition("|")
    kw = {}
    if assum:
        for item in ASSUM_TEXT[assum].split(","):
            k, v = item.split("=")
            kw[k] = bool(int(v))
    return sp.Symbol(name, **kw)


def deser(t, reg: Registry):
    """Rebuild a SymPy object from a parsed tree with cls(*args) (as Basic.xreplace does)."""
    kind = t[0]
    if kind == "S":
        return parse_sym(t[1])
    if kind == "N":
        return sp.Rational(t[1].numerator, t[1].denominator)
    _, h, args = t
    if h in CONST and not args:
        return CONST[h]
    if not args:
        return reg.atoms[h]
    a = [deser(x, reg) for x in args]
    if h == "HIndexed":
        return sp.Indexed(*a)
    if h in INV_HEADS:
        return INV_HEADS[h](*a)
    cls, kw = reg.cls[h]
    return cls(*a, **kw)


# ---------------------------------------------------------------- parser of Coq output
TOK = re.compile(r'\s*(\{\||\|\}|:=|[\[\]();,#]|"(?:[^"]|"")*"|-?\d+(?:%[A-Za-z]+)?|[A-Za-z_][A-Za-z_0-9\']*)')


def tokenize(s: str) -> list[str]:
    out, pos = [], 0
    s = s.strip()
    while pos < len(s):
        m = TOK.match(s, pos)
        if not m:
            raise ValueError(f"cannot tokenize at {s[pos:pos + 40]!r}")
        tok = m.group(1)
        if "%" in tok and not tok.startswith('"'):
            tok = tok.split("%")[0]
        out.append(tok)
        pos = m.end()
    return out


class P:
    def __init__(self, toks):
        self.t, self.i = toks, 0

    def peek(self):
        return self.t[self.i] if self.i < len(self.t) else None

    def eat(self, x=None):
        tok = self.t[self.i]
        if x is not None and tok != x:
            raise ValueError(f"expected {x} got {tok} at {self.i}")
        self.i += 1
        return tok

    def string(self):
        tok = self.eat()
        if not tok.startswith('"'):
            raise ValueError(f"string expected, got {tok}")
        return tok[1:-1].replace('""', '"')

    def value(self):
        """Generic value: string | list | tuple/parenthesised | expr | record."""
        tok = self.peek()
        if tok.startswith('"'):
            return self.string()
        if tok == "[":
            self.eat()
            xs = []
            while self.peek() != "]":
                xs.append(self.value())
                if self.peek() == ";":
                    self.eat()
            self.eat("]")
            return xs
        if tok == "(":
            self.eat()
            xs = [self.value()]
            while self.peek() == ",":
                self.eat()
                xs.append(self.value())
            self.eat(")")
            return xs[0] if len(xs) == 1 else tuple(xs)
        if tok == "{|":
            self.eat()
            rec = {}
            while self.peek() != "|}":
                k = self.eat()
                self.eat(":=")
                rec[k] = self.value()
                if self.peek() == ";":
                    self.eat()
            self.eat("|}")
            return rec
        if tok == "Sym":
            self.eat()
            return ("S", self.string())
        if tok == "Num":
            self.eat()
            return ("N", self.num())
        if tok == "App":
            self.eat()
            h = self.head()
            args = self.value()
            return ("A", h, args)
        if re.fullmatch(r"-?\d+", tok):
            self.eat()
            return int(tok)
        if tok in ("true", "false"):
            self.eat()
            return tok
        raise ValueError(f"unexpected token {tok}")

    def head(self):
        tok = self.eat()
        if tok == "(":
            self.eat("HOther")
            s = self.string()
            self.eat(")")
            return s
        return tok

    def num(self):
        tok = self.eat()
        if tok == "(":
            if self.peek() == "(":
                self.eat()
                n = int(self.eat())
                self.eat(")")
            else:
                n = int(self.eat())
            d = 1
            if self.peek() == "#":
                self.eat()
                d = int(self.eat())
            self.eat(")")
            return fractions.Fraction(n, d)
        return fractions.Fraction(int(tok))


def parse_value(s: str):
    p = P(tokenize(s))
    v = p.value()
    if p.i != len(p.t):
        raise ValueError("trailing tokens")
    return v


# ---------------------------------------------------------------- model helpers
def model_digest(m) -> str:
    h = hashlib.sha256()
    h.update(sp.srepr(m.intensity).encode())
    for k, v in m.amplitudes.items():
        h.update(sp.srepr(k).encode() + sp.srepr(v).encode())
    for k, v in m.parameter_defaults.items():
        h.update(sp.srepr(k).encode() + repr(v).encode())
    for k, v in m.kinematic_variables.items():
        h.update(sp.srepr(k).encode() + sp.srepr(v).encode())
    for k, v in m.components.items():
        h.update(k.encode() + sp.srepr(v).encode())
    return h.hexdigest()


def unfold_intensity(m):
    """unfold_poolsums(intensity.evaluate()) computed by the implementation's own property
    (`expression` of the same model without amplitude definitions)."""
    import attrs

    return attrs.evolve(m, amplitudes={}).expression


def collected_symbols(m) -> set:
    s = set(m.expression.free_symbols) | set(m.kinematic_variables)
    for v in m.kinematic_variables.values():
        s |= v.free_symbols
    s |= {p for p in m.parameter_defaults if isinstance(p, sp.Symbol)}
    return s


def all_symbols(m) -> set:
    """Every sp.Symbol occurring anywhere in the five attributes (bound or not)."""
    out = set()
    trees = [m.intensity, *m.amplitudes, *m.amplitudes.values(), *m.parameter_defaults,
             *m.kinematic_variables, *m.kinematic_variables.values(), *m.components.values()]
    for t in trees:
        out |= t.atoms(sp.Symbol)
    return out


# ---------------------------------------------------------------- rename maps
KINDS = ["injective", "par_merge", "chain", "swap", "kinvar", "momentum", "fresh_all", "empty", "unknown",
         "mixed_unknown", "dup_pairs", "merge_kin_par", "merge_kin_kin", "assum_clash", "to_label"]


def fresh(rng, taken: set, i: int) -> str:
    pool = ["x", "g_{%d}", "m_{R%d}", "\\alpha_%d", "w%d", "Gamma(%d)", "z_%d^{12}", "b 1%d"]
    while True:
        pat = rng.choice(pool)
        n = pat % rng.randint(0, 30) if "%" in pat else pat + str(rng.randint(0, 99))
        if n not in taken:
            taken.add(n)
            return n


def gen_map(rng, m, kind: str):
    """-> (renames as list of pairs or dict-like list, pass_as) ; pass_as in {"dict","pairs"}."""
    col = collected_symbols(m)
    pars = [s for s in m.parameter_defaults if isinstance(s, sp.Symbol) and s in col]
    kins = list(m.kinematic_variables)
    kinset = set(kins)
    free_other = sorted((s for s in col if s not in kinset and s not in set(pars)), key=lambda s: s.name)
    names = {s.name for s in all_symbols(m)}
    taken = set(names)
    pick = lambda xs, k: rng.sample(xs, min(k, len(xs)))  # noqa: E731
    if kind == "empty":
        return [], rng.choice(["dict", "pairs"])
    if kind == "injective":
        xs = pick(sorted(col, key=lambda s: s.name), rng.randint(1, 5))
        return [(s.name, fresh(rng, taken, 0)) for s in xs], "dict"
    if kind == "fresh_all":
        xs = sorted({s.name for s in col})
        return [(n, fresh(rng, taken, 0)) for n in xs], "dict"
    if kind == "par_merge":
        xs = pick(pars, rng.randint(2, 3))
        if len(xs) < 2:
            return None
        tgt = fresh(rng, taken, 0) if rng.random() < 0.5 else xs[0].name
        return [(s.name, tgt) for s in xs if s.name != tgt], "dict"
    if kind == "chain":
        xs = pick(pars, 3)
        if len(xs) < 2:
            return None
        if len(xs) == 3 and rng.random() < 0.5:
            return [(xs[0].name, xs[1].name), (xs[1].name, xs[2].name)], "dict"
        return [(xs[0].name, xs[1].name)], "dict"
    if kind == "swap":
        pool = pars if (rng.random() < 0.6 and len(pars) >= 2) else kins
        xs = pick(pool, rng.choice([2, 2, 3]))
        if len(xs) < 2:
            return None
        return [(xs[i].name, xs[(i + 1) % len(xs)].name) for i in range(len(xs))], "dict"
    if kind == "kinvar":
        xs = pick(kins, rng.randint(1, 3))
        return [(s.name, fresh(rng, taken, 0)) for s in xs], "dict"
    if kind == "momentum":
        xs = pick([s for s in free_other if re.fullmatch(r"p\d+", s.name)], rng.randint(1, 2))
        if not xs:
            return None
        return [(s.name, fresh(rng, taken, 0)) for s in xs], "dict"
    if kind == "unknown":
        return [(fresh(rng, taken, 0), fresh(rng, taken, 0)) for _ in range(rng.randint(1, 3))], "dict"
    if kind == "mixed_unknown":
        xs = pick(sorted(col, key=lambda s: s.name), 2)
        out = [(s.name, fresh(rng, taken, 0)) for s in xs] + [(fresh(rng, taken, 0), fresh(rng, taken, 0))]
        rng.shuffle(out)
        return out, "dict"
    if kind == "dup_pairs":
        xs = pick(pars or sorted(col, key=lambda s: s.name), 2)
        a = xs[0].name
        return [(a, fresh(rng, taken, 0)), (xs[-1].name, fresh(rng, taken, 0)), (a, fresh(rng, taken, 0))], "pairs"
    if kind == "merge_kin_par":
        if not pars or not kins:
            return None
        same = [(k, p) for k in kins for p in pars if k.assumptions0 == p.assumptions0]
        k, p = rng.choice(same) if same and rng.random() < 0.8 else (rng.choice(kins), rng.choice(pars))
        return rng.choice([[(k.name, p.name)], [(p.name, k.name)]]), "dict"
    if kind == "merge_kin_kin":
        xs = pick(kins, 2)
        if len(xs) < 2:
            return None
        if rng.random() < 0.5:
            return [(xs[0].name, xs[1].name)], "dict"
        t = fresh(rng, taken, 0)
        return [(xs[0].name, t), (xs[1].name, t)], "dict"
    if kind == "assum_clash":
        # a parameter takes the NAME of a symbol with other assumptions: two symbols, one name
        cands = [(p, s) for p in pars for s in col if s.assumptions0 != p.assumptions0]
        if not cands:
            return None
        p, s = rng.choice(cands)
        return [(p.name, s.name)], "dict"
    if kind == "to_label":
        # a symbol takes the name of an amplitude base label / of a summation index
        private = sorted({s.name for s in all_symbols(m) if s not in col})
        if not private or not pars:
            return None
        return [(rng.choice(pars).name, rng.choice(private))], "dict"
    raise ValueError(kind)


def apply_impl(m, pairs, pass_as):
    arg = dict(pairs) if pass_as == "dict" else list(pairs)
    return m.rename_symbols(arg)


def name_map(pairs) -> dict:
    return dict(pairs)


def classify_merge(m, pairs):
    """Which of the excluded identifications does the map make (on symbols = name+assumptions)?"""
    r = name_map(pairs)
    col = collected_symbols(m)

    def img(s):
        return sp.Symbol(r[s.name], **s.assumptions0) if (s in col and s.name in r) else s

    pars = [s for s in m.parameter_defaults if isinstance(s, sp.Symbol)]
    kins = list(m.kinematic_variables)
    kin_par = any(img(k) == img(p) for k in kins for p in pars if k != p)
    kin_kin = any(img(a) == img(b) for i, a in enumerate(kins) for b in kins[i + 1:])
    return kin_par, kin_kin


# ---------------------------------------------------------------- independence (object identity)
def independence(cur, nxt, pairs, pass_as, rng):
    """The renamed model must be a value independent of the one it was made from: no mutable
    container is shared, and writing a parameter default (by symbol, name or index) on either
    model leaves the other — and a fresh re-rename of the original — unchanged.  Rename.v is
    purely functional, so this can only be checked here.  The empty map is excluded (the method
    returns self by design).  Every write is undone (zoo models are shared in-process).
    -> list of (signature, what)"""
    if not dict(pairs) or nxt is cur:
        return []
    fails = []
    for attr in ("parameter_defaults", "amplitudes", "kinematic_variables", "components"):
        if getattr(nxt, attr) is getattr(cur, attr):
            fails.append((f"{attr}_aliased", f"renamed.{attr} is original.{attr} (same object) after {pairs}"))
    for writer, reader, wname in ((nxt, cur, "renamed"), (cur, nxt, "original")):
        pd = writer.parameter_defaults
        keys = list(pd)
        if not keys:
            continue
        i = rng.randrange(len(keys))
        key = keys[i]
        how = rng.choice(["symbol", "name", "index"])
        if how == "name":  # two parameters may print alike (same name, other assumptions): the first one is hit
            key = next(k for k in keys if str(k) == str(key))
            i = keys.index(key)
        handle = {"symbol": key, "name": str(key), "index": i}[how]
        before_reader = [(k, v) for k, v in reader.parameter_defaults.items()]
        before_writer = [(k, v) for k, v in pd.items()]
        old = pd[key]
        try:
            try:
                pd[handle] = old + 1.25
            except Exception as ex:  # noqa: BLE001
                fails.append(("parameter_setitem_failed", f"{type(ex).__name__} setting by {how}"))
                continue
            after_reader = [(k, v) for k, v in reader.parameter_defaults.items()]
            if after_reader != before_reader:
                fails.append(("parameter_write_leaks",
                              f"setting {wname}.parameter_defaults[{how}] changed the other model's defaults "
                              f"(map {pairs})"))
            if writer is nxt:
                again = apply_impl(cur, pairs, pass_as)
                if [(k, v) for k, v in again.parameter_defaults.items()] != before_writer:
                    fails.append(("parameter_write_leaks",
                                  f"a re-rename of the original sees the value written into the renamed model "
                                  f"(map {pairs})"))
        finally:
            pd[key] = old
    return fails


# ---------------------------------------------------------------- fixed regression cases
FLOAT_LIKE = ["inf", "nan", "Infinity", "1e5", "-3"]


def fixed_cases():
    """Cases run on every check, whatever the seed:
    * a parameter that occurs only in parameter_defaults (m_012 of gpipi_hel_sism) is renamed
      (fixed in /repo by 27f526d; signature parameters_not_rekeyed if it comes back);
    * parameters and kinematic variables renamed to names that float() parses or that look
      numeric (fixed by 649cd37; signature rename_to_float_like_name_raises on an exception)."""
    name = "gpipi_hel_sism"
    m = build(name)
    only = [p for p in m.parameter_defaults
            if isinstance(p, sp.Symbol) and p not in m.expression.free_symbols and p not in m.kinematic_variables]
    par = [p for p in m.parameter_defaults if p in m.expression.free_symbols][0].name
    kin = "m_12"
    cases = []
    for p in only[:1]:
        cases.append({"model": name, "numeric": True, "rng": 1, "steps": [
            {"kind": "par_only", "pairs": [[p.name, "M_{parent}"]], "pass_as": "dict"},
            {"kind": "par_only", "pairs": [["M_{parent}", par], [par, "M_{parent}"]], "pass_as": "dict"}]})
        cases.append({"model": name, "numeric": True, "rng": 2, "steps": [
            {"kind": "par_only", "pairs": [[kin, "q"], [p.name, "Mp"], ["nope", "x"]], "pass_as": "pairs"}]})
    for i, t in enumerate(FLOAT_LIKE):
        cases.append({"model": name, "numeric": True, "rng": 10 + i, "exc_signature": "rename_to_float_like_name_raises",
                      "steps": [{"kind": "float_like", "pairs": [[par, t]], "pass_as": "dict"},
                                {"kind": "float_like", "pairs": [[t, "w_" + str(i)], ["theta_0", t]], "pass_as": "dict"}]})
        cases.append({"model": name, "numeric": True, "rng": 20 + i, "exc_signature": "rename_to_float_like_name_raises",
                      "steps": [{"kind": "float_like", "pairs": [[kin, t]], "pass_as": "dict"},
                                {"kind": "float_like", "pairs": [["phi_0", FLOAT_LIKE[(i + 1) % 5]]], "pass_as": "dict"}]})
    return cases


# ---------------------------------------------------------------- equality up to SymPy's evaluation order
def same_value(e1, e2, rng, tries=60, need=4, rtol=1e-8):
    """e1 and e2 are two SymPy forms of what should be ONE expression, built along different
    routes (xreplace of the unfolded expression vs unfolding of the xreplaced attributes).
    SymPy's automatic evaluation is not confluent (a merge like m_12 := m_R makes s - m_R**2
    cancel, after which a sign ends up inside or outside a Mul depending on the route), so
    structural inequality alone proves nothing.  Decide by value: same free symbols and equal
    values (relative 1e-8; the operations are the same up to re-association) at `need` random
    points where both are finite.  -> True / False / None (undecided: no finite point found)."""
    import numpy as np

    if e1 == e2:
        return True
    d1, d2 = e1.doit(), e2.doit()
    if d1 == d2:
        return True
    args = sorted(d1.free_symbols | d2.free_symbols, key=lambda s: (s.name, str(sorted(s.assumptions0.items()))))
    if not all(isinstance(s, sp.Symbol) for s in args):
        return None
    f1 = sp.lambdify(args, d1, "numpy", cse=True, dummify=True)
    f2 = sp.lambdify(args, d2, "numpy", cse=True, dummify=True)
    good = 0
    for _ in range(tries):
        vals = [np.float64(rng.uniform(0.3, 2.5)) for _ in args]
        try:
            v1, v2 = complex(f1(*vals)), complex(f2(*vals))
        except (ZeroDivisionError, FloatingPointError, OverflowError):
            continue
        if not (np.isfinite(v1) and np.isfinite(v2)):
            if np.isfinite(v1) != np.isfinite(v2):
                return False
            continue
        if abs(v1 - v2) > rtol * max(abs(v1), abs(v2), 1e-300):
            return False
        good += 1
        if good >= need:
            return True
    return None
