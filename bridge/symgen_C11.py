"""C11 model regeneration: phase-space factor variants after doit(); ComplexSqrt is replaced by its
get_definition() (that is what its NumPy printer emits - asserted below)."""
import sys

import common  # noqa: F401
import sympy as sp
from ser import write_gen
from sympy.printing.numpy import NumPyPrinter

common.assert_repo_import()
from ampform.dynamics.phasespace import (  # noqa: E402
    BreakupMomentumSquared,
    EqualMassPhaseSpaceFactor,
    PhaseSpaceFactor,
    PhaseSpaceFactorAbs,
    PhaseSpaceFactorComplex,
    PhaseSpaceFactorSWave,
)
from ampform.sympy.math import ComplexSqrt  # noqa: E402

out = sys.argv[1]
s, m1, m2, m, x = sp.symbols("s m1 m2 m x")
pr = NumPyPrinter()
assert pr.doprint(ComplexSqrt(x)) == pr.doprint(ComplexSqrt(x).get_definition()), "ComplexSqrt numpy printing changed"


def unfold(e):
    e = e.doit()
    return e.replace(lambda t: isinstance(t, ComplexSqrt), lambda t: t.get_definition())


defs = {
    "gen_q2": unfold(BreakupMomentumSquared(s, m1, m2)),
    "gen_psf": unfold(PhaseSpaceFactor(s, m1, m2)),
    "gen_abs": unfold(PhaseSpaceFactorAbs(s, m1, m2)),
    "gen_cpx": unfold(PhaseSpaceFactorComplex(s, m1, m2)),
    "gen_swave": unfold(PhaseSpaceFactorSWave(s, m1, m2)),
    "gen_eqm": unfold(EqualMassPhaseSpaceFactor(s, m1, m2)),
    "gen_swave_eq": unfold(PhaseSpaceFactorSWave(s, m, m)),
    "gen_eqm_eq": unfold(EqualMassPhaseSpaceFactor(s, m, m)),
    "gen_csqrt": ComplexSqrt(x).get_definition(),
}
write_gen(out, "bridge/symgen_C11.py", defs)
print("ok", {k: len(str(v)) for k, v in defs.items()})
