"""C09 numeric harness on the IMPLEMENTATION (exploration + failing-input search).

For random real parameter points above all thresholds and away from the poles it evaluates
  * the library's pole parametrisation K_ij (Sum(...).doit() with concrete n_poles) and compares it
    with an oracle written from the documentation formula  K_ij = sum_{R=1}^{n_R} g_Ri g_Rj/(m_R^2-s),
  * the library's T-matrix  formulate(n, n_R, parametrize=False)  at (K, rho) and compares it with
    numpy's  K (1-iK)^-1  /  sqrt(rho)^* Khat (1 - i rho Khat)^-1 sqrt(rho),
  * || S^dagger S - 1 ||, || T - T^T ||  for S = 1 + 2iT,
  * formulate(..., parametrize=True) (the substituted result) against the two-stage evaluation, and its unitarity,
  * configurations with a pole BELOW the pseudo-threshold (ma-mb)^2 of an unequal-mass channel: rho(m_R^2) is real
    positive there for all three variants, so every check is a hard obligation; rho(m_R^2) itself is compared with
    sqrt((x-(ma+mb)^2)(x-(ma-mb)^2))/x (i times it inside the gap for PhaseSpaceFactor/Complex),
  * configurations with a pole in the GAP (ma-mb)^2 < m_R^2 < (ma+mb)^2: PhaseSpaceFactorAbs with L = 0 must stay unitary;
    PhaseSpaceFactor / PhaseSpaceFactorComplex are not (imaginary rho(m_R^2) in the width normalisation):
    reported under the single signature kmatrix_subthreshold_pole_not_unitary, and only if T is symmetric, all
    differential checks pass and the same configuration with the poles moved above threshold is unitary.

  * HISTORIES in one process: RelativisticKMatrix.formulate(phsp_factor=f1) then (phsp_factor=f2) with f1, f2 plain
    functions of the same qualified name (closures of one factory, lambdas of one comprehension) and identical
    remaining arguments: every width of each result carries the caller's callable (identity), only the caller's
    phase-space class occurs after unfolding the widths, and the second result passes all numeric checks.

usage: search_C09.py <seed> <n> | --replay <file>
"""
import json
import os
import random
import sys

import common  # noqa: F401
import lib_C09
import numpy as np
import sympy as sp

common.assert_repo_import()
from ampform.dynamics import EnergyDependentWidth  # noqa: E402
from ampform.dynamics.kmatrix import NonRelativisticKMatrix, RelativisticKMatrix  # noqa: E402
from ampform.dynamics.phasespace import (  # noqa: E402
    EqualMassPhaseSpaceFactor,
    PhaseSpaceFactor,
    PhaseSpaceFactorAbs,
    PhaseSpaceFactorComplex,
    PhaseSpaceFactorSWave,
)

PHSP = {"PhaseSpaceFactor": PhaseSpaceFactor, "PhaseSpaceFactorAbs": PhaseSpaceFactorAbs,
        "PhaseSpaceFactorComplex": PhaseSpaceFactorComplex}
S = sp.Symbol("s", nonnegative=True)
M = sp.IndexedBase("m", nonnegative=True)
GAM = sp.IndexedBase("Gamma", nonnegative=True)
GA = sp.IndexedBase("gamma", nonnegative=True)
MA = sp.IndexedBase("m_a", nonnegative=True)
MB = sp.IndexedBase("m_b", nonnegative=True)
RID = sp.Symbol("R", integer=True, positive=True)
_lam = {}


def num(e) -> complex:
    v = sp.N(e.doit(), 30)
    if not v.is_number:
        raise ValueError(f"non-numeric result, free symbols {sorted(map(str, v.free_symbols))[:6]}")
    return complex(v)


def expand_sums(e):
    """Sum(f(R), (R, 1, n)) -> f(1) + ... + f(n) without evaluating the summand."""
    return e.replace(lambda x: isinstance(x, sp.Sum), lambda x: x.doit(deep=False))


def values(c) -> dict:
    sub = {S: sp.Float(c["s"], 30)}
    for r in range(c["npoles"]):
        sub[M[r + 1]] = sp.Float(c["m"][r], 30)
        for ch in range(c["n"]):
            sub[GAM[r + 1, ch]] = sp.Float(c["Gamma"][r][ch], 30)
            sub[GA[r + 1, ch]] = sp.Float(c["gamma"][r][ch], 30)
    for ch in range(c["n"]):
        sub[MA[ch]] = sp.Float(c["ma"][ch], 30)
        sub[MB[ch]] = sp.Float(c["mb"][ch], 30)
    return sub


def t_lambda(kind: str, n: int, hat: bool):
    key = (kind, n, hat)
    if key not in _lam:
        if kind == "nr":
            t = NonRelativisticKMatrix.formulate(n, 1, parametrize=False)
        else:
            t = RelativisticKMatrix.formulate(n, 1, parametrize=False, return_t_hat=hat)
        ks = sp.IndexedBase("K", shape=(n, n))
        syms = [sp.Symbol(f"k_{i}_{j}") for i in range(n) for j in range(n)]
        rhos = [sp.Symbol(f"rho{i}") for i in range(n)]
        ren = {ks[i, j]: syms[i * n + j] for i in range(n) for j in range(n)}
        left = t.xreplace(ren).free_symbols - set(syms) - set(rhos)
        if left:
            raise ValueError(f"unexpected symbols in formulate(parametrize=False): {sorted(map(str, left))}")
        _lam[key] = sp.lambdify([*syms, *rhos], t.xreplace(ren), "numpy", cse=True)
    return _lam[key]


def k_impl(c, sub):
    n = c["n"]
    kw = dict(s=S, pole_position=M, pole_width=GAM, residue_constant=GA, n_poles=c["npoles"], pole_id=RID)
    out = np.zeros((n, n), dtype=complex)
    for i in range(n):
        for j in range(n):
            if c["kind"] == "nr":
                e = NonRelativisticKMatrix.parametrization(i=i, j=j, **kw)
            else:
                e = RelativisticKMatrix.parametrization(
                    i=i, j=j, m_a=MA, m_b=MB, angular_momentum=c["L"], meson_radius=sp.Float(c["d"], 30),
                    phsp_factor=PHSP[c["phsp"]], **kw)
            out[i, j] = num(e.doit(deep=False).xreplace(sub))
    return out


def k_oracle(c):
    """K_ij = sum_{R=1..n_R} gamma_Ri gamma_Rj m_R sqrt(Gamma_Ri(s) Gamma_Rj(s)) / (m_R^2 - s)."""
    n, s = c["n"], c["s"]
    out = np.zeros((n, n), dtype=complex)
    for r in range(c["npoles"]):
        m = c["m"][r]
        g = []
        for ch in range(n):
            if c["kind"] == "nr":
                w = complex(c["Gamma"][r][ch])
            else:
                w = num(EnergyDependentWidth(sp.Float(s, 30), sp.Float(m, 30), sp.Float(c["Gamma"][r][ch], 30),
                                             sp.Float(c["ma"][ch], 30), sp.Float(c["mb"][ch], 30), c["L"],
                                             sp.Float(c["d"], 30), phsp_factor=PHSP[c["phsp"]]))
            g.append(c["gamma"][r][ch] * np.sqrt(m * w + 0j))
        for i in range(n):
            for j in range(n):
                out[i, j] += g[i] * g[j] / (m * m - s)
    return out


def pole_regions(c):
    """(between, below): pole/channel pairs with (ma-mb)^2 < m^2 < (ma+mb)^2, resp. m^2 < (ma-mb)^2."""
    between, below = [], []
    for r, m in enumerate(c["m"]):
        for ch, (a, b) in enumerate(zip(c["ma"], c["mb"])):
            if (a - b) ** 2 < m * m < (a + b) ** 2:
                between.append((r, ch))
            elif m * m < (a - b) ** 2:
                below.append((r, ch))
    return between, below


def rho_oracle(phsp: str, x: float, a: float, b: float) -> complex:
    """rho(x) = sqrt((x-(a+b)^2)(x-(a-b)^2))/x: positive outside the gap between pseudo-threshold and
    threshold; inside the gap |rho| for PhaseSpaceFactorAbs and i|rho| for the other two."""
    mod = np.sqrt(abs((x - (a + b) ** 2) * (x - (a - b) ** 2))) / x
    if (a - b) ** 2 < x < (a + b) ** 2 and phsp != "PhaseSpaceFactorAbs":
        return 1j * mod
    return complex(mod)


def checks(c, fulls_given=None, label=None):
    """All raw checks on one configuration; list of (signature, what)."""
    n = c["n"]
    sub = values(c)
    fails = []
    K = k_impl(c, sub)
    Ko = k_oracle(c)
    kmax = max(1.0, float(np.abs(Ko).max()))
    tol = 1e-9 * kmax ** n * 10
    if np.abs(K - Ko).max() > 1e-9 * kmax:
        fails.append(("k_param_mismatch/" + c["kind"],
                      f"parametrization(i,j) differs from sum_R g_i g_j/(m_R^2-s): max diff {np.abs(K - Ko).max():.3e}"))
    if np.abs(K.imag).max() > 1e-9 * kmax:
        fails.append(("k_not_real/" + c["kind"], f"K from parametrization not real: max |Im K| = {np.abs(K.imag).max():.3e}"))
    if np.abs(K - K.T).max() > 1e-9 * kmax:
        fails.append(("k_not_symmetric/" + c["kind"], f"K from parametrization not symmetric: {np.abs(K - K.T).max():.3e}"))
    eye = np.eye(n)
    if c["kind"] == "nr":
        rho = np.ones(n, dtype=complex)
        T = np.array(t_lambda("nr", n, False)(*K.flatten(), *rho), dtype=complex).reshape(n, n)
        To = K @ np.linalg.inv(eye - 1j * K)
        That = None
    else:
        rho = np.array([num(PHSP[c["phsp"]](S, MA[ch], MB[ch]).xreplace(sub)) for ch in range(n)])
        T = np.array(t_lambda("rel", n, False)(*K.flatten(), *rho), dtype=complex).reshape(n, n)
        That = np.array(t_lambda("rel", n, True)(*K.flatten(), *rho), dtype=complex).reshape(n, n)
        sq = np.diag(np.sqrt(rho + 0j))
        Tho = K @ np.linalg.inv(eye - 1j * np.diag(rho) @ K)
        To = sq.conj() @ Tho @ sq
        if np.abs(That - Tho).max() > tol:
            fails.append(("that_differs_from_formula", f"T-hat differs from Khat(1 - i rho Khat)^-1 by {np.abs(That - Tho).max():.3e}"))
        if np.abs(That - That.T).max() > tol:
            fails.append(("that_not_symmetric", f"|That - That^T| = {np.abs(That - That.T).max():.3e}"))
        if np.abs(rho.imag).max() > 1e-12 or rho.real.min() <= 0:
            fails.append(("rho_not_real_positive/" + c["phsp"], f"rho above threshold = {rho}"))
        for r, m in enumerate(c["m"]):
            for ch in range(n):
                a, b = c["ma"][ch], c["mb"][ch]
                v = num(PHSP[c["phsp"]](sp.Float(m, 30) ** 2, sp.Float(a, 30), sp.Float(b, 30)))
                o = rho_oracle(c["phsp"], m * m, a, b)
                if abs(v - o) > 1e-9 * max(1.0, abs(o)):
                    fails.append(("rho_at_pole_mismatch/" + c["phsp"],
                                  f"{c['phsp']}(m_R^2={m * m}, {a}, {b}) = {v}, expected {o} "
                                  f"(pseudo-threshold {(a - b) ** 2}, threshold {(a + b) ** 2})"))
    if np.abs(T - To).max() > tol:
        fails.append(("t_differs_from_formula/" + c["kind"], f"T differs from the defining formula by {np.abs(T - To).max():.3e}"))
    Sm = eye + 2j * T
    u = np.abs(Sm.conj().T @ Sm - eye).max()
    if u > tol:
        fails.append(("not_unitary/" + c["kind"], f"|S^dagger S - 1| = {u:.3e} (tol {tol:.1e})"))
    a = np.abs(T - T.T).max()
    if a > tol:
        fails.append(("not_symmetric/" + c["kind"], f"|T - T^T| = {a:.3e} (tol {tol:.1e})"))
    # the substituted result of formulate(parametrize=True), for the smaller configurations
    if c.get("full") or fulls_given is not None:
        label = label or f"formulate(parametrize=True, phsp_factor={c['phsp']}, L={c['L']})"
        if fulls_given is not None:
            fulls = [(fulls_given[0], T), (fulls_given[1], That)]
        elif c["kind"] == "nr":
            full = NonRelativisticKMatrix.formulate(n, c["npoles"])
            fulls = [(full, T)]
        else:
            kw = dict(phsp_factor=PHSP[c["phsp"]], angular_momentum=c["L"], meson_radius=sp.Float(c["d"], 30))
            fulls = [(RelativisticKMatrix.formulate(n, c["npoles"], **kw), T),
                     (RelativisticKMatrix.formulate(n, c["npoles"], return_t_hat=True, **kw), That)]
        for k, (full, ref) in enumerate(fulls):
            vals = np.zeros((n, n), dtype=complex)
            for i in range(n):
                for j in range(n):
                    v = vals[i, j] = num(expand_sums(full[i, j]).xreplace(sub))
                    if abs(v - ref[i, j]) > tol:
                        fails.append(("formulate_parametrized_differs/" + c["kind"],
                                      f"{label}[{i},{j}] = {v} but "
                                      f"T(K=parametrization with the caller's arguments, rho=phsp) = {ref[i, j]}"))
            if k == 0:
                Sf = eye + 2j * vals
                uf = np.abs(Sf.conj().T @ Sf - eye).max()
                if uf > tol:
                    fails.append(("not_unitary_formulate/" + c["kind"],
                                  f"{label}: |S^dagger S - 1| = {uf:.3e}"))
    return fails


KNOWN = "kmatrix_subthreshold_pole_not_unitary"
EXPECTED_BELOW = ("k_not_real/rel", "not_unitary/rel", "not_unitary_formulate/rel")


ALL_CLASSES = {"PhaseSpaceFactor": PhaseSpaceFactor, "PhaseSpaceFactorAbs": PhaseSpaceFactorAbs,
               "PhaseSpaceFactorComplex": PhaseSpaceFactorComplex, "PhaseSpaceFactorSWave": PhaseSpaceFactorSWave,
               "EqualMassPhaseSpaceFactor": EqualMassPhaseSpaceFactor}


def make_phsp(cls):
    """A phase-space factor given as a plain FUNCTION (PhaseSpaceFactorProtocol): every closure made
    here has the same __module__ and __qualname__ but its own behaviour."""
    def rho(s, m_a, m_b):
        return cls(s, m_a, m_b)
    return rho


def make_lambdas(classes):
    return [lambda s, m_a, m_b, _c=c: _c(s, m_a, m_b) for c in classes]


def scan_history(expr, f, cls, what):
    """Every width carries the caller's callable (identity) and, unfolded one level, only the caller's
    phase-space class occurs."""
    bad = []
    n_edw = 0
    for node in sp.preorder_traversal(expr):
        if isinstance(node, EnergyDependentWidth):
            n_edw += 1
            if node.phsp_factor is not f:
                bad.append(("foreign_callable_in_width/" + what,
                            f"EnergyDependentWidth.phsp_factor is {node.phsp_factor!r}, not the caller's {f!r}"))
            inner = node.evaluate()
        elif isinstance(node, tuple(ALL_CLASSES.values())):
            inner = node
        else:
            continue
        for sub in sp.preorder_traversal(inner):
            if isinstance(sub, tuple(ALL_CLASSES.values())) and type(sub) is not cls:
                bad.append(("foreign_phsp_after_unfolding/" + what,
                            f"{type(sub).__name__} occurs in a result formulated with a function returning {cls.__name__}"))
    if n_edw == 0:
        bad.append(("no_width_nodes/" + what, "no EnergyDependentWidth node in a relativistic result"))
    seen, out = set(), []
    for b in bad:
        if b[0] not in seen:
            seen.add(b[0])
            out.append(b)
    return out


def run_history(c):
    """formulate(phsp_factor=f1) then formulate(phsp_factor=f2) in ONE process, f1 and f2 different functions
    with the same qualified name and identical remaining arguments; the second result must be the caller's."""
    classes = [ALL_CLASSES[c["first"]], ALL_CLASSES[c["phsp"]]]
    fs = [make_phsp(k) for k in classes] if c["style"] == "closure" else make_lambdas(classes)
    kw = dict(angular_momentum=c["L"], meson_radius=sp.Float(c["d"], 30))
    res = []
    for f in fs:
        res.append((RelativisticKMatrix.formulate(c["n"], c["npoles"], phsp_factor=f, **kw),
                    RelativisticKMatrix.formulate(c["n"], c["npoles"], return_t_hat=True, phsp_factor=f, **kw)))
    fails = []
    for k, (f, cls) in enumerate(zip(fs, classes)):
        for m in res[k]:
            for e in m:
                fails += scan_history(e, f, cls, f"call{k + 1}")
    label = (f"formulate(phsp_factor=<function returning {c['phsp']}>, L={c['L']}) called after "
             f"formulate(phsp_factor=<function of the same name returning {c['first']}>)")
    fails += checks(dict(c, kind="rel", full=False), fulls_given=res[1], label=label)
    seen, out = set(), []
    for b in fails:
        if b[0] not in seen:
            seen.add(b[0])
            out.append(b)
    return out


def run_case(c):
    """Checks + classification of the sub-threshold-pole finding.

    With PhaseSpaceFactor / PhaseSpaceFactorComplex and a pole below a channel threshold the width is
    normalised with an imaginary rho(m_R^2): K is complex and S not unitary (known finding).  It is
    reported under KNOWN only if nothing else is wrong (T symmetric, every differential check passes)
    and the same configuration with all poles moved above threshold passes every check.
    PhaseSpaceFactorAbs (L = 0) with sub-threshold poles gets the normal checks: it must be unitary."""
    if c["kind"] == "history":
        return run_history(c)
    fails = checks(c)
    between, _ = pole_regions(c) if c["kind"] == "rel" else ([], [])
    if not (between and c["phsp"] in ("PhaseSpaceFactor", "PhaseSpaceFactorComplex")):
        # includes poles BELOW a pseudo-threshold: rho(m_R^2) is real positive there for all three
        # variants, so these are hard obligations
        return fails
    expected = [f for f in fails if f[0] in EXPECTED_BELOW]
    other = [f for f in fails if f[0] not in EXPECTED_BELOW]
    nonunitary = [f for f in expected if f[0].startswith("not_unitary")]
    if not nonunitary:
        return other
    sibling = dict(c, m=c["m_above"], subthr=False, full=False)
    sib = [("above_threshold_sibling:" + sig, what) for sig, what in checks(sibling)]
    if other or sib:
        return other + sib
    pairs = [(c["m"][r], (c["ma"][ch], c["mb"][ch])) for r, ch in between]
    return [(KNOWN, f"RelativisticKMatrix, {c['phsp']}, L={c['L']}, n_channels={c['n']}, masses "
                    f"{list(zip(c['ma'], c['mb']))}, poles m={c['m']}, s={c['s']}: pole/channel pairs with "
                    f"(ma-mb)^2 < m_R^2 < (ma+mb)^2: {pairs}; {nonunitary[0][1]}; T symmetric; with the poles moved to "
                    f"{c['m_above']} (all above threshold) unitary")]


def gen_cases(seed: int, n: int):
    rng = random.Random(seed * 7919 + 9)
    out = []
    thorough = n > 60
    n_abs, n_psf = (40, 30) if thorough else (6, 4)
    for i in range(n_abs + n_psf):
        absv = i < n_abs
        nch = rng.choice([2, 2, 3]) if thorough else 2
        npoles = rng.choice([1, 2, 3] if thorough else [1, 2])
        ma = [round(rng.uniform(0.1, 0.25), 6), round(rng.uniform(0.45, 0.6), 6)]
        mb = [round(rng.uniform(0.1, 0.25), 6), round(rng.uniform(0.45, 0.6), 6)]
        if nch == 3:
            ma.append(round(rng.uniform(0.1, 0.6), 6))
            mb.append(round(rng.uniform(0.1, 0.6), 6))
        thr = max(a + b for a, b in zip(ma, mb))
        lo, hi = (ma[0] + mb[0]) * 1.15, (ma[1] + mb[1]) * 0.9
        nbelow = 1 if npoles == 1 or rng.random() < 0.7 else 2
        while True:
            m = [round(rng.uniform(lo, hi), 6) for _ in range(nbelow)]
            m += [round(thr * 1.08 + rng.uniform(0.05, 1.6), 6) for _ in range(npoles - nbelow)]
            m_above = [round(thr * 1.08 + rng.uniform(0.05, 1.6), 6) for _ in range(nbelow)] + m[nbelow:]
            s = round((thr * 1.05 + rng.uniform(0.02, 1.8)) ** 2, 6)
            if all(abs(s - x * x) > 0.12 for x in m + m_above):
                break
        out.append({"kind": "rel", "n": nch, "npoles": npoles, "subthr": True,
                    "L": 0 if absv else rng.choice([0, 1, 2, 3, 4]),
                    "phsp": "PhaseSpaceFactorAbs" if absv else rng.choice(["PhaseSpaceFactor", "PhaseSpaceFactorComplex"]),
                    "d": round(rng.uniform(0.5, 3.0), 6), "s": s, "m": m, "m_above": m_above, "ma": ma, "mb": mb,
                    "Gamma": [[round(rng.uniform(0.05, 0.6), 6) for _ in range(nch)] for _ in range(npoles)],
                    "gamma": [[round(rng.uniform(0.3, 1.5) * rng.choice([1, 1, -1]), 6) for _ in range(nch)]
                              for _ in range(npoles)],
                    "full": nch <= 2 and npoles <= 2 and (absv or i % 2 == 0)})
    for i in range(24 if thorough else 4):
        nch = 1 + i % 2
        npoles = rng.choice([1, 2])
        ma = [round(rng.uniform(0.1, 0.6), 6) for _ in range(nch)]
        mb = [round(rng.uniform(0.1, 0.6), 6) for _ in range(nch)]
        thr = max(a + b for a, b in zip(ma, mb))
        while True:
            m = [round(thr * 1.08 + rng.uniform(0.05, 1.6), 6) for _ in range(npoles)]
            s = round((thr * 1.05 + rng.uniform(0.02, 1.8)) ** 2, 6)
            if all(abs(s - x * x) > 0.12 for x in m):
                break
        out.append({"kind": "history", "style": "closure" if i % 4 < 2 else "lambda", "n": nch, "npoles": npoles,
                    "first": ["PhaseSpaceFactorSWave", "EqualMassPhaseSpaceFactor", "PhaseSpaceFactorSWave"][i % 3],
                    "phsp": list(PHSP)[(i // 2) % 3], "L": rng.choice([0, 1, 2]),
                    "d": round(rng.uniform(0.5, 3.0), 6), "s": s, "m": m, "ma": ma, "mb": mb,
                    "Gamma": [[round(rng.uniform(0.05, 0.6), 6) for _ in range(nch)] for _ in range(npoles)],
                    "gamma": [[round(rng.uniform(0.3, 1.5) * rng.choice([1, 1, -1]), 6) for _ in range(nch)]
                              for _ in range(npoles)]})
    names = list(PHSP)
    for i in range(45 if thorough else 6):
        nch = rng.choice([2, 2, 3]) if thorough else 2
        npoles = rng.choice([1, 2, 3] if thorough else [1, 2])
        ma = [round(rng.uniform(0.1, 0.2), 6), round(rng.uniform(0.9, 1.2), 6)]
        mb = [round(rng.uniform(0.1, 0.2), 6), round(rng.uniform(0.1, 0.25), 6)]
        if nch == 3:
            ma.append(round(ma[0] * 0.9, 6))
            mb.append(round(mb[0] * 0.8, 6))
        thr = max(a + b for a, b in zip(ma, mb))
        lo, hi = (ma[0] + mb[0]) * 1.1, (ma[1] - mb[1]) * 0.92
        nbelow = 1 if npoles == 1 or rng.random() < 0.6 else 2
        while True:
            m = [round(rng.uniform(lo, hi), 6) for _ in range(nbelow)]
            m += [round(thr * 1.08 + rng.uniform(0.05, 1.6), 6) for _ in range(npoles - nbelow)]
            s = round((thr * 1.05 + rng.uniform(0.02, 1.8)) ** 2, 6)
            if all(abs(s - x * x) > 0.12 for x in m):
                break
        out.append({"kind": "rel", "n": nch, "npoles": npoles, "below_pseudo": True,
                    "L": rng.choice([0, 1, 2, 3, 4]), "phsp": names[i % 3],
                    "d": round(rng.uniform(0.5, 3.0), 6), "s": s, "m": m, "m_above": m, "ma": ma, "mb": mb,
                    "Gamma": [[round(rng.uniform(0.05, 0.6), 6) for _ in range(nch)] for _ in range(npoles)],
                    "gamma": [[round(rng.uniform(0.3, 1.5) * rng.choice([1, 1, -1]), 6) for _ in range(nch)]
                              for _ in range(npoles)],
                    "full": nch <= 2 and npoles <= 2 and i % 2 == 0})
        assert not pole_regions(out[-1])[0] and pole_regions(out[-1])[1]
    for i in range(n):
        kind = "nr" if i % 3 == 0 else "rel"
        nch = rng.choice([1, 2, 2, 3, 3] if thorough else [1, 2, 2])
        npoles = rng.choice([1, 2, 3, 4] if thorough else [1, 2])
        if not thorough and i == 1:
            # the quick tier evaluates one three-channel relativistic matrix with unequal channel masses (the symbolic 3x3
            # inverse costs ~30 s once; the n = 3 THEOREM and the non-relativistic n = 3 cases stay in the thorough tier)
            kind, nch, npoles = "rel", 3, 1
        ma = [round(rng.uniform(0.1, 0.6), 6) for _ in range(nch)]
        mb = [round(rng.uniform(0.1, 0.6), 6) for _ in range(nch)]
        thr = max(a + b for a, b in zip(ma, mb))
        while True:
            m = [round(thr * 1.08 + rng.uniform(0.05, 1.6), 6) for _ in range(npoles)]
            s = round((thr * 1.05 + rng.uniform(0.02, 1.8)) ** 2, 6)
            if all(abs(s - x * x) > 0.12 for x in m):
                break
        c = {"kind": kind, "n": nch, "npoles": npoles, "L": rng.choice([0, 1, 2, 3, 4]),
             "phsp": rng.choice(list(PHSP)) if kind == "rel" else "none",
             "d": round(rng.uniform(0.5, 3.0), 6), "s": s, "m": m, "ma": ma, "mb": mb,
             "Gamma": [[round(rng.uniform(0.05, 0.6), 6) for _ in range(nch)] for _ in range(npoles)],
             "gamma": [[round(rng.uniform(0.3, 1.5) * rng.choice([1, 1, -1]), 6) for _ in range(nch)] for _ in range(npoles)],
             "full": nch <= 2 and npoles <= 2 and i % 4 == 0}
        out.append(c)
    return out


def main():
    if sys.argv[1] == "--replay":
        doc = json.load(open(sys.argv[2]))
        try:
            fails = lib_C09.run_with_prefix(run_case, doc["replay"]["case"])
        except Exception as exc:  # noqa: BLE001
            kind_ = doc["replay"]["case"].get("kind", "")
            fails = [("exception_" + type(exc).__name__ + "/" + kind_, f"{type(exc).__name__}: {exc}"[:300])]
        want = doc.get("signature")
        mine = [f for f in fails if f[0] == want] if want and not want.startswith("unproved") else \
               [f for f in fails if f[0] != KNOWN]
        print(json.dumps({"still_fails": bool(mine), "fails": mine[:5]}))
        return
    seed, n = int(sys.argv[1]), int(sys.argv[2])
    cases = gen_cases(seed, n)
    failures, kinds, samples, distinct, nev = [], {}, [], set(), 0
    for idx, c in enumerate(cases):
        try:
            fails = run_case(c)
        except Exception as exc:  # noqa: BLE001
            fails = [("exception_" + type(exc).__name__ + "/" + c["kind"], f"{type(exc).__name__}: {exc}"[:300])]
        nev += 1
        distinct.add(json.dumps(c, sort_keys=True))
        tag = f"{c['kind']}/n{c['n']}/{c['phsp']}" + (f"/after-{c['first']}/{c['style']}" if c["kind"] == "history" else "") + ("/pole-in-gap" if c.get("subthr") else "") + ("/pole-below-pseudothreshold" if c.get("below_pseudo") else "")
        kinds[tag] = kinds.get(tag, 0) + 1
        if len(samples) < 3 and c["kind"] not in [s_["kind"] for s_ in samples]:
            samples.append({k: c[k] for k in ("kind", "n", "npoles", "L", "phsp", "s", "m")})
        for sig, what in fails:
            failures.append({"signature": sig, "what": what, "case": c, "idx": idx})
    seen, uniq = set(), []
    for f in failures:
        if f["signature"] not in seen:
            seen.add(f["signature"])
            uniq.append(f)
    uniq = lib_C09.make_replayable(os.path.abspath(__file__), cases, uniq[:20], skip=(KNOWN,))
    print(json.dumps({"evaluations": nev, "distinct": len(distinct), "samples": samples, "kinds": kinds,
                      "failures": uniq[:20]}))


main()
