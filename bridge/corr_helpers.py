"""Correspondence of the TRANSLATED helpers (Gen_helpers.v, emitted by trans_helpers.py) with the real functions.

  corr_helpers.py gen <seed> <tier> <builddir>   runs the real helpers on enumerated inputs, writes
        Cases_helpers.v (model evaluation by vm_compute, one boolean per case) and Gen_topos.v (the isobar
        topologies as Gallina literals, for the instance theorem of C07_code.v); prints JSON summary
  corr_helpers.py cmp <builddir>                  parses Cases_helpers.out, prints JSON {"compared", "agree", "failures"}
  corr_helpers.py --replay <file>                 re-runs one stored case (implementation vs model), JSON {"still_fails"}

Inputs: all isobar topologies with 2..5 (thorough: 6) final states as qrules creates them + variants (final ids
permuted, intermediate edges / nodes renumbered, edge order shuffled) + non-isobar topologies (3-body nodes) for the
error paths; every edge id and one absent id; create_spin_range on all half-integers 0..10 and dyadic quarters,
both flags.  Exceptions are mapped to the model's error values by class.
"""
from __future__ import annotations

import itertools
import json
import os
import random
import subprocess
import sys
import tempfile

import common  # noqa: F401
from qrules.topology import Topology, create_isobar_topologies, create_n_body_topology

from tie_C07 import topo_to_coq, topo_to_data, data_to_topo, variant

ERR = {"ValueError": "EValue", "KeyError": "EKey", "StopIteration": "EStop", "IndexError": "EIndex"}
TOPO_FUNCS = ["get_sibling_state_id", "determine_attached_final_state", "is_opposite_helicity_state", "get_parent_id",
              "list_decay_chain_ids", "__get_boost_chain_ids"]


def impl_funcs():
    import ampform.helicity.decay as d
    import ampform.kinematics.lorentz as lz
    from ampform.helicity.align._spin import create_spin_range

    out = {n: getattr(d, n) for n in TOPO_FUNCS if hasattr(d, n)}
    out["__get_boost_chain_ids"] = getattr(lz, "__get_boost_chain_ids")
    out["assert_isobar_topology"] = d.assert_isobar_topology
    out["assert_two_body_decay"] = d.assert_two_body_decay
    for n in ("assert_three_body_decay", "get_spectator_id", "get_decay_product_ids"):
        out[n] = getattr(getattr(d, n), "__wrapped__", getattr(d, n))   # the function behind functools.cache
    out["create_spin_range"] = create_spin_range
    return out


def run_impl(f, *args):
    try:
        r = f(*args)
    except Exception as e:  # noqa: BLE001
        return {"err": type(e).__name__}
    if isinstance(r, (list, tuple)):
        r = list(r)
    return {"ok": r}


def topo_inputs(seed, tier):
    rng = random.Random(7919 * seed + 11)
    out = []
    for n in range(2, 7 if tier == "thorough" else 6):
        for b, base in enumerate(create_isobar_topologies(n)):
            out.append((f"iso{n}.{b}", topo_to_data(base), True))
            for v in range(3 if tier == "thorough" else 1):
                perm = list(range(n))
                rng.shuffle(perm)
                out.append((f"iso{n}.{b}.v{v}", variant(rng, base, perm, rng.choice([0, 0, 1])), True))
    for n in (3, 4):
        out.append((f"nbody{n}", topo_to_data(create_n_body_topology(1, n)), False))
    # three-body topologies in the labelling the DPD helpers require (initial state 0, final states 1, 2, 3), every
    # assignment of the final-state labels, the intermediate edge and the nodes renumbered in two ways
    base = topo_to_data(create_isobar_topologies(3)[0])
    for k, perm in enumerate(itertools.permutations([1, 2, 3])):
        emap = {-1: 0, 0: perm[0], 1: perm[1], 2: perm[2], 3: 4 + k % 2 * 3}
        d = {"nodes": list(base["nodes"]), "edges": [[emap[i], o, e] for i, o, e in base["edges"]]}
        if k % 3 == 2:
            rng.shuffle(d["edges"])
        out.append((f"dpd3.{k}", d, True))
    return out


def coq_res(r, kind):
    if "err" in r:
        if r["err"] not in ERR:
            return None
        return f"(Err {ERR[r['err']]})"
    v = r["ok"]
    if kind == "Z":
        return f"(Ok ({int(v)}))"
    if kind == "bool":
        return f"(Ok {'true' if v else 'false'})"
    if kind == "optZ":
        return "(Ok None)" if v is None else f"(Ok (Some ({int(v)})))"
    if kind == "listZ":
        return "(Ok [" + "; ".join(f"({int(x)})" for x in v) + "])"
    if kind == "unit":
        return "(Ok tt)"
    raise ValueError(kind)


EQB = {"Z": "Z.eqb", "bool": "Bool.eqb", "optZ": "Kin.oZ_eqb", "listZ": "Kin.lZ_eqb", "unit": "unit_eqb"}
KIND = {"get_sibling_state_id": "Z", "determine_attached_final_state": "listZ", "is_opposite_helicity_state": "bool",
        "get_parent_id": "optZ", "list_decay_chain_ids": "listZ", "__get_boost_chain_ids": "listZ",
        "assert_isobar_topology": "unit", "assert_two_body_decay": "unit", "create_spin_range": "listZ",
        "assert_three_body_decay": "unit", "get_spectator_id": "Z", "get_decay_product_ids": "listZ"}
FUEL = {"list_decay_chain_ids", "__get_boost_chain_ids"}


def model_call(name, targ, arg, nedges):
    g = "gen_" + name.lstrip("_")
    fuel = f"{nedges + 3}%nat " if name in FUEL else ""
    a = "" if arg is None else f" ({arg})"
    return f"{g} {fuel}{targ}{a}"


def spin_case(fn, u, n, flag):
    """spin magnitude n/u"""
    from fractions import Fraction
    x = float(Fraction(n, u))
    r = run_impl(fn, x, flag)
    if "ok" in r:
        vals = [Fraction(v) * u for v in r["ok"]]
        if any(v.denominator != 1 for v in vals):
            return None, r
        r = {"ok": [int(v) for v in vals]}
    return r, r


def build_cases(seed, tier):
    F = impl_funcs()
    cases = []   # dict(kind, label, func, arg, expect(coq), model(coq), impl(raw))
    topos = topo_inputs(seed, tier)
    for label, d, _iso in topos:
        t = data_to_topo(d)
        ids = [i for i, _, _ in d["edges"]] + [97]
        ne = len(d["edges"])
        for name in ["assert_isobar_topology", "assert_three_body_decay", "get_spectator_id", "get_decay_product_ids"]:
            r = run_impl(F[name], t)
            cases.append({"label": label, "func": name, "arg": None, "impl": r, "topo": d,
                          "expect": coq_res(r, KIND[name]), "model": model_call(name, "T", None, ne)})
        for node in d["nodes"]:
            r = run_impl(F["assert_two_body_decay"], t, node)
            cases.append({"label": label, "func": "assert_two_body_decay", "arg": node, "impl": r, "topo": d,
                          "expect": coq_res(r, "unit"), "model": model_call("assert_two_body_decay", "T", node, ne)})
        for name in TOPO_FUNCS:
            for i in ids:
                r = run_impl(F[name], t, i)
                cases.append({"label": label, "func": name, "arg": i, "impl": r, "topo": d,
                              "expect": coq_res(r, KIND[name]), "model": model_call(name, "T", i, ne)})
    spins = [(2, n) for n in range(0, 21)] + [(4, n) for n in (1, 3, 5, 7, 9)] + [(1, n) for n in (0, 1, 2, 7)]
    for u, n in spins:
        for flag in (False, True):
            r, raw = spin_case(F["create_spin_range"], u, n, flag)
            cases.append({"label": f"spin {n}/{u}", "func": "create_spin_range", "arg": [u, n, flag], "impl": raw,
                          "topo": None, "expect": None if r is None else coq_res(r, "listZ"),
                          "model": f"gen_create_spin_range ({u}) (Z.to_nat (2 * {n}) + 2)%nat ({n}) {'true' if flag else 'false'}"})
    return topos, cases


HEADER = ("From Coq Require Import ZArith List Bool.\nFrom AV Require Import Kin PyTopo.\nFrom AVchk Require Import Gen_helpers.\n"
          "Import ListNotations.\nOpen Scope Z_scope.\nSet Printing Width 1000000.\nSet Printing Depth 1000000.\n"
          "Definition E i o e := {| re_id := i; re_orig := o; re_end := e |}.\n")


def write_cases(path, cases):
    """groups the cases by topology so that each topology literal appears once"""
    lines = [HEADER]
    order = []
    groups = {}
    for k, c in enumerate(cases):
        key = json.dumps(c["topo"])
        groups.setdefault(key, []).append(k)
    for g, (key, idx) in enumerate(groups.items()):
        d = json.loads(key)
        if d is not None:
            lines.append(f"Definition T{g} : rtopo := {topo_to_coq(d)}.")
        checks = []
        for k in idx:
            c = cases[k]
            if c["expect"] is None:
                continue
            order.append(k)
            eqb = EQB[KIND[c["func"]]]
            checks.append(f"res_eqb {eqb} ({c['model'].replace(' T ', f' T{g} ').replace(' T)', f' T{g})')}) {c['expect']}")
        # `model_call` puts the topology as ` T` followed by space or end
        checks = [x.replace(" T (", f" T{g} (").replace(" T)", f" T{g})") for x in checks]
        lines.append("Eval vm_compute in [" + ";\n  ".join(checks) + "].")
    with open(path, "w") as fh:
        fh.write("\n".join(lines) + "\n")
    return order


def parse_bools(text):
    out = []
    for chunk in text.split("= [")[1:]:
        body = chunk.split("]")[0]
        out += [w.strip() == "true" for w in body.split(";") if w.strip()]
    return out


def gen(seed, tier, build):
    topos, cases = build_cases(seed, tier)
    order = write_cases(os.path.join(build, "Cases_helpers.v"), cases)
    iso = [(l, d) for l, d, is_iso in topos if is_iso]
    with open(os.path.join(build, "Gen_topos.v"), "w") as fh:
        fh.write("(* GENERATED by bridge/corr_helpers.py: the isobar topologies qrules creates now (+ renumbered variants) *)\n"
                 "From Coq Require Import ZArith List.\nFrom AV Require Import Kin.\nImport ListNotations.\nOpen Scope Z_scope.\n"
                 "Definition E i o e := {| re_id := i; re_orig := o; re_end := e |}.\n"
                 "Definition current_topologies : list rtopo := [\n  " + ";\n  ".join(topo_to_coq(d) for _, d in iso) + "].\n")
    json.dump({"cases": cases, "order": order}, open(os.path.join(build, "cases_helpers.json"), "w"))
    kinds = {}
    for c in cases:
        k = c["func"] + (":raises" if "err" in c["impl"] else "")
        kinds[k] = kinds.get(k, 0) + 1
    skipped = sum(c["expect"] is None for c in cases)
    print(json.dumps({"cases": len(cases), "evaluated": len(order), "skipped_unmappable": skipped,
                      "topologies": len(topos), "isobar_topologies": len(iso), "kinds": kinds}))


def cmp_(build):
    doc = json.load(open(os.path.join(build, "cases_helpers.json")))
    text = open(os.path.join(build, "Cases_helpers.out")).read()
    bools = parse_bools(text)
    order, cases = doc["order"], doc["cases"]
    fails = []
    if len(bools) != len(order):
        print(json.dumps({"compared": 0, "agree": 0, "failures": [],
                          "error": f"{len(bools)} results for {len(order)} cases: {text[-400:]}"}))
        return
    for ok, k in zip(bools, order):
        if not ok:
            c = cases[k]
            fails.append({"signature": "helper_code_vs_translated_model:" + c["func"].lstrip("_"),
                          "what": f"{c['func']}({c['label']}, {c['arg']}): implementation gives {c['impl']}, the model "
                                  f"translated from the source evaluates to something else",
                          "case": {"func": c["func"], "arg": c["arg"], "topo": c["topo"], "label": c["label"],
                                   "expect": c["expect"], "model": c["model"]}})
    print(json.dumps({"compared": len(order), "agree": len(order) - len(fails), "failures": fails[:20]}))


def replay(path):
    """re-translate the current source, re-run the implementation on the stored input, evaluate the model"""
    doc = json.load(open(path))
    c = doc["replay"]["case"]
    F = impl_funcs()
    if c["func"] == "create_spin_range":
        u, n, flag = c["arg"]
        r, _ = spin_case(F[c["func"]], u, n, flag)
    else:
        t = data_to_topo(c["topo"])
        r = run_impl(F[c["func"]], t) if c["arg"] is None else run_impl(F[c["func"]], t, c["arg"])
    expect = None if r is None else coq_res(r, KIND[c["func"]])
    tmp = tempfile.mkdtemp(prefix="helpers_replay_")
    try:
        env = dict(os.environ)
        p = subprocess.run([sys.executable, os.path.join(os.path.dirname(__file__), "trans_helpers.py"),
                            os.path.join(tmp, "Gen_helpers.v")], env=env, capture_output=True, text=True)
        case = dict(c, expect=expect, impl=r)
        write_cases(os.path.join(tmp, "Cases_helpers.v"), [case])
        theories = os.path.join(os.path.dirname(os.path.dirname(os.path.abspath(__file__))), "coq", "theories")
        ok = True
        for f in ("Gen_helpers.v", "Cases_helpers.v"):
            q = subprocess.run(["timeout", "120", "coqc", "-Q", theories, "AV", "-Q", ".", "AVchk", f], cwd=tmp,
                               capture_output=True, text=True)
            ok = ok and q.returncode == 0
            out = q.stdout
        bools = parse_bools(out) if ok else []
        still = (not ok) or expect is None or not all(bools) or not bools
        print(json.dumps({"still_fails": bool(still), "implementation": r, "model_agrees": bools}))
    finally:
        import shutil
        shutil.rmtree(tmp, ignore_errors=True)


if __name__ == "__main__":
    if sys.argv[1] == "gen":
        gen(int(sys.argv[2]), sys.argv[3], sys.argv[4])
    elif sys.argv[1] == "cmp":
        cmp_(sys.argv[2])
    elif sys.argv[1] == "--replay":
        replay(sys.argv[2])
