"""C02 in-Coq tie: serialise model.expression of the CURRENT /repo next to the independently extracted
helicity-formula data, so that Coq itself checks  aceq (model.expression) (intensity_expr data) = true
(AcEq.v, proved sound) and concludes  denC rho model.expression = intensity_sem rho data  for all rho.

usage: symgen_C02.py <out-prefix> <nshards> <tier>     writes <prefix>_<k>.v and <prefix>.v; prints JSON
"""
import json
import sys

import common  # noqa: F401
import modelgen as mg
import reactions
from corr_C02 import Tables, chain_lit, extract

common.assert_repo_import()
prefix, nshards, tier = sys.argv[1], int(sys.argv[2]), sys.argv[3]

names = reactions.names()
cfgs = [mg.default_cfg(n) for n in names]
cfgs += [mg.default_cfg("jpsi_ksp1750_hel", couplings=True), mg.default_cfg("jpsi_gpipi_can", couplings=True),
         mg.default_cfg("jpsi_3pi_hel", dyn="custom"), mg.default_cfg("lc_pkpi_hel", ins_parent=True)]


def lit_of(groups):
    gl = []
    for _, amps in groups:
        gl.append("[" + "; ".join("[" + "; ".join(chain_lit(c) for c in chains) + "]" for _, chains in amps) + "]")
    return "[" + "; ".join(gl) + "]"


cases, skipped = [], []
for i, cfg in enumerate(cfgs):
    r, b, model = mg.build(cfg)
    t = Tables(full=True)
    phys = lit_of(extract(cfg, r, b, t, "physical")[0])
    pinned = lit_of(extract(cfg, r, b, t, "pinned")[0])
    if phys != pinned:  # reaction affected by the known finding on identical particles: not part of the tie
        skipped.append(cfg["reaction"])
        continue
    cases.append({"name": f"t{i}", "cfg": cfg, "impl": mg.ser_struct(model.expression), "data": phys})

HEAD = ("(* GENERATED on every run from /repo's working tree by bridge/symgen_C02.py - do not edit. *)\n"
        "From AV Require Import Helicity.\nOpen Scope string_scope.\n\n")
shards = [[] for _ in range(nshards)]
sizes = [0] * nshards
for c in sorted(cases, key=lambda c: -len(c["impl"])):
    k = sizes.index(min(sizes))
    shards[k].append(c)
    sizes[k] += len(c["impl"]) + len(c["data"])
import os

stem = os.path.basename(prefix)
for k, sh in enumerate(shards):
    with open(f"{prefix}_{k}.v", "w") as f:
        f.write(HEAD)
        for c in sh:
            f.write(f"Definition impl_{c['name']} : expr :=\n  {c['impl']}.\n")
            f.write(f"Definition data_{c['name']} : list hgroup :=\n  {c['data']}.\n")
        f.write(f"Definition tie_cases_{k} : list (string * (expr * list hgroup)) :=\n  ["
                + "; ".join(f'("{c["name"]}", (impl_{c["name"]}, data_{c["name"]}))' for c in sh) + "].\n")
with open(f"{prefix}.v", "w") as f:
    f.write(HEAD)
    f.write("From AVchk Require Import " + " ".join(f"{stem}_{k}" for k in range(nshards)) + ".\n")
    f.write("Definition tie_cases : list (string * (expr * list hgroup)) :=\n  ("
            + " ++ ".join(f"tie_cases_{k}" for k in range(nshards)) + ")%list.\n")
print(json.dumps({"cases": [{"name": c["name"], "cfg": c["cfg"], "bytes": len(c["impl"]) + len(c["data"])} for c in cases],
                  "skipped_known_finding": skipped}))
