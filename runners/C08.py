from runners.common import replay_with, standard_flow

TRUSTED = [
    "bridge/symexec.py: symbolic execution of the lambdify-generated NumPy source on object arrays for one event "
    "(own einsum/select/array shims; SymPy's automatic scalar simplifications)",
    "array operations are pointwise in the event axis (exercised with batch sizes 1/2/1000, not proved)",
]


def run(chk):
    chk.assumptions += [
        "theorems are about exact real values; floating-point rounding (error ~ eps*gamma^2) is only looked at by the numeric harness",
        "boost of a momentum at rest is undefined in the code (0/0); proved as C08_boost_undefined_at_rest, outside the property's m>0, p!=0 domain",
    ]
    standard_flow(chk, "symgen_C08.py", ["Gen_C08.v"], ["C08_lemmas.v"], "C08.v",
                  "search_C08.py", 600, 20000,
                  "random momenta (beta*gamma 1e-6..3e4, random and axis-aligned directions), z boosts, rotation angles; "
                  "cse on/off x batch 1/2/1000; compared with a 60-digit textbook boost and the Lorentz identities; "
                  "distinct = distinct generated inputs", coq_timeout=1200)


def replay(path):
    return replay_with("search_C08.py", path)
