from runners.common import replay_with, standard_flow

TRUSTED = [
    "bridge/symexec.py: symbolic execution of the lambdify-generated NumPy source on object arrays for one event "
    "(own einsum/select/array shims; SymPy's automatic scalar simplifications)",
    "bridge/symgen_C08prod.py: chains of k generic operands (plain symbols in the expression, object arrays of distinct scalar symbols at run time); "
    "dimension 2 for k up to 5 (quick) / 7 (thorough), dimension 4 for short chains - the generated einsum text does not depend on the dimension",
    "array operations are pointwise in the event axis (exercised with batch sizes 1/2/1000, not proved)",
]


def run(chk):
    chk.assumptions += [
        "theorems are about exact real values; floating-point rounding (error ~ eps*gamma^2) is only looked at by the numeric harness",
        "boost of a momentum at rest is undefined in the code (0/0); proved as C08_boost_undefined_at_rest, outside the property's m>0, p!=0 domain",
    ]
    kmax = "7" if chk.tier == "thorough" else "5"
    standard_flow(chk, "symgen_C08.py", ["Gen_C08.v", "Gen_C08prod.v"], ["C08_lemmas.v", "C08_products.v"], "C08.v",
                  "search_C08.py", 600, 20000,
                  "random momenta (beta*gamma 1e-6..3e4, random and axis-aligned directions), z boosts, rotation angles; "
                  "cse on/off x batch 1/2/1000; compared with a 60-digit textbook boost and the Lorentz identities; "
                  "distinct = distinct generated inputs", coq_timeout=1200,
                  extra_symgen=[("symgen_C08prod.py", "Gen_C08prod.v", [kmax])],
                  stages=[["Gen_C08.v", "Gen_C08prod.v"], ["C08_lemmas.v", "C08_products.v"]])


def replay(path):
    return replay_with("search_C08.py", path)
