"""C05: spin alignment never changes a single-topology intensity; spin ranges run over -s..s.

T1: the chain structure of builder.formulate().intensity is regenerated for every single-topology
corpus/synthetic reaction x alignment and checked by a Gallina checker proved sound (AV.Align);
T2: create_spin_range is tabulated and compared with the model AV.Spin inside Coq;
harness: intensities of aligned vs unaligned models on the implementation."""
import json
import os

import checklib
from runners.common import replay_with

TRUSTED = [
    "SymPy Rotation.D / Rotation.d (WignerD): NOT formalised; a Section variable D with the named hypotheses "
    "D_unitary_m / D_unitary_mp (unitarity over the complete range -j..j in either index); validated by "
    "bridge/search_C05.py exactly (symbolic angles) for j <= 1 (quick) / j <= 2 (thorough) and to 1e-30 for j <= 5/2",
    "bridge/lib_C05.py extract_chains: recognises the chain structure (which WignerD factor links which summed index) "
    "in the SymPy tree of model.intensity; fail-closed (every factor and every summed index used exactly once); the "
    "Coq denotation AV.Align.amp_flat is the nested sum of the product of these factors in PoolSum order",
    "PoolSum semantics (nested finite sums, Add commutative: outer pools are Python sets and are sorted by the bridge) "
    "and Abs(z)**2 = z * conj z",
    "the amplitude tensor A[...] and the values of all rotation angles are arbitrary in the theorems; that "
    "compute_wigner_angles / formulate_zeta_angle deliver REAL angles is only exercised numerically",
    "coq/theories/Spin.v: values of create_spin_range in exact units of 1/2 (float/Decimal arithmetic on half-integers "
    "is exact; checked against the running code for s = 0..10 exhaustively and some larger)",
]

RULE = ("create_spin_range on s=0..10 x flags exhaustively + random larger; Wigner-D unitarity pairs; per (reaction, "
        "alignment): formulate() and 3 (quick) / 8 (thorough) phase-space events compared with the unaligned model at "
        "rtol 1e-9; distinct = events of models with a rotated particle of spin > 0 that were finite and compared")


def run(chk):
    chk.assumptions += [
        "single topology; 'complete helicity sets' = every rotated outer state occurs with all projections -s..s "
        "(reactions with thinned sets are outside the statement and only tabulated)",
        "massless final-state particle of integer spin >= 1 under axis-angle alignment: pool {-s,+s} is not a complete "
        "range; reported as known finding axisangle_massless_integer_spin",
        "numeric comparison skipped when a massless particle is not a direct child of the initial state "
        "(the Wigner-rotation boost into its rest frame is singular)",
    ]
    gen = os.path.join(chk.build, "Gen_C05.v")
    rc, out, _ = chk.bridge("symgen_C05.py", [gen, chk.tier], timeout=900)
    proofs_ok = False
    raised = []
    if rc != 0:
        chk.obligations.extend(chk.theorem_names(os.path.join(checklib.COQ_PROPS, "C05.v")))
        chk.broken.append({"file": "symgen_C05.py", "item": "model regeneration", "coqc_output": out[-1500:]})
    else:
        for line in reversed(out.splitlines()):
            if line.startswith("{"):
                raised = json.loads(line).get("raised", [])
                chk.notes.append("symgen: " + line[:300])
                break
        proofs_ok = chk.compile_chain(["Gen_C05.v"], ["C05_lemmas.v"], "C05.v", timeout=900)
    # ---- translator tie: create_spin_range as translated from the current source text (C05_code.v)
    from runners.helpers_flow import run_helpers, TRUSTED as HTRUSTED
    chk.assumptions += HTRUSTED
    if not run_helpers(chk, "C05_code.v", {"create_spin_range", "assert_three_body_decay", "get_spectator_id",
                                           "get_decay_product_ids"}):
        proofs_ok = False
    n = 600 if chk.tier == "thorough" else 60
    rc, doc, out = chk.bridge_json("search_C05.py", [str(chk.seed), str(n)], timeout=2400)
    if doc is not None and not proofs_ok and not doc["failures"] and not raised and n < 600:
        # a proof / the regeneration broke and the quick search found nothing: go deep
        rc, doc2, out2 = chk.bridge_json("search_C05.py", [str(chk.seed), "600"], timeout=3000)
        if doc2 is not None:
            doc = doc2
    if doc is None:
        chk.broken.append({"file": "search_C05.py", "item": "numeric harness", "coqc_output": out[-1500:]})
        doc = {"evaluations": 1, "distinct": 0, "samples": [], "failures": []}
    chk.add_cases(doc["evaluations"], doc["distinct"], doc["samples"], RULE)
    if "kinds" in doc:
        chk.cov["input_distribution"] = doc["kinds"]
    failures = list(doc["failures"])
    for r in raised:  # formulate() failures seen while regenerating the model
        kind = "axisangle" if r["alignment"] == "axisangle" else "dpd"
        failures.append({"signature": kind + "_formulate_raises",
                         "what": f"{r['label']}: formulate() with alignment {r['alignment']} raised {r['error']}",
                         "case": {"kind": "model", "label": r["label"], "alignment": r["alignment"],
                                  "seed": chk.seed, "nev": 0}})
    for f in failures:
        chk.violation(f["signature"], f["what"], {"case": f["case"], "search": "search_C05.py"}, True)
    if chk.broken and not chk.violations:
        b = chk.broken[0]
        chk.violation("unproved:" + b["item"], f"{b['file']}:{b['item']} no longer checks",
                      {"theorem": b["item"], "file": b["file"], "coqc_output": b["coqc_output"]}, False)


def replay(path):
    return replay_with("search_C05.py", path)
